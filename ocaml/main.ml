(* model: reads "<command> <sexp>" lines on stdin, prints one result s-expression per line.
   Exceptions of the driver itself (bad shape, stack overflow) are reported as (drivererror ..). *)
(* force linking of the driver modules (each registers its commands) *)
let () = Drv_check.(ignore of_error)
let () = Dfa_io.(ignore of_inp)
let () = Drv_meaning.(ignore linked)
let () = Drv_ambig.(ignore linked)
let () = Drv_emit.(ignore emit_linked)
let () = Drv_dot.(ignore linked)
let () = Drv_bashsem.(ignore linked)
let () = Drv_amb.(ignore linked)
let () = Drv_driver.(ignore linked)
let () = Drv_compiler.(ignore compiler_linked)
let () = Drv_minimize.(ignore of_min_outcome)
let () = Drv_regex.(ignore of_regex)
let () = Drv_parse.(ignore of_grammar)
let () = Drv_main.(ignore main_linked)

let () =
  let ic = stdin in
  (try
     while true do
       let line = input_line ic in
       if String.length line > 0 then begin
         let sp = try String.index line ' ' with Not_found -> String.length line in
         let cmd = String.sub line 0 sp in
         let arg = if sp < String.length line then String.sub line (sp + 1) (String.length line - sp - 1) else "()" in
         let out =
           try
             let f = Hashtbl.find Sx.commands cmd in
             Sx.to_string (f (Sx.parse arg))
           with
           | Not_found -> "(drivererror \"unknown command\")"
           | Sx.Shape m -> "(drivererror " ^ Sx.quote ("shape: " ^ m) ^ ")"
           | Sx.Parse_error m -> "(drivererror " ^ Sx.quote ("parse: " ^ m) ^ ")"
           | Stack_overflow -> "(drivererror \"stack overflow\")"
           | Failure m -> "(drivererror " ^ Sx.quote m ^ ")" in
         print_string out;
         print_newline ()
       end
     done
   with End_of_file -> ())
