(* Drivers of work package "regex" (property C02):
     regex  <valid-expr>                         -> Rust's REGEX payload, computed by Model/Regex.v
     subset <regex> <submap> <pick> <fuel>       -> (ok <dfa> (states ((p..) id)..)) by Model/Subset.v
     equiv  ...                                  -> see below (Spec/Lang.v)                        *)
module Ast = Extracted.Ast
module Regex = Extracted.Regex
module Subset = Extracted.Subset
module Dfa = Extracted.Dfa
module Prelude = Extracted.Prelude
open Sx
open Ast_io

let of_rinput (i : Regex.rinput) : t =
  match i with
  | Regex.RLit (t, d, l, sp) -> List [Atom "lit"; ss t; sos d; sn l; of_span sp]
  | Regex.RNonterm (n, l, sp) -> List [Atom "nt"; ss n; sn l; of_span sp]
  | Regex.RCmd (c, z, l, sp) -> List [Atom "cmd"; ss c; Atom (if z then "1" else "0"); sn l; of_span sp]
  | Regex.RSub (r, l, sp) -> List [Atom "sub"; sn r; sn l; of_span sp]

let rinput_of (v : t) : Regex.rinput =
  match v with
  | List [Atom "lit"; t; d; l; sp] -> Regex.RLit (cl (string_ t), ostring d, n_ l, span_of sp)
  | List [Atom "nt"; n; l; sp] -> Regex.RNonterm (cl (string_ n), n_ l, span_of sp)
  | List [Atom "cmd"; c; z; l; sp] -> Regex.RCmd (cl (string_ c), int_ z <> 0, n_ l, span_of sp)
  | List [Atom "sub"; r; l; sp] -> Regex.RSub (n_ r, n_ l, span_of sp)
  | v -> raise (Shape ("rinput: " ^ to_string v))

let of_rnode (n : Regex.rnode) : t =
  match n with
  | Regex.NEps -> List [Atom "eps"]
  | Regex.NTerm p -> List [Atom "term"; sn p]
  | Regex.NNonterm p -> List [Atom "nonterm"; sn p]
  | Regex.NCmd p -> List [Atom "command"; sn p]
  | Regex.NSub p -> List [Atom "subword"; sn p]
  | Regex.NEnd p -> List [Atom "end"; sn p]
  | Regex.NCat cs -> List (Atom "cat" :: List.map sn cs)
  | Regex.NOr cs -> List (Atom "or" :: List.map sn cs)
  | Regex.NStar c -> List [Atom "star"; sn c]

let rnode_of (v : t) : Regex.rnode =
  match v with
  | List [Atom "eps"] -> Regex.NEps
  | List [Atom "term"; p] -> Regex.NTerm (n_ p)
  | List [Atom "nonterm"; p] -> Regex.NNonterm (n_ p)
  | List [Atom "command"; p] -> Regex.NCmd (n_ p)
  | List [Atom "subword"; p] -> Regex.NSub (n_ p)
  | List [Atom "end"; p] -> Regex.NEnd (n_ p)
  | List (Atom "cat" :: cs) -> Regex.NCat (List.map n_ cs)
  | List (Atom "or" :: cs) -> Regex.NOr (List.map n_ cs)
  | List [Atom "star"; c] -> Regex.NStar (n_ c)
  | v -> raise (Shape ("rnode: " ^ to_string v))

let of_regex (r : Regex.regex) : t =
  if not (Regex.arena_consistent r) then raise (Failure "model: arena does not unfold to the tree");
  List [Atom "regex"; List [Atom "root"; sn r.Regex.r_root]; List [Atom "end"; sn r.Regex.r_end];
        List (Atom "inputs" :: List.map of_rinput r.Regex.r_inputs);
        List (Atom "nodes" :: List.map of_rnode r.Regex.r_arena);
        List (Atom "first" :: List.map sn (Regex.regex_first r));
        List (Atom "follow" :: List.map (fun (p, s) -> List (sn p :: List.map sn s)) (Regex.regex_follow r))]

(* reads Rust's (regex ...) payload; the tree is rebuilt from the arena; first/follow are ignored
   (the model recomputes them) *)
let regex_of (v : t) : Regex.regex =
  match v with
  | List (Atom "regex" :: List [Atom "root"; root] :: List [Atom "end"; e] ::
          List (Atom "inputs" :: inputs) :: List (Atom "nodes" :: nodes) :: _) ->
      let arena = List.map rnode_of nodes in
      let tree = match Regex.unfold_arena (nat_of_int (List.length arena + 1)) arena (n_ root) with
        | Some t -> t
        | None -> raise (Shape "regex: arena does not unfold") in
      { Regex.r_root = n_ root; r_inputs = List.map rinput_of inputs; r_end = n_ e;
        r_arena = arena; r_tree = tree }
  | v -> raise (Shape ("regex: " ^ to_string v))

let of_rerror (e : Regex.rerror) : t =
  match e with
  | Regex.UnboundedMatchable (a, b) -> List [Atom "UnboundedMatchable"; of_span a; of_span b]

let outcome = Drv_check.outcome

(* fuel values repeat: build each Peano numeral once *)
let fuel_cache : (int, Extracted.Datatypes.nat) Hashtbl.t = Hashtbl.create 4
let fuel_of (v : t) =
  let i = int_ v in
  match Hashtbl.find_opt fuel_cache i with
  | Some n -> n
  | None -> let n = nat_of_int i in Hashtbl.replace fuel_cache i n; n

let () =
  register "regex" (fun v ->
      match v with
      | List [e] ->
          outcome (fun (r, pool) ->
              List [Atom "ok"; of_regex r;
                    List (Atom "pool" :: List.mapi (fun i x -> List [Atom (string_of_int i); of_regex x]) pool)])
            (Regex.from_valid_expr (expr_of e)) of_rerror
      | _ -> raise (Shape "regex args"))

let set_of v = List.map n_ (list_ v)
let of_set s = List (List.map sn s)

let pick_of (v : t) =
  match v with
  | Atom "first" -> Subset.pick_first
  | Atom "last" -> Subset.pick_last
  | List (Atom "script" :: sets) -> Subset.pick_script (List.map set_of sets)
  | v -> raise (Shape ("pick: " ^ to_string v))

let of_serror (e : Subset.serror) : t =
  match e with
  | Subset.MissingSubAutomaton r -> List [Atom "MissingSubAutomaton"; sn r]

let () =
  register "subset" (fun v ->
      match v with
      | List [r; List (Atom "submap" :: m); pick; fuel] ->
          let r = regex_of r in
          let submap = List.map Dfa_io.pair_of m in
          if not (Subset.valid_submap r submap) then List [Atom "invalid-submap"] else
          outcome (fun (d, states) ->
              List [Atom "ok"; Dfa_io.of_dfa_with d [];
                    List (Atom "states" :: List.map (fun (s, i) -> List [of_set s; sn i]) states)])
            (Subset.dfa_from_regex (pick_of pick) (fuel_of fuel) submap r) of_serror
      | _ -> raise (Shape "subset args"))

(* ---- Spec/Lang.v: the proved judge ----
   equiv  <dfa (with subdfas)> <valid-expr> <fuel>  -> (equal) | (differ (<letter>..)) | (nofuel)
   wequiv <dfa> <within-word expr> <fuel>           -> the same, for a within-word automaton       *)
module Lang = Extracted.Lang

let of_witem (a : Lang.witem) : t =
  match a with
  | Lang.WLit (t, d, l) -> List [Atom "lit"; ss t; sos d; sn l]
  | Lang.WCmd (c, l) -> List [Atom "cmd"; ss c; sn l]
  | Lang.WCompadd (c, l) -> List [Atom "compadd"; ss c; sn l]
  | Lang.WStar -> List [Atom "star"]

let of_tl (a : Lang.tl) : t =
  match a with
  | Lang.TLeaf w -> of_witem w
  | Lang.TSub (c, l) -> List [Atom "sub"; sn c; sn l]

let of_result (f : 'a -> t) (r : 'a Lang.result) : t =
  match r with
  | Lang.Equal -> List [Atom "equal"]
  | Lang.Differ w -> List [Atom "differ"; List (List.map f w)]
  | Lang.NoFuel -> List [Atom "nofuel"]

let () =
  register "equiv" (fun v ->
      match v with
      | List [d; e; fuel] ->
          of_result of_tl (Lang.equiv_dfa_expr (fuel_of fuel) (Dfa_io.cdfa_of d) (expr_of e))
      | _ -> raise (Shape "equiv args"))

let () =
  register "wequiv" (fun v ->
      match v with
      | List [d; e; fuel] ->
          let (d, _) = Dfa_io.dfa_parts d in
          of_result of_witem (Lang.equiv_wdfa_expr (fuel_of fuel) d (expr_of e))
      | _ -> raise (Shape "wequiv args"))

(* levels <valid-expr> -> (ok) | (bad): every leaf carries the index of its innermost || branch *)
let () =
  register "levels" (fun v ->
      match v with
      | List [e] -> List [Atom (if Lang.levels_ok (n_of_int 0) (expr_of e) then "ok" else "bad")]
      | _ -> raise (Shape "levels args"))
