(* Driver commands for Model/BashSem.v and Model/Glob.v.

   bashsem <variant> <start> <alltables> (queries (q <wordbreaks> <ignorecase 0|1> (outputs (id "text")...) (words "w"...) "prefix")...)
       variant = pinned | fixed | repaired ; alltables = cg-dump's TABLES payload
       -> ((ok rc (reply "c"...) (log (id "a1" "a2")...)) | (err "msg") | (outoffuel) | (panic "site") ...)   one per query
   subword <variant> <mode matches|complete> <tables> <alltables> <ignorecase> (outputs ...) "word"
       -> (ok matched|(adds "m"...) (log ...)) | ...
   globs ((ext "pattern" "string")...)   -> ((some 0|1) | (none) ...)          [[ string == pattern ]] / ${x#pattern}
   printfq ("s"...)                      -> ((some "q") | (none) ...)
   rmpat ((kind "pattern" "x")...)       kind = longest_prefix | shortest_prefix | shortest_suffix -> ((some "r")|(none) ...)
   filterlines ("output"...)             -> (("cand"...) ...)     cmd | while read -r f1 _; do echo "$f1"; done | readarray -t
   sortdesc (("c"...)...)                -> (("c"...) ...)        sort -nrk2,2 -rk3
   assockeys ((k...)...)                 -> ((k...) ...)          "${!a[@]}" after a=([k]=.. ...) *)
module B = Extracted.BashSem
module G = Extracted.Glob
module Prelude = Extracted.Prelude
open Sx

let variant_of v = match atom v with
  | "pinned" -> B.Pinned
  | "fixed" -> B.Fixed
  | "repaired" -> B.Repaired
  | s -> raise (Shape ("variant: " ^ s))

let bool_of v = match atom v with "0" -> false | "1" -> true | s -> raise (Shape ("bool: " ^ s))

let outputs_of v = match v with
  | List (Atom "outputs" :: l) ->
      List.map (fun p -> match p with
          | List [id; t] -> (n_ id, cl (string_ t))
          | _ -> raise (Shape "output")) l
  | v -> raise (Shape ("outputs: " ^ to_string v))

let of_log log =
  List (Atom "log" :: List.map (fun ((id, a1), a2) -> List [sn id; ss a1; ss a2]) log)

let outcome (f : 'a -> t) (r : (char list, 'a) Prelude.outcome) : t =
  match r with
  | Prelude.Ok a -> f a
  | Prelude.Err e -> List [Atom "err"; ss e]
  | Prelude.Panic s -> List [Atom "panic"; ss s]
  | Prelude.OutOfFuel -> List [Atom "outoffuel"]

let () =
  register "bashsem" (fun v ->
      match v with
      | List [var; start; tabs; List (Atom "queries" :: qs)] ->
          let var = variant_of var in
          let start = n_ start in
          let tabs = Dfa_io.alltables_of tabs in
          List (List.map (fun q ->
              match q with
              | List [Atom "q"; wb; ic; outs; List (Atom "words" :: ws); p] ->
                  let e = { B.e_wordbreaks = cl (string_ wb); e_outputs = outputs_of outs; e_ignore_case = bool_of ic } in
                  let r = B.run_from var start tabs e (List.map (fun w -> cl (string_ w)) ws) (cl (string_ p)) in
                  outcome (fun r ->
                      List [Atom "ok"; sn r.B.r_rc; List (Atom "reply" :: List.map ss r.B.r_reply); of_log r.B.r_log]) r
              | q -> raise (Shape ("query: " ^ to_string q))) qs)
      | _ -> raise (Shape "bashsem args"))

let () =
  register "subword" (fun v ->
      match v with
      | List [var; mode; t; tabs; ic; outs; w] ->
          let var = variant_of var in
          let tabs = Dfa_io.alltables_of tabs in
          let t = Dfa_io.tables_of t in
          let e = { B.e_wordbreaks = []; e_outputs = outputs_of outs; e_ignore_case = bool_of ic } in
          (match atom mode with
           | "matches" ->
               outcome (fun (m, log) -> List [Atom "ok"; Atom (if m then "1" else "0"); of_log (List.rev log)])
                 (B.subword_matches var tabs e t [] (cl (string_ w)) [])
           | "complete" ->
               outcome (fun (adds, log) -> List [Atom "ok"; List (Atom "adds" :: List.map ss adds); of_log (List.rev log)])
                 (B.subword_complete var tabs e t (cl (string_ w)) [])
           | s -> raise (Shape ("mode: " ^ s)))
      | _ -> raise (Shape "subword args"))

let obool = function None -> List [Atom "none"] | Some b -> List [Atom "some"; Atom (if b then "1" else "0")]
let ostr = function None -> List [Atom "none"] | Some s -> List [Atom "some"; ss s]

let () =
  register "globs" (fun v ->
      match v with
      | List [List l] ->
          List (List.map (fun q -> match q with
              | List [ext; p; s] -> obool (G.glob_match (bool_of ext) (cl (string_ p)) (cl (string_ s)))
              | _ -> raise (Shape "glob query")) l)
      | _ -> raise (Shape "globs args"));
  register "printfq" (fun v ->
      match v with
      | List [List l] -> List (List.map (fun s -> ostr (G.printf_q (cl (string_ s)))) l)
      | _ -> raise (Shape "printfq args"));
  register "rmpat" (fun v ->
      match v with
      | List [List l] ->
          List (List.map (fun q -> match q with
              | List [k; p; x] ->
                  let f = match atom k with
                    | "longest_prefix" -> G.rm_longest_prefix
                    | "shortest_prefix" -> G.rm_shortest_prefix
                    | "shortest_suffix" -> G.rm_shortest_suffix
                    | s -> raise (Shape ("rmpat kind: " ^ s)) in
                  ostr (f (cl (string_ p)) (cl (string_ x)))
              | _ -> raise (Shape "rmpat query")) l)
      | _ -> raise (Shape "rmpat args"));
  register "filterlines" (fun v ->
      match v with
      | List [List l] -> List (List.map (fun s -> List (List.map ss (B.filter_lines (cl (string_ s))))) l)
      | _ -> raise (Shape "filterlines args"));
  register "sortdesc" (fun v ->
      match v with
      | List [List l] ->
          List (List.map (fun c -> List (List.map ss (B.sort_desc (List.map (fun s -> cl (string_ s)) (list_ c))))) l)
      | _ -> raise (Shape "sortdesc args"));
  register "assockeys" (fun v ->
      match v with
      | List [List l] ->
          List (List.map (fun ks ->
              List (List.map (fun (k, _) -> sn k) (B.assoc_of (List.map (fun k -> (n_ k, ())) (list_ ks))))) l)
      | _ -> raise (Shape "assockeys args"))

let of_alltables (t : Extracted.Dfa.alltables) : t =
  let module D = Extracted.Dfa in
  List [Atom "alltables";
        List (Atom "commands" :: List.map ss t.D.a_commands);
        List (Atom "states" :: List.map sn t.D.a_states);
        List [Atom "main"; Dfa_io.of_tables t.D.a_main];
        List (Atom "subtrans" :: List.map Dfa_io.of_row t.D.a_subtrans);
        List [Atom "csub"; Dfa_io.of_levels t.D.a_csub];
        List (Atom "subwords" :: List.map (fun ((p, i), tb) -> List [sn p; sn i; Dfa_io.of_tables tb]) t.D.a_subwords);
        List (Atom "subaccepting" :: List.map Dfa_io.of_ids_row t.D.a_subaccepting)]

(* chaintables ("lit"...) ipre "next" -> (alltables ...) in cg-dump's format (without needs / shapehash) *)
let () =
  register "chaintables" (fun v ->
      match v with
      | List [List lits; ipre; next] ->
          of_alltables (Extracted.ChainTables.chain_alltables (List.map (fun s -> cl (string_ s)) lits) (n_ ipre) (cl (string_ next)))
      | _ -> raise (Shape "chaintables args"))

(* c17witness w1|w2 -> the witness tables of Props/C17.v *)
let () =
  register "c17witness" (fun v ->
      match v with
      | List [Atom "w1"] -> of_alltables Extracted.C17Witness.w1
      | List [Atom "w2"] -> of_alltables Extracted.C17Witness.w2
      | _ -> raise (Shape "c17witness args"))

(* specrun <start> <alltables> (queries (q ...)...) -> ((ok rc (reply ..) (log ..) esc) | (err ..) ...)   Spec/Invocations.v *)
let () =
  register "specrun" (fun v ->
      match v with
      | List [start; tabs; List (Atom "queries" :: qs)] ->
          let start = n_ start in
          let tabs = Dfa_io.alltables_of tabs in
          List (List.map (fun q ->
              match q with
              | List [Atom "q"; wb; ic; outs; List (Atom "words" :: ws); p] ->
                  let e = { B.e_wordbreaks = cl (string_ wb); e_outputs = outputs_of outs; e_ignore_case = bool_of ic } in
                  let r = Extracted.Invocations.spec_run start tabs e (List.map (fun w -> cl (string_ w)) ws) (cl (string_ p)) in
                  outcome (fun (r, esc) ->
                      List [Atom "ok"; sn r.B.r_rc; List (Atom "reply" :: List.map ss r.B.r_reply); of_log r.B.r_log;
                            Atom (if esc then "1" else "0")]) r
              | q -> raise (Shape ("query: " ^ to_string q))) qs)
      | _ -> raise (Shape "specrun args"))

(* specrunsw <start> <alltables> (queries (q ...)...) -> ((ok rc (reply ..) (log ..)) | (err ..) ...)   Spec/InvocationsSub.v *)
let () =
  register "specrunsw" (fun v ->
      match v with
      | List [start; tabs; List (Atom "queries" :: qs)] ->
          let start = n_ start in
          let tabs = Dfa_io.alltables_of tabs in
          List (List.map (fun q ->
              match q with
              | List [Atom "q"; wb; ic; outs; List (Atom "words" :: ws); p] ->
                  let e = { B.e_wordbreaks = cl (string_ wb); e_outputs = outputs_of outs; e_ignore_case = bool_of ic } in
                  let r = Extracted.InvocationsSub.spec_run_sw start tabs e (List.map (fun w -> cl (string_ w)) ws) (cl (string_ p)) in
                  outcome (fun r ->
                      List [Atom "ok"; sn r.B.r_rc; List (Atom "reply" :: List.map ss r.B.r_reply); of_log r.B.r_log]) r
              | q -> raise (Shape ("query: " ^ to_string q))) qs)
      | _ -> raise (Shape "specrunsw args"))

let linked = ()
