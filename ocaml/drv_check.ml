(* check <shell> <grammar>  ->  (ok ...) | (err ...) | (panic site) | (outoffuel)
   the built-in table is Consts.builtins, regenerated from src/check.rs by the translator *)
module Ast = Extracted.Ast
module Check = Extracted.Check
module Prelude = Extracted.Prelude
open Sx
open Ast_io

let of_error (e : Check.cerror) : t =
  let spans l = List.map of_span l in
  match e with
  | Check.MissingCallVariants -> List [Atom "MissingCallVariants"]
  | Check.VaryingCommandNames l -> List (Atom "VaryingCommandNames" :: spans l)
  | Check.InvalidCommandName s -> List [Atom "InvalidCommandName"; of_span s]
  | Check.DuplicateNonterminalDefinition (a, b) -> List [Atom "DuplicateNonterminalDefinition"; of_span a; of_span b]
  | Check.UnknownShell s -> List [Atom "UnknownShell"; of_span s]
  | Check.NonCommandSpecialization s -> List [Atom "NonCommandSpecialization"; of_span s]
  | Check.NonterminalDefinitionsCycle l -> List (Atom "NonterminalDefinitionsCycle" :: spans l)
  | Check.SubwordSpaces (a, b, tr) -> List [Atom "SubwordSpaces"; of_span a; of_span b; List (spans tr)]

let named (l : (char list * Ast.span) list) : t list =
  let items = List.map (fun (n, sp) -> to_string (List [ss n; of_span sp])) l in
  List.map (fun s -> Atom s) (List.sort compare items)

let outcome (f : 'a -> t) (r : ('e, 'a) Prelude.outcome) (fe : 'e -> t) : t =
  match r with
  | Prelude.Ok a -> f a
  | Prelude.Err e -> List [Atom "err"; fe e]
  | Prelude.Panic s -> List [Atom "panic"; ss s]
  | Prelude.OutOfFuel -> List [Atom "outoffuel"]

let () =
  register "check" (fun v ->
      match v with
      | List [sh; g] ->
          let r = Check.from_grammar Extracted.Consts.builtins (grammar_of g) (shell_of sh) in
          outcome (fun vg ->
              List [Atom "ok"; ss vg.Check.v_command; of_expr vg.Check.v_expr;
                    List (Atom "undefined" :: named vg.Check.v_undefined);
                    List (Atom "unused" :: named vg.Check.v_unused);
                    List (Atom "unusedspecs" :: named vg.Check.v_unused_specs)]) r of_error
      | _ -> raise (Shape "check args"))

(* choice <shell> <name> <grammar> -> (cmd "text") | (plain <expr>) | (any)   [Spec/Choice.v] *)
let () =
  register "choice" (fun v ->
      match v with
      | List [sh; x; g] ->
          (match Extracted.Choice.spec Extracted.Consts.builtins (grammar_of g) (shell_of sh) (cl (string_ x)) with
           | Extracted.Choice.ChCommand c -> List [Atom "cmd"; ss c]
           | Extracted.Choice.ChPlain e -> List [Atom "plain"; of_expr e]
           | Extracted.Choice.ChAny -> List [Atom "any"])
      | _ -> raise (Shape "choice args"))

(* mistakes <shell> <grammar> -> (classes c...) (specsok 0|1)        [Spec/Mistakes.v]
   warnings <shell> <grammar> -> (undefined "n"...) (unused "n"...) (unusedspecs "n"...)  [Spec/Warnings.v] *)
let class_name (c : Extracted.Mistakes.mclass) : string =
  match c with
  | Extracted.Mistakes.MNoCallVariant -> "MNoCallVariant"
  | Extracted.Mistakes.MVaryingNames -> "MVaryingNames"
  | Extracted.Mistakes.MSlashInName -> "MSlashInName"
  | Extracted.Mistakes.MDuplicatePlain -> "MDuplicatePlain"
  | Extracted.Mistakes.MDuplicateForShell -> "MDuplicateForShell"
  | Extracted.Mistakes.MUnknownShell -> "MUnknownShell"
  | Extracted.Mistakes.MNonCommandForShell -> "MNonCommandForShell"
  | Extracted.Mistakes.MCycle -> "MCycle"
  | Extracted.Mistakes.MSubwordSpaces -> "MSubwordSpaces"
  | Extracted.Mistakes.MPlaceholderNotLast -> "MPlaceholderNotLast"

let () =
  register "mistakes" (fun v ->
      match v with
      | List [sh; g] ->
          let g = grammar_of g and sh = shell_of sh in
          let cs = Extracted.Mistakes.present Extracted.Consts.builtins g sh in
          List [List (Atom "classes" :: List.map (fun c -> Atom (class_name c)) cs);
                List [Atom "specsok"; Atom (if Extracted.Mistakes.specs_have_command_plain g then "1" else "0")]]
      | _ -> raise (Shape "mistakes args"));
  register "warnings" (fun v ->
      match v with
      | List [sh; g] ->
          let g = grammar_of g and sh = shell_of sh in
          let names l = List.map (fun s -> Str s) (List.sort_uniq compare (List.map str l)) in
          List [List (Atom "undefined" :: names (Extracted.Warnings.undefined_reported Extracted.Consts.builtins g sh));
                List (Atom "unused" :: names (Extracted.Warnings.unused_plain g));
                List (Atom "unusedspecs" :: names (Extracted.Warnings.unused_for_shell g sh))]
      | _ -> raise (Shape "warnings args"))
