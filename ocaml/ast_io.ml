(* Conversions for the Ast datatypes: spans, expression trees, grammars. *)
module Ast = Extracted.Ast
open Sx

let span_of (v : t) : Ast.span =
  match String.split_on_char ':' (atom v) with
  | [a; b; c] -> { Ast.sline = n_of_int (int_of_string a); scol = n_of_int (int_of_string b);
                   secol = n_of_int (int_of_string c) }
  | _ -> raise (Shape "span")

let of_span (s : Ast.span) : t =
  Atom (Printf.sprintf "%d:%d:%d" (int_of_n s.Ast.sline) (int_of_n s.Ast.scol) (int_of_n s.Ast.secol))

(* parse-stage trees carry a level field too (always 0 after parsing) *)
let rec expr_of (v : t) : Ast.expr =
  match v with
  | List [Atom "lit"; t; d; l; sp] -> Ast.Terminal (cl (string_ t), ostring d, n_ l, span_of sp)
  | List [Atom "nt"; n; l; sp] -> Ast.NontermRef (cl (string_ n), n_ l, span_of sp)
  | List [Atom "cmd"; c; z; l; sp] -> Ast.Command (cl (string_ c), int_ z <> 0, n_ l, span_of sp)
  | List (Atom "seq" :: sp :: cs) -> Ast.Sequence (List.map expr_of cs, span_of sp)
  | List (Atom "alt" :: sp :: cs) -> Ast.Alternative (List.map expr_of cs, span_of sp)
  | List (Atom "fb" :: sp :: cs) -> Ast.Fallback (List.map expr_of cs, span_of sp)
  | List [Atom "opt"; sp; c] -> Ast.Optional (expr_of c, span_of sp)
  | List [Atom "many"; sp; c] -> Ast.Many1 (expr_of c, span_of sp)
  | List [Atom "dd"; d; sp; c] -> Ast.DistDescr (expr_of c, cl (string_ d), span_of sp)
  | List [Atom "sub"; l; sp; c] -> Ast.Subword (expr_of c, n_ l, span_of sp)
  | v -> raise (Shape ("expr: " ^ to_string v))

let rec of_expr (e : Ast.expr) : t =
  match e with
  | Ast.Terminal (t, d, l, sp) -> List [Atom "lit"; ss t; sos d; sn l; of_span sp]
  | Ast.NontermRef (n, l, sp) -> List [Atom "nt"; ss n; sn l; of_span sp]
  | Ast.Command (c, z, l, sp) -> List [Atom "cmd"; ss c; Atom (if z then "1" else "0"); sn l; of_span sp]
  | Ast.Sequence (cs, sp) -> List (Atom "seq" :: of_span sp :: List.map of_expr cs)
  | Ast.Alternative (cs, sp) -> List (Atom "alt" :: of_span sp :: List.map of_expr cs)
  | Ast.Fallback (cs, sp) -> List (Atom "fb" :: of_span sp :: List.map of_expr cs)
  | Ast.Optional (c, sp) -> List [Atom "opt"; of_span sp; of_expr c]
  | Ast.Many1 (c, sp) -> List [Atom "many"; of_span sp; of_expr c]
  | Ast.DistDescr (c, d, sp) -> List [Atom "dd"; ss d; of_span sp; of_expr c]
  | Ast.Subword (c, l, sp) -> List [Atom "sub"; sn l; of_span sp; of_expr c]

let statement_of (v : t) : Ast.statement =
  match v with
  | List [Atom "call"; n; sp; e] -> Ast.CallVariant (cl (string_ n), span_of sp, expr_of e)
  | List [Atom "def"; n; sp; sh; rhs] ->
      let sh = match sh with
        | Atom "-" -> None
        | List [s; ssp] -> Some (cl (string_ s), span_of ssp)
        | _ -> raise (Shape "def shell") in
      Ast.NontermDef (cl (string_ n), span_of sp, sh, expr_of rhs)
  | v -> raise (Shape ("statement: " ^ to_string v))

let grammar_of (v : t) : Ast.grammar = List.map statement_of (list_ v)

let shell_of (v : t) : Ast.shell =
  match atom v with
  | "bash" -> Ast.Bash | "fish" -> Ast.Fish | "zsh" -> Ast.Zsh | "pwsh" -> Ast.Pwsh
  | s -> raise (Shape ("shell " ^ s))
