(* amb <dfa> -> (ok) | (err (AmbiguousDFA (inp..) (inp..))) | (err (ConflictingDescriptions (inp..) "lit" "l" "r"))
   [Model/Ambiguity.v: DFA::check_ambiguity_best_effort on the main automaton] *)
module Amb = Extracted.Ambiguity
open Sx
open Dfa_io

let linked = ()

let () =
  register "amb" (fun v ->
      match v with
      | List [d] ->
          let c = cdfa_of d in
          (match Amb.check_ambiguity_best_effort c.Extracted.Dfa.c_main with
           | Extracted.Prelude.Ok _ -> List [Atom "ok"]
           | Extracted.Prelude.Err (Amb.AmbiguousDFA (path, ins)) ->
               List [Atom "err"; List [Atom "AmbiguousDFA"; List (List.map of_inp path); List (List.map of_inp ins)]]
           | Extracted.Prelude.Err (Amb.ConflictingDescriptions (path, lit, l, r)) ->
               List [Atom "err"; List [Atom "ConflictingDescriptions"; List (List.map of_inp path); ss lit; ss l; ss r]]
           | Extracted.Prelude.Panic s -> List [Atom "panic"; ss s]
           | Extracted.Prelude.OutOfFuel -> List [Atom "outoffuel"])
      | _ -> raise (Shape "amb args"))
