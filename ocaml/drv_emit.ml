(* Driver commands of work package emit (C07, C04).
   msc <shell> "s"                 -> "constant"                 Model.Quote.make_string_constant
   dqread <shell> "text"           -> (ok "value" "rest") | (none)            Spec.ShellDQ.read
   dqlist <shell> "sep" "text"     -> (("v1" "v2" ...) "rest")                Spec.ShellDQ.read_list
   dqadm <shell> "s"               -> 1 | 0       is s outside the shell's known hazard class *)
module Quote = Extracted.Quote
module ShellDQ = Extracted.ShellDQ
open Sx
open Ast_io

let emit_linked = ()

let () =
  register "msc" (fun v ->
      match v with
      | List [sh; s] -> ss (Quote.make_string_constant (shell_of sh) (cl (string_ s)))
      | _ -> raise (Shape "msc args"))

let () =
  register "dqread" (fun v ->
      match v with
      | List [sh; s] ->
          (match ShellDQ.read (shell_of sh) (cl (string_ s)) with
           | Some (v, rest) -> List [Atom "ok"; ss v; ss rest]
           | None -> List [Atom "none"])
      | _ -> raise (Shape "dqread args"))

let () =
  register "dqlist" (fun v ->
      match v with
      | List [sh; sep; s] ->
          let text = cl (string_ s) in
          let (vs, rest) = ShellDQ.read_list (nat_of_int (List.length text + 1)) (shell_of sh) (cl (string_ sep)) text in
          List [List (List.map ss vs); ss rest]
      | _ -> raise (Shape "dqlist args"))

let () =
  register "dqadm" (fun v ->
      match v with
      | List [sh; s] -> Atom (if ShellDQ.admissibleb (shell_of sh) (cl (string_ s)) then "1" else "0")
      | _ -> raise (Shape "dqadm args"))
