(* Driver commands of work package emit (C07, C04).
   msc <shell> "s"                 -> "constant"                 Model.Quote.make_string_constant
   dqread <shell> "text"           -> (ok "value" "rest") | (none)            Spec.ShellDQ.read
   dqlist <shell> "sep" "text"     -> (("v1" "v2" ...) "rest")                Spec.ShellDQ.read_list
   dqadm <shell> "s"               -> 1 | 0       is s outside the shell's known hazard class *)
module Quote = Extracted.Quote
module ShellDQ = Extracted.ShellDQ
open Sx
open Ast_io

let emit_linked = ()

let () =
  register "msc" (fun v ->
      match v with
      | List [sh; s] -> ss (Quote.make_string_constant (shell_of sh) (cl (string_ s)))
      | _ -> raise (Shape "msc args"))

let () =
  register "dqread" (fun v ->
      match v with
      | List [sh; s] ->
          (match ShellDQ.read (shell_of sh) (cl (string_ s)) with
           | Some (v, rest) -> List [Atom "ok"; ss v; ss rest]
           | None -> List [Atom "none"])
      | _ -> raise (Shape "dqread args"))

let () =
  register "dqlist" (fun v ->
      match v with
      | List [sh; sep; s] ->
          let text = cl (string_ s) in
          let (vs, rest) = ShellDQ.read_list (nat_of_int (List.length text + 1)) (shell_of sh) (cl (string_ sep)) text in
          List [List (List.map ss vs); ss rest]
      | _ -> raise (Shape "dqlist args"))

let () =
  register "dqadm" (fun v ->
      match v with
      | List [sh; s] -> Atom (if ShellDQ.outside_known_class (shell_of sh) (cl (string_ s)) then "1" else "0")
      | _ -> raise (Shape "dqadm args"))

(* ---- C04: lookup tables -------------------------------------------------------------------
   tables <shell> <dfa> (<"text" "descr">...) ((poolidx <"text" "descr">...)...)
     -> (ok (alltables (needs b*7) (commands ..) (states ..) (main <tables>) (subtrans ..) (csub ..)
             (subwords (poolidx id <tables>)..)) (validorders 0|1))  | (panic "site") *)
module Tables = Extracted.Tables
module Dfa = Extracted.Dfa
open Dfa_io

let ord_of (v : t) : (char list * char list) list =
  List.map (fun p -> match p with
      | List [a; b] -> (cl (string_ a), cl (string_ b))
      | _ -> raise (Shape "literal order entry")) (list_ v)

let ord_subs_of (v : t) =
  List.map (fun e -> match e with
      | List (pi :: ps) -> (n_ pi, ord_of (List ps))
      | _ -> raise (Shape "sub literal order")) (list_ v)

let bit b = Atom (if b then "1" else "0")

let of_needs (n : Tables.needs) : t =
  List [Atom "needs"; bit n.Tables.n_subwords; bit n.Tables.n_top_cmd; bit n.Tables.n_sub_cmd;
        bit n.Tables.n_top_compadd; bit n.Tables.n_sub_compadd; bit n.Tables.n_top_star; bit n.Tables.n_sub_star]

let of_alltables (nd : Tables.needs) (a : Dfa.alltables) : t =
  List [Atom "alltables"; of_needs nd;
        List (Atom "commands" :: List.map ss a.Dfa.a_commands);
        List (Atom "states" :: List.map sn a.Dfa.a_states);
        List [Atom "main"; of_tables a.Dfa.a_main];
        List (Atom "subtrans" :: List.map of_row a.Dfa.a_subtrans);
        List [Atom "csub"; of_levels a.Dfa.a_csub];
        List (Atom "subwords" :: List.map (fun ((pi, id), t) -> List [sn pi; sn id; of_tables t]) a.Dfa.a_subwords);
        List (Atom "subaccepting" :: List.map of_ids_row a.Dfa.a_subaccepting)]

let res_to (f : 'a -> t) (r : (unit, 'a) Extracted.Prelude.outcome) : t =
  match r with
  | Extracted.Prelude.Ok a -> f a
  | Extracted.Prelude.Err () -> List [Atom "err"]
  | Extracted.Prelude.Panic s -> List [Atom "panic"; ss s]
  | Extracted.Prelude.OutOfFuel -> List [Atom "outoffuel"]

let () =
  register "tables" (fun v ->
      match v with
      | List [sh; d; om; os] ->
          let c = cdfa_of d in
          let om = ord_of om and os = ord_subs_of os in
          let valid = Tables.valid_orders c om os in
          res_to (fun (nd, a) -> List [Atom "ok"; of_alltables nd a; List [Atom "validorders"; bit valid]])
            (Tables.all_tables (shell_of sh) c om os)
      | _ -> raise (Shape "tables args"))

(* iso <tables> <tables> -> 1 | 0      Model.Tables.isomorphic_to *)
let () =
  register "iso" (fun v ->
      match v with
      | List [a; b] -> bit (Tables.isomorphic_to (tables_of a) (tables_of b))
      | _ -> raise (Shape "iso args"))

(* emitbash "command" "signature line" <dfa> <ordmain> <ordsubs> ((id ...)...)
     -> (ok "script text" valid) | (panic "site")          Model.EmitBash.script_of_dfa *)
let () =
  register "emitbash" (fun v ->
      match v with
      | List [cmd; sg; d; om; os; gs] ->
          let groups = List.map (fun g -> List.map n_ (list_ g)) (list_ gs) in
          res_to (fun (s, valid) -> List [Atom "ok"; ss s; bit valid])
            (Extracted.EmitBash.script_of_dfa (cl (string_ cmd)) (cl (string_ sg)) (cdfa_of d) (ord_of om) (ord_subs_of os) groups)
      | _ -> raise (Shape "emitbash args"))

(* readscript <shell> "command" "script text" -> (<stmt>...)                      Spec.ScriptRead.read_stmts
   <stmt> = (func "n") (end) (body "t") (lits "v" ("a"..)) (str "v" k "s") (decl "v") (row "v" s ((k v)..))
            (assoc "v" ((s (l ..))..)) (scalar "v" n) (set "v" idx|- (n|"s" ..)) (call "n") (register "a" ..) *)
module SR = Extracted.ScriptRead
let of_stmt (s : SR.stmt) : t =
  match s with
  | SR.SFunc n -> List [Atom "func"; ss n]
  | SR.SEnd -> List [Atom "end"]
  | SR.SBody b -> List [Atom "body"; ss b]
  | SR.SLits (v, l) -> List [Atom "lits"; ss v; List (List.map ss l)]
  | SR.SStr (v, k, d) -> List [Atom "str"; ss v; sn k; ss d]
  | SR.SDecl v -> List [Atom "decl"; ss v]
  | SR.SRow (v, s, l) -> List [Atom "row"; ss v; sn s; List (List.map of_pair l)]
  | SR.SAssoc (v, l) -> List [Atom "assoc"; ss v; List (List.map (fun (k, ids) -> List [sn k; List (List.map sn ids)]) l)]
  | SR.SScalar (v, n) -> List [Atom "scalar"; ss v; sn n]
  | SR.SSet (v, idx, l) ->
      List [Atom "set"; ss v; (match idx with Some k -> sn k | None -> Atom "-");
            List (List.map (fun i -> match i with SR.INum n -> sn n | SR.IStr s -> ss s) l)]
  | SR.SCall n -> List [Atom "call"; ss n]
  | SR.SRegister l -> List (Atom "register" :: List.map ss l)

let () =
  register "readscript" (fun v ->
      match v with
      | List [sh; c; s] -> List (List.map of_stmt (SR.read_stmts (shell_of sh) (cl (string_ c)) (cl (string_ s))))
      | _ -> raise (Shape "readscript args"))

(* emitdata <shell> "command" <dfa> <ordmain> <ordsubs> ((id ...)...)
     -> (ok ("kind" "text") ...) | (panic "site")            Model.EmitData.data_of_dfa (fish, zsh, pwsh) *)
let () =
  register "emitdata" (fun v ->
      match v with
      | List [sh; cmd; d; om; os; gs] ->
          let groups = List.map (fun g -> List.map n_ (list_ g)) (list_ gs) in
          res_to (fun bs -> List (Atom "ok" :: List.map (fun (k, t) -> List [ss k; ss t]) bs))
            (Extracted.EmitData.data_of_dfa (shell_of sh) (cl (string_ cmd)) (cdfa_of d) (ord_of om) (ord_subs_of os) groups)
      | _ -> raise (Shape "emitdata args"))

(* emitscript <shell> "command" "signature line" <dfa> <ordmain> <ordsubs> ((id ...)...)
     -> (ok "script text" valid) | (panic "site")     whole-script models of the fish/zsh/pwsh emitters *)
let whole_script : (string, char list -> char list -> Dfa.cdfa -> (char list * char list) list ->
                    (Extracted.BinNums.coq_N * (char list * char list) list) list -> Extracted.BinNums.coq_N list list ->
                    (unit, char list * bool) Extracted.Prelude.outcome) Hashtbl.t = Hashtbl.create 4
let () = Hashtbl.replace whole_script "zsh" Extracted.EmitZsh.script_of_dfa
let () = Hashtbl.replace whole_script "pwsh" Extracted.EmitPwsh.script_of_dfa
let () = Hashtbl.replace whole_script "fish" Extracted.EmitFish.script_of_dfa
let () =
  register "emitscript" (fun v ->
      match v with
      | List [sh; cmd; sg; d; om; os; gs] ->
          let groups = List.map (fun g -> List.map n_ (list_ g)) (list_ gs) in
          (match Hashtbl.find_opt whole_script (atom sh) with
           | None -> List [Atom "unsupported"]
           | Some f ->
               res_to (fun (s, valid) -> List [Atom "ok"; ss s; bit valid])
                 (f (cl (string_ cmd)) (cl (string_ sg)) (cdfa_of d) (ord_of om) (ord_subs_of os) groups))
      | _ -> raise (Shape "emitscript args"))
