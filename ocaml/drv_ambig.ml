(* Spec/Ambig.v, extracted.
   ambig <dfa>  ->  (none) | (some <state> <input id> <input id> "<common word>" | -)
   <dfa> is the MIN (or RAW) payload of cg-dump without its (ok ...) wrapper. *)
module A = Extracted.Ambig
open Sx

let () =
  register "ambig" (fun v ->
      match v with
      | List [d] ->
          let c = Dfa_io.cdfa_of d in
          (match A.find c with
           | None -> List [Atom "none"]
           | Some w ->
               List [Atom "some"; sn w.A.w_state; sn w.A.w_in1; sn w.A.w_in2;
                     (match w.A.w_word with Some s -> ss s | None -> Atom "-")])
      | _ -> raise (Shape "ambig args"))

let linked = ()
