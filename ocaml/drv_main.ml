(* mainrun <oracles> <args> <input> -> (ok (<effect>...)) | (err badoracle) | (panic "site") | (outoffuel) | (oracle-conflict ..)
   [Model/Main.v: run = the observable behaviour of the complgen command as a trace of effects]

   <oracles> as for compilebash, plus (version "text").
   <args> = (args (version 0|1) (usage "path"|-) (bash "path"|-) (fish ..) (zsh ..) (pwsh ..) (regex ..) (dfa ..))
   <input> = "content of the usage file" | -        (- : it cannot be read)
   <effect> = (stdout "s") | (stderr <smsg>) | (write (file "p")|(stdout) regexdot|dfadot|(script bash "text")|(script opaque <shell>)) | (exit n)
   <smsg> = (missingusage) | (cannotread "p") | (exactlyone) | (plain "s") | (ambiguity <aerror>) | (zshname "x")
          | (located e|w "label" "what" "help"|- "path:line:col:" <line number> "<quoted line>" <from> <to>) *)
module Driver = Extracted.Driver
module Compiler = Extracted.Compiler
module Main = Extracted.Main
module Diag = Extracted.Diag
module P = Extracted.Prelude
open Sx

let main_linked = ()

exception Conflict of string

let ostr (v : t) : char list option = match v with Atom "-" -> None | Str s -> Some (cl s) | v -> raise (Shape ("opt path: " ^ to_string v))

let afield name (v : t) : t =
  match v with
  | List (Atom "args" :: fs) ->
      (match List.find_opt (fun f -> match f with List [Atom n; _] when n = name -> true | _ -> false) fs with
       | Some (List [_; x]) -> x
       | _ -> raise (Shape ("args: no field " ^ name)))
  | _ -> raise (Shape "args")

let shell_name (s : Extracted.Ast.shell) : string =
  match s with Extracted.Ast.Bash -> "bash" | Extracted.Ast.Fish -> "fish" | Extracted.Ast.Zsh -> "zsh" | Extracted.Ast.Pwsh -> "pwsh"

let of_smsg (m : Main.smsg) : t =
  match m with
  | Main.SMissingUsage -> List [Atom "missingusage"]
  | Main.SCannotRead p -> List [Atom "cannotread"; ss p]
  | Main.SExactlyOne -> List [Atom "exactlyone"]
  | Main.SPlain s -> List [Atom "plain"; ss s]
  | Main.SAmbiguity (e, _) -> List [Atom "ambiguity"; Drv_driver.of_amb e]
  | Main.SZshName x -> List [Atom "zshname"; ss x]
  | Main.SLocated (m, r) ->
      let (a, b) = r.Diag.r_cols in
      List [Atom "located"; Atom (if m.Diag.m_warning then "w" else "e"); ss m.Diag.m_label; ss m.Diag.m_what;
            sos m.Diag.m_help; ss r.Diag.r_header; sn r.Diag.r_line_no; ss r.Diag.r_line; sn a; sn b]

let of_effect (e : Main.effect) : t =
  match e with
  | Main.Stdout s -> List [Atom "stdout"; ss s]
  | Main.Stderr m -> List [Atom "stderr"; of_smsg m]
  | Main.Exit n -> List [Atom "exit"; sn n]
  | Main.Write (d, k) ->
      let d = match d with Main.ToStdout -> List [Atom "stdout"] | Main.ToFile p -> List [Atom "file"; ss p] in
      let k = match k with
        | Main.KRegexDot -> Atom "regexdot"
        | Main.KDfaDot -> Atom "dfadot"
        | Main.KScript (Main.CBash s) -> List [Atom "script"; Atom "bash"; ss s]
        | Main.KScript (Main.COpaque (sh, _, _)) -> List [Atom "script"; Atom "opaque"; Atom (shell_name sh)] in
      List [Atom "write"; d; k]

let () =
  register "mainrun" (fun v ->
      match v with
      | List [o; a; input] ->
          let field = Drv_compiler.field in
          let scripts = Array.of_list (List.map (fun s -> Array.of_list (List.map int_ (list_ s))) (field "pops" o)) in
          let fuel = Drv_driver.fuel_of (int_ (List.hd (field "fuel" o))) in
          let om = Drv_emit.ord_of (List (field "mainlits" o)) in
          let os = Drv_emit.ord_subs_of (List (field "sublits" o)) in
          let groups = List.map (fun g -> List.map n_ (list_ g)) (field "groups" o) in
          let sg = cl (string_ (List.hd (field "sig" o))) in
          let version = cl (string_ (List.hd (field "version" o))) in
          let args = { Main.a_version = int_ (afield "version" a) <> 0; a_usage = ostr (afield "usage" a);
                       a_bash = ostr (afield "bash" a); a_fish = ostr (afield "fish" a); a_zsh = ostr (afield "zsh" a);
                       a_pwsh = ostr (afield "pwsh" a); a_regex = ostr (afield "regex" a); a_dfa = ostr (afield "dfa" a) } in
          let input = ostr input in
          (* ---- record the pop table with the selected shell (as compilebash does) *)
          let cursor = ref (-1) in
          let seen : (int * int list list, int) Hashtbl.t = Hashtbl.create 64 in
          let table = ref [] in
          let pick step todo =
            let n = int_of_nat step in
            if n = 0 then incr cursor;
            let idx =
              if !cursor < Array.length scripts && n < Array.length scripts.(!cursor) then begin
                let s = scripts.(!cursor) in
                let k = s.(n) in
                let smaller = ref 0 in
                for j = 0 to n - 1 do if s.(j) < k then incr smaller done;
                k - 1 - !smaller
              end else 0 in
            let key = (n, List.map (List.map int_of_n) todo) in
            (match Hashtbl.find_opt seen key with
             | Some i when i <> idx -> raise (Conflict (Printf.sprintf "step %d" n))
             | Some _ -> ()
             | None ->
                 Hashtbl.replace seen key idx;
                 if todo <> [] then table := ((step, todo), nat_of_int idx) :: !table);
            nat_of_int idx in
          (try
             (match input, Main.select_shell args with
              | Some text, Some (sh, _) when not args.Main.a_version ->
                  ignore (Driver.compile pick fuel Extracted.Consts.builtins text sh)
              | _ -> ());
             let o' = { Compiler.o_pops = List.rev !table; o_fuel = fuel; o_main_lits = om; o_sub_lits = os;
                        o_groups = groups; o_sig = sg } in
             (match Main.run Extracted.Consts.builtins o' version args input with
              | P.Ok tr -> List [Atom "ok"; List (List.map of_effect tr)]
              | P.Err _ -> List [Atom "err"; Atom "badoracle"]
              | P.Panic s -> List [Atom "panic"; ss s]
              | P.OutOfFuel -> List [Atom "outoffuel"])
           with Conflict m -> List [Atom "oracle-conflict"; Str m])
      | _ -> raise (Shape "mainrun args"))
