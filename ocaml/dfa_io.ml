(* Conversions for Model/Dfa.v datatypes: inputs, automata, lookup tables. *)
module Dfa = Extracted.Dfa
open Sx

let inp_of (v : t) : Dfa.inp =
  match v with
  | List [Atom "lit"; t; d; l] -> Dfa.ILit (cl (string_ t), ostring d, n_ l)
  | List [Atom "sub"; s; l] -> Dfa.ISub (n_ s, n_ l)
  | List [Atom "cmd"; c; l] -> Dfa.ICmd (cl (string_ c), n_ l)
  | List [Atom "compadd"; c; l] -> Dfa.ICompadd (cl (string_ c), n_ l)
  | List [Atom "star"] -> Dfa.IStar
  | v -> raise (Shape ("inp: " ^ to_string v))

let of_inp (i : Dfa.inp) : t =
  match i with
  | Dfa.ILit (t, d, l) -> List [Atom "lit"; ss t; sos d; sn l]
  | Dfa.ISub (s, l) -> List [Atom "sub"; sn s; sn l]
  | Dfa.ICmd (c, l) -> List [Atom "cmd"; ss c; sn l]
  | Dfa.ICompadd (c, l) -> List [Atom "compadd"; ss c; sn l]
  | Dfa.IStar -> List [Atom "star"]

let pair_of v = match v with List [a; b] -> (n_ a, n_ b) | v -> raise (Shape ("pair: " ^ to_string v))
let of_pair (a, b) = List [sn a; sn b]

(* (from (inp to) ...) *)
let row_of v = match v with
  | List (f :: tos) -> (n_ f, List.map pair_of tos)
  | v -> raise (Shape ("row: " ^ to_string v))
let of_row (f, tos) = List (sn f :: List.map of_pair tos)

(* (from id id ...) *)
let ids_row_of v = match v with
  | List (f :: ids) -> (n_ f, List.map n_ ids)
  | v -> raise (Shape ("ids row: " ^ to_string v))
let of_ids_row (f, ids) = List (sn f :: List.map sn ids)

let rec dfa_parts (v : t) : Dfa.dfa * t list =
  match v with
  | List [Atom "dfa"; List [Atom "start"; s]; List (Atom "trans" :: rows); List (Atom "acc" :: acc);
          List (Atom "inputs" :: inputs); List (Atom "subdfas" :: subs)] ->
      ({ Dfa.d_start = n_ s; d_trans = List.map row_of rows; d_accepting = List.map n_ acc;
         d_inputs = List.map inp_of inputs }, subs)
  | v -> raise (Shape ("dfa: " ^ to_string v))

let cdfa_of (v : t) : Dfa.cdfa =
  let (main, subs) = dfa_parts v in
  let subs = List.map (fun s ->
      let (d, subsubs) = dfa_parts s in
      if subsubs <> [] then raise (Shape "a within-word automaton contains within-word automata");
      d) subs in
  { Dfa.c_main = main; c_subs = subs }

let of_dfa_with (d : Dfa.dfa) (subs : t list) : t =
  List [Atom "dfa"; List [Atom "start"; sn d.Dfa.d_start];
        List (Atom "trans" :: List.map of_row d.Dfa.d_trans);
        List (Atom "acc" :: List.map sn d.Dfa.d_accepting);
        List (Atom "inputs" :: List.map of_inp d.Dfa.d_inputs);
        List (Atom "subdfas" :: subs)]

let of_cdfa (c : Dfa.cdfa) : t =
  of_dfa_with c.Dfa.c_main (List.map (fun d -> of_dfa_with d []) c.Dfa.c_subs)

(* ---- tables ---- *)
let opt_of f v = match v with Atom "-" -> None | v -> Some (f v)
let of_opt f v = match v with None -> Atom "-" | Some x -> f x

let nested_of v = List.map row_of (list_ v)
let of_nested l = List (List.map of_row l)
let levels_of v = List.map (fun lv -> List.map ids_row_of (list_ lv)) (list_ v)
let of_levels l = List (List.map (fun lv -> List (List.map of_ids_row lv)) l)

let field name v =
  match v with
  | List [Atom n; x] when n = name -> x
  | List (Atom n :: xs) when n = name -> List xs
  | v -> raise (Shape ("field " ^ name ^ ": " ^ to_string v))

(* list-valued field: always the list of elements, also when there is exactly one *)
let lfield name v =
  match v with
  | List (Atom n :: xs) when n = name -> xs
  | v -> raise (Shape ("field " ^ name ^ ": " ^ to_string v))

let tables_of (v : t) : Dfa.tables =
  match v with
  | List [Atom "tables"; lits; mlit; mcmd; mcompadd; mstar; maxlevel; clit; ccmd; ccompadd; _hash] ->
      { Dfa.t_literals = List.map (fun l -> match l with
            | List [i; t; d] -> ((n_ i, cl (string_ t)), cl (string_ d))
            | _ -> raise (Shape "literal")) (lfield "literals" lits);
        t_mlit = nested_of (field "mlit" mlit);
        t_mcmd = opt_of nested_of (field "mcmd" mcmd);
        t_mcompadd = opt_of nested_of (field "mcompadd" mcompadd);
        t_mstar = opt_of (fun v -> List.map pair_of (list_ v)) (field "mstar" mstar);
        t_maxlevel = n_ (field "maxlevel" maxlevel);
        t_clit = levels_of (field "clit" clit);
        t_ccmd = opt_of levels_of (field "ccmd" ccmd);
        t_ccompadd = opt_of levels_of (field "ccompadd" ccompadd) }
  | v -> raise (Shape ("tables: " ^ to_string v))

let of_tables (t : Dfa.tables) : t =
  List [Atom "tables";
        List (Atom "literals" :: List.map (fun ((i, x), d) -> List [sn i; ss x; ss d]) t.Dfa.t_literals);
        List [Atom "mlit"; of_nested t.Dfa.t_mlit];
        List [Atom "mcmd"; of_opt of_nested t.Dfa.t_mcmd];
        List [Atom "mcompadd"; of_opt of_nested t.Dfa.t_mcompadd];
        List [Atom "mstar"; of_opt (fun l -> List (List.map of_pair l)) t.Dfa.t_mstar];
        List [Atom "maxlevel"; sn t.Dfa.t_maxlevel];
        List [Atom "clit"; of_levels t.Dfa.t_clit];
        List [Atom "ccmd"; of_opt of_levels t.Dfa.t_ccmd];
        List [Atom "ccompadd"; of_opt of_levels t.Dfa.t_ccompadd]]

let alltables_of (v : t) : Dfa.alltables =
  match v with
  | List [Atom "alltables"; _needs; cmds; states; main; subtrans; csub; subwords] ->
      { Dfa.a_commands = List.map (fun c -> cl (string_ c)) (lfield "commands" cmds);
        a_states = List.map n_ (lfield "states" states);
        a_main = tables_of (field "main" main);
        a_subtrans = List.map row_of (lfield "subtrans" subtrans);
        a_csub = levels_of (field "csub" csub);
        a_subwords = List.map (fun s -> match s with
            | List [pi; id; t] -> ((n_ pi, n_ id), tables_of t)
            | _ -> raise (Shape "subword tables")) (lfield "subwords" subwords) }
  | v -> raise (Shape ("alltables: " ^ to_string v))
