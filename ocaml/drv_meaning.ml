(* Spec/Meaning.v, extracted.

   meaning <expr> "<wordbreaks>" (("<command text>" "<output line>"...)...) (((w...) "p")...)
     -> ((none A) | (some (required...) (allowed...) A) ...)      A = four flags 0/1: Meaning.ambiguous_run, KnownC01.piece_boundary, KnownC01.last_word_escape, KnownC01.greedy_shadow
   paths <expr> (<commands as above>) <maxlen> <cap> ("vocabulary word"...)
     -> (((w...) ...))   word sequences (length <= maxlen) that Meaning.matched accepts, one or two
                         per distinct residual set and depth (harness-side enumeration over Meaning.step)
   expected <expr> (<commands>) (w...)
     -> ((lit "t" lvl) | (cmd "c" lvl) | (any) | (sub lvl) ...)   items expected after the words *)
module M = Extracted.Meaning
open Sx
open Ast_io

let env_of (wb : t) (cmds : t) : M.env =
  { M.e_wordbreaks = cl (string_ wb);
    e_outputs = List.map (fun c -> match list_ c with
        | name :: lines -> (cl (string_ name), List.map (fun l -> cl (string_ l)) lines)
        | [] -> raise (Shape "command entry")) (list_ cmds) }

let words (v : t) : char list list = List.map (fun w -> cl (string_ w)) (list_ v)

let () =
  register "meaning" (fun v ->
      match v with
      | List [e; wb; cmds; qs] ->
          let e = expr_of e in
          let en = env_of wb cmds in
          List (List.map (fun q ->
              match q with
              | List [ws; p] ->
                  let ws = words ws in
                  let p = cl (string_ p) in
                  let b x = if x then "1" else "0" in
                  let amb = Atom (b (M.ambiguous_run en (M.start e) ws)
                                  ^ b (Extracted.KnownC01.piece_boundary e en ws)
                                  ^ b (Extracted.KnownC01.last_word_escape e en ws)
                                  ^ b (Extracted.KnownC01.greedy_shadow e en ws)) in
                  (match M.complete e en ws p with
                   | None -> List [Atom "none"; amb]
                   | Some (req, al) ->
                       List [Atom "some"; List (List.map ss req); List (List.map ss al); amb])
              | _ -> raise (Shape "query")) (list_ qs))
      | _ -> raise (Shape "meaning args"))

(* undercut <expr> <wordbreaks> <cmds> ((words prefix)...) -> (("c"...) ...)   Spec/Undercut.v: the candidates withheld
   because a strictly earlier level has a candidate extending the prefix *)
let () =
  register "undercut" (fun v ->
      match v with
      | List [e; wb; cmds; qs] ->
          let e = expr_of e in
          let en = env_of wb cmds in
          List (List.map (fun q ->
              match q with
              | List [ws; p] -> List (List.map ss (Extracted.Undercut.undercut e en (words ws) (cl (string_ p))))
              | _ -> raise (Shape "query")) (list_ qs))
      | _ -> raise (Shape "undercut args"))

(* tworeadings <expr> <wordbreaks> <cmds> ((words prefix)...) -> (0|1 ...)   Spec/TwoReadings.v: does the command line meet a
   point where a typed word has two readings (a complete word read by two different items, the cursor at such a point, or a
   within-word expression with two readings of a piece)? *)
let () =
  register "tworeadings" (fun v ->
      match v with
      | List [e; wb; cmds; qs] ->
          let e = expr_of e in
          let en = env_of wb cmds in
          List (List.map (fun q ->
              match q with
              | List [ws; _] ->
                  Atom (if Extracted.TwoReadings.two_readings en (M.start e) (words ws) then "1" else "0")
              | _ -> raise (Shape "query")) (list_ qs))
      | _ -> raise (Shape "tworeadings args"))

let () =
  register "paths" (fun v ->
      match v with
      | List [e; cmds; maxlen; cap; vocab] ->
          let e = expr_of e in
          let en = env_of (Str "") cmds in
          let vocab = words vocab in
          let cap = int_ cap in
          let out = ref [] in
          let count = ref 0 in
          let frontier = ref [ (M.start e, []) ] in
          for _depth = 1 to int_ maxlen do
            let seen = Hashtbl.create 64 in
            let next = ref [] in
            List.iter (fun (s, path) ->
                List.iter (fun w ->
                    if !count < cap then begin
                      match M.step en s w with
                      | [] -> ()
                      | s' ->
                          let k = try Hashtbl.find seen s' with Not_found -> 0 in
                          if k < 2 then begin
                            Hashtbl.replace seen s' (k + 1);
                            let p' = path @ [w] in
                            next := (s', p') :: !next;
                            out := p' :: !out;
                            incr count
                          end
                    end) vocab) !frontier;
            frontier := List.rev !next
          done;
          List (List.rev_map (fun p -> List (List.map ss p)) !out)
      | _ -> raise (Shape "paths args"))

let () =
  register "expected" (fun v ->
      match v with
      | List [e; cmds; ws] ->
          let e = expr_of e in
          let en = env_of (Str "") cmds in
          let s = M.run en (M.start e) (words ws) in
          List (List.map (fun (a, _) ->
              match a with
              | M.LLit (t, _, l) -> List [Atom "lit"; ss t; sn l]
              | M.LCmd (c, l) -> List [Atom "cmd"; ss c; sn l]
              | M.LAny -> List [Atom "any"]
              | M.LSub (_, l) -> List [Atom "sub"; sn l]) (M.moves s))
      | _ -> raise (Shape "expected args"))

(* domain <expr> (<commands>) -> (D E)   D = Domain.C01_domain, E = Domain.C01_env_ok, as 0/1 *)
let () =
  register "domain" (fun v ->
      match v with
      | List [e; cmds] ->
          let e = expr_of e in
          let en = env_of (Str "") cmds in
          let b x = Atom (if x then "1" else "0") in
          List [b (Extracted.Domain.coq_C01_domain e); b (Extracted.Domain.coq_C01_env_ok e en); b (Extracted.Domain.coq_C01_tail_only e)]
      | _ -> raise (Shape "domain args"))

let linked = ()
