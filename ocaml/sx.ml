(* S-expressions in the format printed by cg-dump, plus conversions between OCaml values and
   the extracted Coq datatypes (N, string = char list). *)
module BinNums = Extracted.BinNums
module Datatypes = Extracted.Datatypes

type t = Atom of string | Str of string | List of t list

exception Parse_error of string

(* parses every top-level value of the line into one List *)
let parse (s : string) : t =
  let n = String.length s in
  let pos = ref 0 in
  let rec skip () =
    if !pos < n && (s.[!pos] = ' ' || s.[!pos] = '\n') then (incr pos; skip ()) in
  let hex c = match c with
    | '0'..'9' -> Char.code c - 48
    | 'a'..'f' -> Char.code c - 87
    | 'A'..'F' -> Char.code c - 55
    | _ -> raise (Parse_error "hex") in
  let rec value () =
    skip ();
    if !pos >= n then raise (Parse_error "eof");
    match s.[!pos] with
    | '(' ->
        incr pos;
        let items = ref [] in
        let rec loop () =
          skip ();
          if !pos >= n then raise (Parse_error "unclosed");
          if s.[!pos] = ')' then incr pos
          else (items := value () :: !items; loop ()) in
        loop ();
        List (List.rev !items)
    | '"' ->
        incr pos;
        let b = Buffer.create 16 in
        let rec loop () =
          if !pos >= n then raise (Parse_error "unclosed string");
          match s.[!pos] with
          | '"' -> incr pos
          | '\\' ->
              let c = s.[!pos + 1] in
              (match c with
               | 'n' -> Buffer.add_char b '\n'; pos := !pos + 2
               | 't' -> Buffer.add_char b '\t'; pos := !pos + 2
               | 'x' ->
                   Buffer.add_char b (Char.chr (hex s.[!pos + 2] * 16 + hex s.[!pos + 3]));
                   pos := !pos + 4
               | c -> Buffer.add_char b c; pos := !pos + 2);
              loop ()
          | c -> Buffer.add_char b c; incr pos; loop () in
        loop ();
        Str (Buffer.contents b)
    | _ ->
        let start = !pos in
        while !pos < n && not (List.mem s.[!pos] [' '; '('; ')'; '\n']) do incr pos done;
        Atom (String.sub s start (!pos - start)) in
  let items = ref [] in
  skip ();
  while !pos < n do
    items := value () :: !items;
    skip ()
  done;
  List (List.rev !items)

let quote (s : string) : string =
  let b = Buffer.create (String.length s + 2) in
  Buffer.add_char b '"';
  String.iter (fun c ->
      match c with
      | '\\' -> Buffer.add_string b "\\\\"
      | '"' -> Buffer.add_string b "\\\""
      | '\n' -> Buffer.add_string b "\\n"
      | '\t' -> Buffer.add_string b "\\t"
      | ' ' .. '~' -> Buffer.add_char b c
      | c -> Buffer.add_string b (Printf.sprintf "\\x%02x" (Char.code c))) s;
  Buffer.add_char b '"';
  Buffer.contents b

let rec print (b : Buffer.t) (v : t) : unit =
  match v with
  | Atom a -> Buffer.add_string b a
  | Str s -> Buffer.add_string b (quote s)
  | List l ->
      Buffer.add_char b '(';
      List.iteri (fun i x -> if i > 0 then Buffer.add_char b ' '; print b x) l;
      Buffer.add_char b ')'

let to_string (v : t) : string =
  let b = Buffer.create 256 in
  print b v;
  Buffer.contents b

(* ---- conversions ---- *)
let rec pos_of_int (i : int) : BinNums.positive =
  if i = 1 then BinNums.Coq_xH
  else if i land 1 = 0 then BinNums.Coq_xO (pos_of_int (i lsr 1))
  else BinNums.Coq_xI (pos_of_int (i lsr 1))

let n_of_int (i : int) : BinNums.coq_N =
  if i = 0 then BinNums.N0 else BinNums.Npos (pos_of_int i)

let rec int_of_pos (p : BinNums.positive) : int =
  match p with
  | BinNums.Coq_xH -> 1
  | BinNums.Coq_xO q -> 2 * int_of_pos q
  | BinNums.Coq_xI q -> 2 * int_of_pos q + 1

let int_of_n (n : BinNums.coq_N) : int =
  match n with BinNums.N0 -> 0 | BinNums.Npos p -> int_of_pos p

let rec nat_of_int (i : int) : Datatypes.nat =
  if i <= 0 then Datatypes.O else Datatypes.S (nat_of_int (i - 1))

let rec int_of_nat (n : Datatypes.nat) : int =
  match n with Datatypes.O -> 0 | Datatypes.S k -> 1 + int_of_nat k

let cl (s : string) : char list = List.init (String.length s) (String.get s)

let str (l : char list) : string =
  let b = Buffer.create 16 in
  List.iter (Buffer.add_char b) l;
  Buffer.contents b

(* ---- readers ---- *)
exception Shape of string

let atom = function Atom a -> a | v -> raise (Shape ("atom expected: " ^ to_string v))
let string_ = function Str s -> s | v -> raise (Shape ("string expected: " ^ to_string v))
let list_ = function List l -> l | v -> raise (Shape ("list expected: " ^ to_string v))
let int_ v = int_of_string (atom v)
let n_ v = n_of_int (int_ v)
let ostring = function Atom "-" -> None | Str s -> Some (cl s) | v -> raise (Shape ("opt string: " ^ to_string v))

let sn (n : BinNums.coq_N) : t = Atom (string_of_int (int_of_n n))
let ss (s : char list) : t = Str (str s)
let sos = function None -> Atom "-" | Some s -> ss s

(* ---- command registry ---- *)
let commands : (string, t -> t) Hashtbl.t = Hashtbl.create 16
let register (name : string) (f : t -> t) : unit = Hashtbl.replace commands name f
