(* compile <shell> <fuel> "<text>"  ->  (ok "<command>" <dfa with subdfas>) | (err <stage> <error>) | (panic s) | (outoffuel)
   [Model/Driver.v: the whole pipeline parse -> check -> regex -> subset -> minimize -> ambiguity, first pop order] *)
module Driver = Extracted.Driver
open Sx

let linked = ()

let fuel_cache : (int, Extracted.Datatypes.nat) Hashtbl.t = Hashtbl.create 4
let fuel_of i =
  match Hashtbl.find_opt fuel_cache i with
  | Some n -> n
  | None -> let n = nat_of_int i in Hashtbl.replace fuel_cache i n; n

let of_amb (e : Extracted.Ambiguity.aerror) : t =
  match e with
  | Extracted.Ambiguity.AmbiguousDFA (path, ins) ->
      List [Atom "AmbiguousDFA"; List (List.map Dfa_io.of_inp path); List (List.map Dfa_io.of_inp ins)]
  | Extracted.Ambiguity.ConflictingDescriptions (path, lit, l, r) ->
      List [Atom "ConflictingDescriptions"; List (List.map Dfa_io.of_inp path); ss lit; ss l; ss r]

let () =
  register "compile" (fun v ->
      match v with
      | List [sh; fuel; text] ->
          let r = Driver.compile Extracted.Subset.pick_first (fuel_of (int_ fuel))
              Extracted.Consts.builtins (cl (string_ text)) (Ast_io.shell_of sh) in
          (match r with
           | Extracted.Prelude.Ok (vg, c) ->
               List [Atom "ok"; ss vg.Extracted.Check.v_command; Dfa_io.of_cdfa c]
           | Extracted.Prelude.Err (Driver.DParse sp) -> List [Atom "err"; Atom "parse"; List [Atom "ParseError"; Ast_io.of_span sp]]
           | Extracted.Prelude.Err (Driver.DCheck e) -> List [Atom "err"; Atom "check"; Drv_check.of_error e]
           | Extracted.Prelude.Err (Driver.DRegex e) -> List [Atom "err"; Atom "regex"; Drv_regex.of_rerror e]
           | Extracted.Prelude.Err (Driver.DSubset e) -> List [Atom "err"; Atom "subset"; Drv_regex.of_serror e]
           | Extracted.Prelude.Err (Driver.DAmb e) -> List [Atom "err"; Atom "amb"; of_amb e]
           | Extracted.Prelude.Panic s -> List [Atom "panic"; ss s]
           | Extracted.Prelude.OutOfFuel -> List [Atom "outoffuel"])
      | _ -> raise (Shape "compile args"))
