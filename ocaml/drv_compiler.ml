(* compilebash <oracles> "<text>"
     -> (ok "<script>") | (err <stage> <error>) | (err oracle) | (panic "site") | (outoffuel) | (oracle-conflict ..)
   [Model/Compiler.v: compile_bash = Driver.compile ; Tables.all_tables Bash ; EmitBash.script -- the whole of
    `complgen --bash` as one function from the source text to the script text]

   <oracles> = (oracles (pops (id ...) ...) (fuel n) (mainlits ("text" "descr") ...)
                        (sublits (poolidx ("text" "descr") ...) ...) (groups (scriptid ...) ...) (sig "text"))

   (pops ...) lists, for every run of the subset construction in the order the compiler performs them (every
   within-word regex in order of first use, then the main regex), the state ids in the order Rust popped them
   (= the row order of Rust's raw automaton; ids are handed out in discovery order, so "the id popped at step n"
   determines the index in the work-list: the number of smaller ids not yet popped).  The Gallina function takes
   the pop order as a pure table (step, work-list) -> index; it is recorded here by a first run of Driver.compile
   with a recording choice function (which checks that it never answers one question in two ways: otherwise no
   pure choice function replays Rust and the answer is (oracle-conflict)), then compile_bash itself is run on the
   table. *)
module Driver = Extracted.Driver
module Compiler = Extracted.Compiler
module P = Extracted.Prelude
open Sx

let compiler_linked = ()

let field name (v : t) : t list =
  match v with
  | List (Atom "oracles" :: fs) ->
      (match List.find_opt (fun f -> match f with List (Atom n :: _) when n = name -> true | _ -> false) fs with
       | Some (List (_ :: xs)) -> xs
       | _ -> raise (Shape ("oracles: no field " ^ name)))
  | _ -> raise (Shape "oracles")

let of_derror (e : Driver.derror) : t =
  match e with
  | Driver.DParse sp -> List [Atom "err"; Atom "parse"; List [Atom "ParseError"; Ast_io.of_span sp]]
  | Driver.DCheck e -> List [Atom "err"; Atom "check"; Drv_check.of_error e]
  | Driver.DRegex e -> List [Atom "err"; Atom "regex"; Drv_regex.of_rerror e]
  | Driver.DSubset e -> List [Atom "err"; Atom "subset"; Drv_regex.of_serror e]
  | Driver.DAmb e -> List [Atom "err"; Atom "amb"; Drv_driver.of_amb e]

exception Conflict of string

(* oracle record from its s-expression, with the pop table recorded by a first run of Driver.compile for [sh] *)
let oracles_of (sh : Extracted.Ast.shell) (o : t) (text : char list) : Compiler.oracles =
  let scripts = Array.of_list (List.map (fun s -> Array.of_list (List.map int_ (list_ s))) (field "pops" o)) in
  let fuel = Drv_driver.fuel_of (int_ (List.hd (field "fuel" o))) in
  let om = Drv_emit.ord_of (List (field "mainlits" o)) in
  let os = Drv_emit.ord_subs_of (List (field "sublits" o)) in
  let groups = List.map (fun g -> List.map n_ (list_ g)) (field "groups" o) in
  let sg = cl (string_ (List.hd (field "sig" o))) in
  let cursor = ref (-1) in
  let seen : (int * int list list, int) Hashtbl.t = Hashtbl.create 64 in
  let table = ref [] in
  let pick step todo =
    let n = int_of_nat step in
    if n = 0 then incr cursor;
    let idx =
      if !cursor < Array.length scripts && n < Array.length scripts.(!cursor) then begin
        let s = scripts.(!cursor) in
        let k = s.(n) in
        let smaller = ref 0 in
        for j = 0 to n - 1 do if s.(j) < k then incr smaller done;
        k - 1 - !smaller
      end else 0 in
    let key = (n, List.map (List.map int_of_n) todo) in
    (match Hashtbl.find_opt seen key with
     | Some i when i <> idx -> raise (Conflict (Printf.sprintf "step %d" n))
     | Some _ -> ()
     | None ->
         Hashtbl.replace seen key idx;
         if todo <> [] then table := ((step, todo), nat_of_int idx) :: !table);
    nat_of_int idx in
  ignore (Driver.compile pick fuel Extracted.Consts.builtins text sh);
  { Compiler.o_pops = List.rev !table; o_fuel = fuel; o_main_lits = om; o_sub_lits = os;
    o_groups = groups; o_sig = sg }

let of_cres (f : 'a -> t) (r : (Compiler.cerror, 'a) P.outcome) : t =
  match r with
  | P.Ok s -> f s
  | P.Err (Compiler.CDriver e) -> of_derror e
  | P.Err Compiler.CBadOracle -> List [Atom "err"; Atom "oracle"]
  | P.Panic s -> List [Atom "panic"; ss s]
  | P.OutOfFuel -> List [Atom "outoffuel"]

let () =
  register "compilebash" (fun v ->
      match v with
      | List [o; text] ->
          let text = cl (string_ text) in
          (try
             let o' = oracles_of Extracted.Ast.Bash o text in
             of_cres (fun s -> List [Atom "ok"; ss s]) (Compiler.compile_bash o' Extracted.Consts.builtins text)
           with Conflict m -> List [Atom "oracle-conflict"; Str m])
      | _ -> raise (Shape "compilebash args"))

(* compiledata <shell> <oracles> "<text>" -> (ok ("kind" "text") ...) | (err ...) | ...
   [Model/Compiler.v: compile_data sh = Driver.compile .. sh ; Tables.all_tables sh ; EmitData.{Z,P,F}.data --
    the data sections of the fish / zsh / pwsh script from the source text] *)
let () =
  register "compiledata" (fun v ->
      match v with
      | List [sh; o; text] ->
          let text = cl (string_ text) in
          let sh = Ast_io.shell_of sh in
          (try
             let o' = oracles_of sh o text in
             of_cres (fun bs -> List (Atom "ok" :: List.map (fun (k, t) -> List [ss k; ss t]) bs))
               (Compiler.compile_data sh o' Extracted.Consts.builtins text)
           with Conflict m -> List [Atom "oracle-conflict"; Str m])
      | _ -> raise (Shape "compiledata args"))
