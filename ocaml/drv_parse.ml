(* parse "<text>"            ->  (ok (<statement>...)) | (err (ParseError l:c:e)) | (panic s) | (outoffuel)
                                 the model of Grammar::parse as parse.rs is now (Parser.parse)
   parse_repaired "<text>"   ->  the same with the span reset of `terminal` repaired
   Output is cg-dump's PARSE payload format. *)
module Ast = Extracted.Ast
module Parser = Extracted.Parser
module Prelude = Extracted.Prelude
open Sx
open Ast_io

let of_statement (s : Ast.statement) : t =
  match s with
  | Ast.CallVariant (n, sp, e) -> List [Atom "call"; ss n; of_span sp; of_expr e]
  | Ast.NontermDef (n, sp, sh, rhs) ->
      let sh = match sh with
        | None -> Atom "-"
        | Some (s, ssp) -> List [ss s; of_span ssp] in
      List [Atom "def"; ss n; of_span sp; sh; of_expr rhs]

let of_grammar (g : Ast.grammar) : t = List (List.map of_statement g)

let of_parse_result (r : (Ast.span, Ast.grammar) Prelude.outcome) : t =
  match r with
  | Prelude.Ok g -> List [Atom "ok"; of_grammar g]
  | Prelude.Err sp -> List [Atom "err"; List [Atom "ParseError"; of_span sp]]
  | Prelude.Panic s -> List [Atom "panic"; ss s]
  | Prelude.OutOfFuel -> List [Atom "outoffuel"]

let () =
  register "parse" (fun v ->
      match v with
      | List [text] -> of_parse_result (Parser.parse (cl (string_ text)))
      | _ -> raise (Shape "parse args"))

let () =
  register "parse_repaired" (fun v ->
      match v with
      | List [text] -> of_parse_result (Parser.parse_with Parser.repaired (cl (string_ text)))
      | _ -> raise (Shape "parse_repaired args"))
