(* parse "<text>"            ->  (ok (<statement>...)) | (err (ParseError l:c:e)) | (panic s) | (outoffuel)
                                 the model of Grammar::parse as parse.rs is now (Parser.parse)
   parse_repaired "<text>"   ->  the same with the span reset of `terminal` repaired
   Output is cg-dump's PARSE payload format. *)
module Ast = Extracted.Ast
module Parser = Extracted.Parser
module Prelude = Extracted.Prelude
open Sx
open Ast_io

let of_statement (s : Ast.statement) : t =
  match s with
  | Ast.CallVariant (n, sp, e) -> List [Atom "call"; ss n; of_span sp; of_expr e]
  | Ast.NontermDef (n, sp, sh, rhs) ->
      let sh = match sh with
        | None -> Atom "-"
        | Some (s, ssp) -> List [ss s; of_span ssp] in
      List [Atom "def"; ss n; of_span sp; sh; of_expr rhs]

let of_grammar (g : Ast.grammar) : t = List (List.map of_statement g)

let of_parse_result (r : (Ast.span, Ast.grammar) Prelude.outcome) : t =
  match r with
  | Prelude.Ok g -> List [Atom "ok"; of_grammar g]
  | Prelude.Err sp -> List [Atom "err"; List [Atom "ParseError"; of_span sp]]
  | Prelude.Panic s -> List [Atom "panic"; ss s]
  | Prelude.OutOfFuel -> List [Atom "outoffuel"]

let () =
  register "parse" (fun v ->
      match v with
      | List [text] -> of_parse_result (Parser.parse (cl (string_ text)))
      | _ -> raise (Shape "parse args"))

let () =
  register "parse_repaired" (fun v ->
      match v with
      | List [text] -> of_parse_result (Parser.parse_with Parser.repaired (cl (string_ text)))
      | _ -> raise (Shape "parse_repaired args"))

(* print <seed> <density> <grammar> -> (notwf) | (ok "<text>" <located grammar, true positions>
                                                    <located grammar as the pinned lexer reports it>)
   [Spec/Printer.v]; the layout oracle is a hash of (seed, path, site): density 0 = minimal text,
   1 = light blanks, 2 = heavy (comments, newlines, form feeds, redundant parentheses). *)
module Printer = Extracted.Printer

let lay_of (seed : int) (density : int) : Printer.layout =
  fun (path : Extracted.Datatypes.nat list) ->
    let p = List.map int_of_nat path in
    let rnd tag k =
      let st = ref (Hashtbl.hash (seed, p, tag, k) land 0x3fffffff) in
      fun bound ->
        st := (!st * 1103515245 + 12345) land 0x3fffffff;
        ((!st lsr 8) mod bound) in
    let bodies = [| ""; " c"; "x y"; " ... \"q\" ; | ) ]"; "#"; " a\\"; "\x0c z" |] in
    let gap tag k : Printer.gap =
      if density = 0 then []
      else begin
        let r = rnd tag k in
        let n =
          if density = 1 then (match r 6 with 0 | 1 | 2 -> 0 | 3 | 4 -> 1 | _ -> 2)
          else (match r 8 with 0 | 1 -> 0 | 2 | 3 -> 1 | 4 | 5 -> 2 | 6 -> 3 | _ -> 5) in
        List.init n (fun _ ->
            let x = r (if density = 1 then 10 else 14) in
            if x < 6 then Printer.BWs Printer.WSp
            else if x < 8 then Printer.BWs Printer.WLf
            else if x = 8 then Printer.BWs Printer.WTab
            else if x = 9 then Printer.BWs Printer.WCr
            else if x = 10 then Printer.BFf
            else Printer.BCom (cl bodies.(r (Array.length bodies))))
      end in
    let ws k : Printer.tws list =
      if density = 0 then (if k = 0 || k = 1 then [Printer.TSp] else [])
      else begin
        let r = rnd 7 k in
        let n = r 4 in
        List.init n (fun _ ->
            match r (if density = 1 then 2 else 7) with
            | 0 | 1 -> Printer.TSp | 2 -> Printer.TTab | 3 -> Printer.TLf
            | 4 -> Printer.TVt | 5 -> Printer.TFf | _ -> Printer.TCr)
      end in
    { Printer.nl_gap = (fun k -> gap 1 (int_of_nat k));
      nl_sep = (fun k -> (gap 2 (int_of_nat k), gap 3 (int_of_nat k)));
      nl_wrapgap = (fun k -> (gap 4 (int_of_nat k), gap 5 (int_of_nat k)));
      nl_wrap = nat_of_int (if density < 2 then 0 else (match (rnd 6 0) 10 with 0 -> 1 | 1 -> 2 | _ -> 0));
      nl_esc = (fun k -> density > 0 && (rnd 8 (int_of_nat k)) 3 = 0);
      nl_ws = (fun k -> ws (int_of_nat k));
      nl_flag = (if density = 0 then true else (rnd 9 0) 2 = 0) }

let () =
  register "print" (fun v ->
      match v with
      | List [seed; density; g] ->
          let g = grammar_of g in
          if not (List.for_all Printer.wf_stmt g) then List [Atom "notwf"]
          else begin
            let lay = lay_of (int_ seed) (int_ density) in
            List [Atom "ok"; ss (Printer.text g lay);
                  of_grammar (Printer.located_with Parser.repaired g lay);
                  of_grammar (Printer.located_with Parser.pinned g lay)]
          end
      | _ -> raise (Shape "print args"))

(* wf <grammar> -> (wf 1) | (wf 0): is the tree printable (Printer.wf)?  Used to measure how close
   wf is to the parser's image. *)
let () =
  register "wf" (fun v ->
      match v with
      | List [g] -> List [Atom "wf"; Atom (if List.for_all Printer.wf_stmt (grammar_of g) then "1" else "0")]
      | _ -> raise (Shape "wf args"))

(* render "<path>" "<source>" l:c:e -> (ok "<path:line:col:>" <line number> "<quoted source line>" <from> <to>)
                                      | (panic "<site>")          [Model/Diag.v: main.rs ErrMsg/WarnMsg] *)
let () =
  register "render" (fun v ->
      match v with
      | List [path; source; sp] ->
          (match Extracted.Diag.render (cl (string_ path)) (cl (string_ source)) (span_of sp) with
           | Prelude.Ok r ->
               let (a, b) = r.Extracted.Diag.r_cols in
               List [Atom "ok"; ss r.Extracted.Diag.r_header; sn r.Extracted.Diag.r_line_no;
                     ss r.Extracted.Diag.r_line; sn a; sn b]
           | Prelude.Err () -> List [Atom "err"]
           | Prelude.Panic s -> List [Atom "panic"; ss s]
           | Prelude.OutOfFuel -> List [Atom "outoffuel"])
      | _ -> raise (Shape "render args"))

(* diag "<path>" "<source>" <payload> -> ((msg e|w "label" "what" "help"|- <rendered>)...)
   payload: (parse l:c:e) | (check (<Variant> spans...)) | (regex (UnboundedMatchable a b))
          | (warnings (undefined ("n" span)...) (unused ...) (unusedspecs ...))
   <rendered> = (ok "path:line:col:" <line number> "<quoted line>" <from> <to>) | (panic "<site>")
   [Model/Diag.v: handle_error and the warning loops of main.rs] *)
module Diag = Extracted.Diag
module Check = Extracted.Check

let cerror_of (v : t) : Check.cerror =
  match v with
  | List [Atom "MissingCallVariants"] -> Check.MissingCallVariants
  | List (Atom "VaryingCommandNames" :: l) -> Check.VaryingCommandNames (List.map span_of l)
  | List [Atom "InvalidCommandName"; s] -> Check.InvalidCommandName (span_of s)
  | List [Atom "DuplicateNonterminalDefinition"; a; b] -> Check.DuplicateNonterminalDefinition (span_of a, span_of b)
  | List [Atom "UnknownShell"; s] -> Check.UnknownShell (span_of s)
  | List [Atom "NonCommandSpecialization"; s] -> Check.NonCommandSpecialization (span_of s)
  | List (Atom "NonterminalDefinitionsCycle" :: l) -> Check.NonterminalDefinitionsCycle (List.map span_of l)
  | List [Atom "SubwordSpaces"; a; b; List tr] -> Check.SubwordSpaces (span_of a, span_of b, List.map span_of tr)
  | v -> raise (Shape ("cerror: " ^ to_string v))

let named_of (v : t) : (char list * Ast.span) list =
  match v with
  | List (_ :: l) -> List.map (function List [n; sp] -> (cl (string_ n), span_of sp) | _ -> raise (Shape "named")) l
  | _ -> raise (Shape "named list")

let () =
  register "diag" (fun v ->
      match v with
      | List [path; source; payload] ->
          let path = cl (string_ path) and source = cl (string_ source) in
          let msgs =
            match payload with
            | List [Atom "parse"; sp] -> Diag.error_messages (Extracted.Driver.DParse (span_of sp))
            | List [Atom "check"; e] -> Diag.error_messages (Extracted.Driver.DCheck (cerror_of e))
            | List [Atom "regex"; List [Atom "UnboundedMatchable"; a; b]] ->
                Diag.error_messages (Extracted.Driver.DRegex (Extracted.Regex.UnboundedMatchable (span_of a, span_of b)))
            | List [Atom "warnings"; u; n; s] ->
                let dummy = Ast.Sequence ([], { Ast.sline = n_of_int 0; scol = n_of_int 0; secol = n_of_int 0 }) in
                Diag.warning_messages { Check.v_command = []; v_expr = dummy; v_undefined = named_of u;
                                        v_unused = named_of n; v_unused_specs = named_of s }
            | v -> raise (Shape ("diag payload: " ^ to_string v)) in
          List (List.map (fun m ->
                    let rendered =
                      match Diag.render path source m.Diag.m_span with
                      | Prelude.Ok r ->
                          let (a, b) = r.Diag.r_cols in
                          List [Atom "ok"; ss r.Diag.r_header; sn r.Diag.r_line_no; ss r.Diag.r_line; sn a; sn b]
                      | Prelude.Err () -> List [Atom "err"]
                      | Prelude.Panic s -> List [Atom "panic"; ss s]
                      | Prelude.OutOfFuel -> List [Atom "outoffuel"] in
                    List [Atom "msg"; Atom (if m.Diag.m_warning then "w" else "e"); ss m.Diag.m_label;
                          ss m.Diag.m_what; sos m.Diag.m_help; rendered]) msgs)
      | _ -> raise (Shape "diag args"))
