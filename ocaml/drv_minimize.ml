(* minimize <dfa>            -> (ok <dfa>) | (panic site) | (outoffuel)      [Model/Minimize.v]
   The within-word automata of the argument are passed through unchanged (do_minimize moves
   dfa.subdfas into the result). *)
module Dfa = Extracted.Dfa
module Minimize = Extracted.Minimize
module Prelude = Extracted.Prelude
open Sx
open Dfa_io

let of_min_outcome (subs : t list) (r : (_, Dfa.dfa) Prelude.outcome) : t =
  match r with
  | Prelude.Ok d -> List [Atom "ok"; of_dfa_with d subs]
  | Prelude.Err _ -> List [Atom "err"]
  | Prelude.Panic s -> List [Atom "panic"; ss s]
  | Prelude.OutOfFuel -> List [Atom "outoffuel"]

let () =
  register "minimize" (fun v ->
      match v with
      | List [d] ->
          let (dfa, subs) = dfa_parts d in
          of_min_outcome subs (Minimize.minimize dfa)
      | _ -> raise (Shape "minimize args"))

(* validate <raw> <min> -> (validate <bool> (equiv yes | (no w...) | fuel) (trim <bool>) (distinct <bool>)
                                     (states <n raw> <n min>))                       [Spec/DfaEquiv.v]
   the verified validator: language equality of the two automata, and trimness and pairwise
   distinguishability of the second *)
module DfaEquiv = Extracted.DfaEquiv

let sb b = Atom (if b then "true" else "false")

let () =
  register "validate" (fun v ->
      match v with
      | List [d; m] ->
          let (raw, _) = dfa_parts d in
          let (min, _) = dfa_parts m in
          let eq = match DfaEquiv.equiv_dec raw min with
            | DfaEquiv.EqYes -> Atom "yes"
            | DfaEquiv.EqNo w -> List (Atom "no" :: List.map sn w)
            | DfaEquiv.EqFuel -> Atom "fuel" in
          List [Atom "validate"; sb (DfaEquiv.validate raw min);
                List [Atom "equiv"; eq];
                List [Atom "trim"; sb (DfaEquiv.trim_dec min)];
                List [Atom "distinct"; sb (DfaEquiv.distinct_dec min)];
                List [Atom "states"; Atom (string_of_int (List.length (DfaEquiv.states raw)));
                      Atom (string_of_int (List.length (DfaEquiv.states min)))]]
      | _ -> raise (Shape "validate args"))

(* rawok <raw> -> (rawok <wfb> <trim_dec>)        [Spec/MinimizeSpec.v, Spec/DfaEquiv.v]
   the executable hypotheses of theorem C03_minimise_checked, evaluated on Rust's raw automata *)
let () =
  register "rawok" (fun v ->
      match v with
      | List [d] ->
          let (raw, _) = dfa_parts d in
          List [Atom "rawok"; sb (Extracted.MinimizeSpec.wfb raw); sb (DfaEquiv.trim_dec raw)]
      | _ -> raise (Shape "rawok args"))
