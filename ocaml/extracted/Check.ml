open Ast
open BinNat
open BinNums
open Datatypes
open List
open Nat
open Prelude
open String

type cerror =
| MissingCallVariants
| VaryingCommandNames of span list
| InvalidCommandName of span
| DuplicateNonterminalDefinition of span * span
| UnknownShell of span
| NonCommandSpecialization of span
| NonterminalDefinitionsCycle of span list
| SubwordSpaces of span * span * span list

type 'a res = (cerror, 'a) outcome

type defn = { d_name : char list; d_span : span; d_rhs : expr }

type valid_grammar = { v_command : char list; v_expr : expr;
                       v_undefined : (char list * span) list;
                       v_unused : (char list * span) list;
                       v_unused_specs : (char list * span) list }

(** val call_variants : grammar -> ((char list * span) * expr) list **)

let call_variants g =
  flat_map (fun s ->
    match s with
    | CallVariant (n, sp, e) -> ((n, sp), e) :: []
    | NontermDef (_, _, _, _) -> []) g

(** val dedup_names :
    char list list -> (char list * span) list -> (char list * span) list **)

let rec dedup_names seen = function
| [] -> []
| p :: r ->
  let (n, sp) = p in
  if mem_str n seen
  then dedup_names seen r
  else (n, sp) :: (dedup_names (n :: seen) r)

(** val distribute : expr -> char list option -> expr * char list option **)

let rec distribute e d =
  match e with
  | Terminal (t, descr, l, sp) ->
    (match descr with
     | Some _ -> (e, d)
     | None ->
       (match d with
        | Some x -> ((Terminal (t, (Some x), l, sp)), None)
        | None -> (e, d)))
  | Sequence (cs, sp) ->
    let go =
      let rec go l d0 =
        match l with
        | [] -> ([], d0)
        | c :: r ->
          let (c', d1) = distribute c d0 in
          let (r', d2) = go r d1 in ((c' :: r'), d2)
      in go
    in
    let (cs', d') = go cs d in ((Sequence (cs', sp)), d')
  | Alternative (cs, sp) ->
    ((Alternative ((map (fun c -> fst (distribute c d)) cs), sp)), d)
  | Optional (c, sp) ->
    let (c', d') = distribute c d in ((Optional (c', sp)), d')
  | Many1 (c, sp) -> let (c', d') = distribute c d in ((Many1 (c', sp)), d')
  | DistDescr (c, descr, _) -> ((fst (distribute c (Some descr))), d)
  | Fallback (cs, sp) ->
    let go =
      let rec go l d0 =
        match l with
        | [] -> ([], d0)
        | c :: r ->
          let (c', d1) = distribute c d0 in
          let (r', d2) = go r d1 in ((c' :: r'), d2)
      in go
    in
    let (cs', d') = go cs d in ((Fallback (cs', sp)), d')
  | Subword (c, l, sp) ->
    let (c', d') = distribute c d in ((Subword (c', l, sp)), d')
  | _ -> (e, d)

(** val distribute_descriptions : expr -> expr **)

let distribute_descriptions e =
  fst (distribute e None)

type user_spec = { us_cmd : char list; us_span : span }

(** val all_defs :
    grammar -> (((char list * span) * (char list * span) option) * expr) list **)

let all_defs g =
  flat_map (fun s ->
    match s with
    | CallVariant (_, _, _) -> []
    | NontermDef (n, sp, sh, rhs) -> (((n, sp), sh), rhs) :: []) g

(** val get_user_specs :
    shell -> (((char list * span) * (char list * span) option) * expr) list
    -> (char list * user_spec) list -> (char list * user_spec) list res **)

let rec get_user_specs target ds acc =
  match ds with
  | [] -> Ok acc
  | p :: r ->
    let (p0, rhs) = p in
    let (p1, o) = p0 in
    let (n, nsp) = p1 in
    (match o with
     | Some p2 ->
       let (shn, shsp) = p2 in
       (match rhs with
        | Command (cmd, _, _, _) ->
          (match shell_of_string shn with
           | Some sh ->
             if shell_eqb sh target
             then (match assoc n acc with
                   | Some prev ->
                     Err (DuplicateNonterminalDefinition (prev.us_span, nsp))
                   | None ->
                     get_user_specs target r
                       (app acc ((n, { us_cmd = cmd; us_span = nsp }) :: [])))
             else get_user_specs target r acc
           | None -> Err (UnknownShell shsp))
        | _ -> Err (NonCommandSpecialization (expr_span rhs)))
     | None -> get_user_specs target r acc)

(** val get_fallback_specs :
    char list list -> (((char list * span) * (char list * span)
    option) * expr) list -> (char list * (char list * span)) list ->
    (char list * (char list * span)) list res **)

let rec get_fallback_specs specialized ds acc =
  match ds with
  | [] -> Ok acc
  | p :: r ->
    let (p0, rhs) = p in
    let (p1, o) = p0 in
    let (n, nsp) = p1 in
    (match o with
     | Some _ -> get_fallback_specs specialized r acc
     | None ->
       if mem_str n specialized
       then (match rhs with
             | Command (cmd, _, _, _) ->
               (match assoc n acc with
                | Some p2 ->
                  let (_, prev) = p2 in
                  Err (DuplicateNonterminalDefinition (prev, nsp))
                | None ->
                  get_fallback_specs specialized r
                    (app acc ((n, (cmd, nsp)) :: [])))
             | _ -> Err (NonCommandSpecialization (expr_span rhs)))
       else get_fallback_specs specialized r acc)

(** val get_specializations :
    grammar -> shell -> ((char list * user_spec)
    list * (char list * (char list * span)) list) res **)

let get_specializations g target =
  obind (get_user_specs target (all_defs g) []) (fun us ->
    obind (get_fallback_specs (map fst us) (all_defs g) []) (fun fs -> Ok
      (us, fs)))

(** val is_zsh : shell -> bool **)

let is_zsh target =
  shell_eqb target Zsh

(** val specialize_ref :
    shell -> (char list * user_spec) list -> (char list * char list) list ->
    (char list * (char list * span)) list -> char list list -> char list ->
    coq_N -> span -> expr **)

let specialize_ref target user_specs builtins fallbacks plain n l sp =
  match assoc n user_specs with
  | Some s -> Command (s.us_cmd, (is_zsh target), l, sp)
  | None ->
    (match assoc n fallbacks with
     | Some p -> let (cmd, _) = p in Command (cmd, false, l, sp)
     | None ->
       if mem_str n plain
       then NontermRef (n, l, sp)
       else (match assoc n builtins with
             | Some cmd -> Command (cmd, (is_zsh target), l, sp)
             | None -> NontermRef (n, l, sp)))

(** val specialize :
    shell -> (char list * user_spec) list -> (char list * char list) list ->
    (char list * (char list * span)) list -> char list list -> expr -> expr **)

let rec specialize target user_specs builtins fallbacks plain e = match e with
| NontermRef (n, l, sp) ->
  specialize_ref target user_specs builtins fallbacks plain n l sp
| Sequence (cs, sp) ->
  Sequence ((map (specialize target user_specs builtins fallbacks plain) cs),
    sp)
| Alternative (cs, sp) ->
  Alternative
    ((map (specialize target user_specs builtins fallbacks plain) cs), sp)
| Optional (c, sp) ->
  Optional ((specialize target user_specs builtins fallbacks plain c), sp)
| Many1 (c, sp) ->
  Many1 ((specialize target user_specs builtins fallbacks plain c), sp)
| DistDescr (c, d, sp) ->
  DistDescr ((specialize target user_specs builtins fallbacks plain c), d, sp)
| Fallback (cs, sp) ->
  Fallback ((map (specialize target user_specs builtins fallbacks plain) cs),
    sp)
| Subword (c, l, sp) ->
  Subword ((specialize target user_specs builtins fallbacks plain c), l, sp)
| _ -> e

(** val nonterm_refs : expr -> (char list * span) list **)

let rec nonterm_refs = function
| NontermRef (n, _, sp) -> (n, sp) :: []
| Sequence (cs, _) -> flat_map nonterm_refs cs
| Alternative (cs, _) -> flat_map nonterm_refs cs
| Optional (c, _) -> nonterm_refs c
| Many1 (c, _) -> nonterm_refs c
| Fallback (cs, _) -> flat_map nonterm_refs cs
| Subword (c, _, _) -> nonterm_refs c
| _ -> []

(** val refs_map :
    (char list * span) list -> (char list * span) list -> (char list * span)
    list **)

let rec refs_map l acc =
  match l with
  | [] -> acc
  | p :: r ->
    let (n, sp) = p in
    let acc' =
      if mem_str n (map fst acc)
      then map (fun p0 -> if eqb (fst p0) n then (n, sp) else p0) acc
      else app acc ((n, sp) :: [])
    in
    refs_map r acc'

(** val get_nonterm_refs : expr -> (char list * span) list **)

let get_nonterm_refs e =
  refs_map (nonterm_refs e) []

(** val children :
    (char list * (char list * span) list) list -> char list ->
    (char list * span) list **)

let children graph v =
  match assoc v graph with
  | Some c -> c
  | None -> []

type dfs_state = { visited : char list list; order : char list list }

(** val dfs :
    (char list * (char list * span) list) list -> nat -> char list ->
    (char list * span) list -> dfs_state -> dfs_state res **)

let rec dfs graph fuel v path st =
  match fuel with
  | O -> OutOfFuel
  | S fuel' ->
    let st0 = { visited = (v :: st.visited); order = st.order } in
    let rec each cs st1 =
      match cs with
      | [] -> Ok st1
      | p :: r ->
        let (c, sp) = p in
        if mem_str c (map fst path)
        then Err (NonterminalDefinitionsCycle
               (map snd (app path ((v, sp) :: []))))
        else if mem_str c st1.visited
             then each r st1
             else obind (dfs graph fuel' c (app path ((c, sp) :: [])) st1)
                    (fun st2 ->
                    each r { visited = st2.visited; order =
                      (app st2.order (c :: [])) })
    in each (children graph v) st0

(** val indegree_zero :
    (char list * (char list * span) list) list -> char list -> bool **)

let indegree_zero graph v =
  negb (existsb (fun p -> mem_str v (map fst (snd p))) graph)

(** val search_roots :
    (char list * (char list * span) list) list -> nat -> (char list * span)
    list -> dfs_state -> dfs_state res **)

let rec search_roots graph fuel roots st =
  match roots with
  | [] -> Ok st
  | p :: r ->
    let (v, vsp) = p in
    if mem_str v st.visited
    then search_roots graph fuel r st
    else obind (dfs graph fuel v ((v, vsp) :: []) st) (fun st1 ->
           search_roots graph fuel r { visited = st1.visited; order =
             (app st1.order (v :: [])) })

(** val resolution_order : defn list -> char list list res **)

let resolution_order defs =
  let names = map (fun d -> d.d_name) defs in
  let graph =
    map (fun d -> (d.d_name,
      (filter (fun p -> mem_str (fst p) names) (get_nonterm_refs d.d_rhs))))
      defs
  in
  let verts = map (fun d -> (d.d_name, d.d_span)) defs in
  let roots = filter (fun p -> indegree_zero graph (fst p)) verts in
  let fuel = S (length defs) in
  obind
    (search_roots graph fuel (app roots verts) { visited = []; order = [] })
    (fun st -> Ok
    (filter (fun v ->
      match children graph v with
      | [] -> false
      | _ :: _ -> true) st.order))

(** val resolve : (char list * expr) list -> expr -> expr **)

let rec resolve defs e = match e with
| NontermRef (n, _, _) ->
  (match assoc n defs with
   | Some rhs -> rhs
   | None -> e)
| Sequence (cs, sp) -> Sequence ((map (resolve defs) cs), sp)
| Alternative (cs, sp) -> Alternative ((map (resolve defs) cs), sp)
| Optional (c, sp) -> Optional ((resolve defs c), sp)
| Many1 (c, sp) -> Many1 ((resolve defs c), sp)
| DistDescr (c, d, sp) -> DistDescr ((resolve defs c), d, sp)
| Fallback (cs, sp) -> Fallback ((map (resolve defs) cs), sp)
| Subword (c, l, sp) -> Subword ((resolve defs c), l, sp)
| _ -> e

(** val update_def :
    char list -> expr -> (char list * expr) list -> (char list * expr) list **)

let update_def n rhs defs =
  map (fun p -> if eqb (fst p) n then (n, rhs) else p) defs

(** val resolve_in_order :
    char list list -> (char list * expr) list -> (char list * expr) list **)

let rec resolve_in_order ord defs =
  match ord with
  | [] -> defs
  | n :: r ->
    (match assoc n defs with
     | Some rhs -> resolve_in_order r (update_def n (resolve defs rhs) defs)
     | None -> resolve_in_order r defs)

(** val expr_head : expr -> expr **)

let rec expr_head e = match e with
| Sequence (children0, _) ->
  (match children0 with
   | [] -> e
   | c :: _ -> expr_head c)
| Subword (c, _, _) -> expr_head c
| _ -> e

(** val expr_tail : expr -> expr **)

let rec expr_tail e = match e with
| Sequence (cs, _) ->
  let rec last_tail = function
  | [] -> e
  | c :: r -> (match r with
               | [] -> expr_tail c
               | _ :: _ -> last_tail r)
  in last_tail cs
| Subword (c, _, _) -> expr_tail c
| _ -> e

(** val adjacent_terminals : expr list -> (span * span) option **)

let rec adjacent_terminals = function
| [] -> None
| a :: r ->
  (match r with
   | [] -> None
   | b :: _ ->
     (match expr_tail a with
      | Terminal (_, _, _, lsp) ->
        (match expr_head b with
         | Terminal (_, _, _, rsp) -> Some (lsp, rsp)
         | _ -> adjacent_terminals r)
      | _ -> adjacent_terminals r))

(** val spaces :
    (char list * expr) list -> nat -> expr -> span list -> bool -> unit res **)

let rec spaces defs fuel e trace within =
  match fuel with
  | O -> OutOfFuel
  | S fuel' ->
    let all =
      let rec all = function
      | [] -> Ok ()
      | c :: r -> obind (spaces defs fuel' c trace within) (fun _ -> all r)
      in all
    in
    (match e with
     | NontermRef (n, _, sp) ->
       (match assoc n defs with
        | Some rhs -> spaces defs fuel' rhs (app trace (sp :: [])) within
        | None -> Ok ())
     | Sequence (cs, _) ->
       obind (all cs) (fun _ ->
         if within
         then (match adjacent_terminals cs with
               | Some p -> let (l, r) = p in Err (SubwordSpaces (l, r, trace))
               | None -> Ok ())
         else Ok ())
     | Alternative (cs, _) -> all cs
     | Optional (c, _) -> spaces defs fuel' c trace within
     | Many1 (c, _) -> spaces defs fuel' c trace within
     | DistDescr (_, _, _) ->
       Panic
         ('c'::('h'::('e'::('c'::('k'::('_'::('s'::('u'::('b'::('w'::('o'::('r'::('d'::('_'::('s'::('p'::('a'::('c'::('e'::('s'::(':'::(' '::('D'::('i'::('s'::('t'::('r'::('i'::('b'::('u'::('t'::('i'::('v'::('e'::('D'::('e'::('s'::('c'::('r'::('i'::('p'::('t'::('i'::('o'::('n'::[])))))))))))))))))))))))))))))))))))))))))))))
     | Fallback (cs, _) -> all cs
     | Subword (c, _, _) -> spaces defs fuel' c trace true
     | _ -> Ok ())

(** val expr_size : expr -> nat **)

let rec expr_size = function
| Sequence (cs, _) -> S (fold_right (fun c n -> add (expr_size c) n) O cs)
| Alternative (cs, _) -> S (fold_right (fun c n -> add (expr_size c) n) O cs)
| Optional (c, _) -> S (expr_size c)
| Many1 (c, _) -> S (expr_size c)
| DistDescr (c, _, _) -> S (expr_size c)
| Fallback (cs, _) -> S (fold_right (fun c n -> add (expr_size c) n) O cs)
| Subword (c, _, _) -> S (expr_size c)
| _ -> S O

(** val flatten : expr -> expr **)

let rec flatten e = match e with
| Sequence (cs, sp) -> Sequence ((map flatten cs), sp)
| Alternative (cs, sp) -> Alternative ((map flatten cs), sp)
| Optional (c, sp) -> Optional ((flatten c), sp)
| Many1 (c, sp) -> Many1 ((flatten c), sp)
| DistDescr (c, d, sp) -> DistDescr ((flatten c), d, sp)
| Fallback (cs, sp) -> Fallback ((map flatten cs), sp)
| Subword (c, _, _) -> flatten c
| _ -> e

(** val collapse : expr -> expr **)

let rec collapse e = match e with
| Sequence (cs, sp) -> Sequence ((map collapse cs), sp)
| Alternative (cs, sp) -> Alternative ((map collapse cs), sp)
| Optional (c, sp) -> Optional ((collapse c), sp)
| Many1 (c, sp) -> Many1 ((collapse c), sp)
| DistDescr (c, d, sp) -> DistDescr ((collapse c), d, sp)
| Fallback (cs, sp) -> Fallback ((map collapse cs), sp)
| Subword (c, l, sp) -> Subword ((flatten c), l, sp)
| _ -> e

(** val propagate : expr -> coq_N -> expr **)

let rec propagate e lvl =
  match e with
  | Terminal (t, d, _, sp) -> Terminal (t, d, lvl, sp)
  | NontermRef (n, _, sp) -> NontermRef (n, lvl, sp)
  | Command (c, z, _, sp) -> Command (c, z, lvl, sp)
  | Sequence (cs, sp) -> Sequence ((map (fun c -> propagate c lvl) cs), sp)
  | Alternative (cs, sp) ->
    Alternative ((map (fun c -> propagate c lvl) cs), sp)
  | Optional (c, sp) -> Optional ((propagate c lvl), sp)
  | Many1 (c, sp) -> Many1 ((propagate c lvl), sp)
  | DistDescr (c, d, sp) -> DistDescr ((propagate c lvl), d, sp)
  | Fallback (cs, sp) ->
    Fallback
      ((let rec go i = function
        | [] -> []
        | c :: r -> (propagate c i) :: (go (N.succ i) r)
        in go N0 cs), sp)
  | Subword (c, _, sp) -> Subword ((propagate c lvl), lvl, sp)

(** val collect_plain_defs :
    (((char list * span) * (char list * span) option) * expr) list -> defn
    list -> defn list res **)

let rec collect_plain_defs ds acc =
  match ds with
  | [] -> Ok acc
  | p :: r ->
    let (p0, rhs) = p in
    let (p1, o) = p0 in
    let (n, nsp) = p1 in
    (match o with
     | Some _ -> collect_plain_defs r acc
     | None ->
       (match find (fun d -> eqb d.d_name n) acc with
        | Some dup -> Err (DuplicateNonterminalDefinition (dup.d_span, nsp))
        | None ->
          collect_plain_defs r
            (app acc ({ d_name = n; d_span = nsp; d_rhs = rhs } :: []))))

(** val slash : char **)

let slash =
  '/'

(** val from_grammar :
    (shell -> (char list * char list) list) -> grammar -> shell ->
    valid_grammar res **)

let from_grammar builtins g sh =
  let cvs = call_variants g in
  (match dedup_names [] (map (fun x -> ((fst (fst x)), (snd (fst x)))) cvs) with
   | [] -> Err MissingCallVariants
   | p :: more ->
     let (command, command_span) = p in
     (match more with
      | [] ->
        if contains_char slash command
        then Err (InvalidCommandName command_span)
        else let expr0 =
               match map snd cvs with
               | [] ->
                 let es = [] in
                 Alternative (es,
                 (match es with
                  | [] -> { sline = N0; scol = N0; secol = N0 }
                  | e :: _ -> expr_span e))
               | e :: l ->
                 (match l with
                  | [] -> e
                  | e0 :: l0 ->
                    let es = e :: (e0 :: l0) in
                    Alternative (es,
                    (match es with
                     | [] -> { sline = N0; scol = N0; secol = N0 }
                     | e1 :: _ -> expr_span e1)))
             in
             obind (collect_plain_defs (all_defs g) []) (fun defs0 ->
               let defs1 =
                 map (fun d -> { d_name = d.d_name; d_span = d.d_span;
                   d_rhs = (distribute_descriptions d.d_rhs) }) defs0
               in
               let expr1 = distribute_descriptions expr0 in
               obind (get_specializations g sh) (fun specs ->
                 let (user_specs, fallbacks) = specs in
                 let spec =
                   specialize sh user_specs (builtins sh) fallbacks
                     (map (fun d -> d.d_name) defs1)
                 in
                 let referenced =
                   map fst
                     (app (flat_map (fun d -> nonterm_refs d.d_rhs) defs1)
                       (nonterm_refs expr1))
                 in
                 let defs2 =
                   map (fun d -> { d_name = d.d_name; d_span = d.d_span;
                     d_rhs = (spec d.d_rhs) }) defs1
                 in
                 let expr2 = spec expr1 in
                 let unused =
                   filter (fun p0 -> negb (mem_str (fst p0) referenced))
                     (map (fun d -> (d.d_name, d.d_span)) defs1)
                 in
                 let unused_specs =
                   filter (fun p0 -> negb (mem_str (fst p0) referenced))
                     (map (fun p0 -> ((fst p0), (snd p0).us_span)) user_specs)
                 in
                 obind (resolution_order defs2) (fun ord ->
                   let table =
                     resolve_in_order ord
                       (map (fun d -> (d.d_name, d.d_rhs)) defs2)
                   in
                   let fuel = S
                     (fold_right (fun p0 n -> add (expr_size (snd p0)) n)
                       (expr_size expr2) table)
                   in
                   obind
                     (spaces table (mul fuel (S (length table))) expr2 []
                       false) (fun _ ->
                     let expr3 = resolve table expr2 in
                     let expr4 = collapse expr3 in
                     let expr5 = propagate expr4 N0 in
                     Ok { v_command = command; v_expr = expr5; v_undefined =
                     (get_nonterm_refs expr5); v_unused = unused;
                     v_unused_specs = unused_specs }))))
      | _ :: _ -> Err (VaryingCommandNames (command_span :: (map snd more)))))
