open BinNums
open String

type span = { sline : coq_N; scol : coq_N; secol : coq_N }

type shell =
| Bash
| Fish
| Zsh
| Pwsh

val shell_eqb : shell -> shell -> bool

val shell_of_string : char list -> shell option

type expr =
| Terminal of char list * char list option * coq_N * span
| NontermRef of char list * coq_N * span
| Command of char list * bool * coq_N * span
| Sequence of expr list * span
| Alternative of expr list * span
| Optional of expr * span
| Many1 of expr * span
| DistDescr of expr * char list * span
| Fallback of expr list * span
| Subword of expr * coq_N * span

val expr_span : expr -> span

type statement =
| CallVariant of char list * span * expr
| NontermDef of char list * span * (char list * span) option * expr

type grammar = statement list
