open List
open String

type ('e, 'a) outcome =
| Ok of 'a
| Err of 'e
| Panic of char list
| OutOfFuel

val obind :
  ('a1, 'a2) outcome -> ('a2 -> ('a1, 'a3) outcome) -> ('a1, 'a3) outcome

val assoc : char list -> (char list * 'a1) list -> 'a1 option

val mem_str : char list -> char list list -> bool

val contains_char : char -> char list -> bool
