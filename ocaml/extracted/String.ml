
(** val eqb : char list -> char list -> bool **)

let rec eqb s1 s2 =
  match s1 with
  | [] -> (match s2 with
           | [] -> true
           | _::_ -> false)
  | c1::s1' ->
    (match s2 with
     | [] -> false
     | c2::s2' -> if (=) c1 c2 then eqb s1' s2' else false)
