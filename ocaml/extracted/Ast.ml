open BinNums
open String

type span = { sline : coq_N; scol : coq_N; secol : coq_N }

type shell =
| Bash
| Fish
| Zsh
| Pwsh

(** val shell_eqb : shell -> shell -> bool **)

let shell_eqb a b =
  match a with
  | Bash -> (match b with
             | Bash -> true
             | _ -> false)
  | Fish -> (match b with
             | Fish -> true
             | _ -> false)
  | Zsh -> (match b with
            | Zsh -> true
            | _ -> false)
  | Pwsh -> (match b with
             | Pwsh -> true
             | _ -> false)

(** val shell_of_string : char list -> shell option **)

let shell_of_string s =
  if eqb s ('b'::('a'::('s'::('h'::[]))))
  then Some Bash
  else if eqb s ('f'::('i'::('s'::('h'::[]))))
       then Some Fish
       else if eqb s ('z'::('s'::('h'::[])))
            then Some Zsh
            else if eqb s ('p'::('w'::('s'::('h'::[]))))
                 then Some Pwsh
                 else None

type expr =
| Terminal of char list * char list option * coq_N * span
| NontermRef of char list * coq_N * span
| Command of char list * bool * coq_N * span
| Sequence of expr list * span
| Alternative of expr list * span
| Optional of expr * span
| Many1 of expr * span
| DistDescr of expr * char list * span
| Fallback of expr list * span
| Subword of expr * coq_N * span

(** val expr_span : expr -> span **)

let expr_span = function
| Terminal (_, _, _, sp) -> sp
| NontermRef (_, _, sp) -> sp
| Command (_, _, _, sp) -> sp
| Sequence (_, sp) -> sp
| Alternative (_, sp) -> sp
| Optional (_, sp) -> sp
| Many1 (_, sp) -> sp
| DistDescr (_, _, sp) -> sp
| Fallback (_, sp) -> sp
| Subword (_, _, sp) -> sp

type statement =
| CallVariant of char list * span * expr
| NontermDef of char list * span * (char list * span) option * expr

type grammar = statement list
