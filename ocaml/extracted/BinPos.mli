open BinNums

module Pos :
 sig
  val succ : positive -> positive
 end
