open Datatypes

(** val map : ('a1 -> 'a2) -> 'a1 list -> 'a2 list **)

let rec map f = function
| [] -> []
| a :: t -> (f a) :: (map f t)

(** val flat_map : ('a1 -> 'a2 list) -> 'a1 list -> 'a2 list **)

let rec flat_map f = function
| [] -> []
| x :: t -> app (f x) (flat_map f t)

(** val fold_right : ('a2 -> 'a1 -> 'a1) -> 'a1 -> 'a2 list -> 'a1 **)

let rec fold_right f a0 = function
| [] -> a0
| b :: t -> f b (fold_right f a0 t)

(** val existsb : ('a1 -> bool) -> 'a1 list -> bool **)

let rec existsb f = function
| [] -> false
| a :: l0 -> (||) (f a) (existsb f l0)

(** val filter : ('a1 -> bool) -> 'a1 list -> 'a1 list **)

let rec filter f = function
| [] -> []
| x :: l0 -> if f x then x :: (filter f l0) else filter f l0

(** val find : ('a1 -> bool) -> 'a1 list -> 'a1 option **)

let rec find f = function
| [] -> None
| x :: tl -> if f x then Some x else find f tl
