open Ast
open BinNums

val builtins : shell -> (char list * char list) list

val array_start_bash : coq_N
