
val eqb : char list -> char list -> bool
