open List
open String

type ('e, 'a) outcome =
| Ok of 'a
| Err of 'e
| Panic of char list
| OutOfFuel

(** val obind :
    ('a1, 'a2) outcome -> ('a2 -> ('a1, 'a3) outcome) -> ('a1, 'a3) outcome **)

let obind x f =
  match x with
  | Ok a -> f a
  | Err e -> Err e
  | Panic s -> Panic s
  | OutOfFuel -> OutOfFuel

(** val assoc : char list -> (char list * 'a1) list -> 'a1 option **)

let rec assoc k = function
| [] -> None
| p :: r -> let (k', v) = p in if eqb k k' then Some v else assoc k r

(** val mem_str : char list -> char list list -> bool **)

let mem_str k l =
  existsb (eqb k) l

(** val contains_char : char -> char list -> bool **)

let rec contains_char c = function
| [] -> false
| a::r -> if (=) a c then true else contains_char c r
