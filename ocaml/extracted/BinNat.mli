open BinNums
open BinPos

module N :
 sig
  val succ : coq_N -> coq_N
 end
