open Ast
open Prelude
open String

type choice =
| ChCommand of char list
| ChPlain of expr
| ChAny

val is_shell : char list -> shell -> bool

val shell_definition : grammar -> shell -> char list -> expr option

val plain_definition : grammar -> char list -> expr option

val spec :
  (shell -> (char list * char list) list) -> grammar -> shell -> char list ->
  choice
