open Datatypes

val map : ('a1 -> 'a2) -> 'a1 list -> 'a2 list

val flat_map : ('a1 -> 'a2 list) -> 'a1 list -> 'a2 list

val fold_right : ('a2 -> 'a1 -> 'a1) -> 'a1 -> 'a2 list -> 'a1

val existsb : ('a1 -> bool) -> 'a1 list -> bool

val filter : ('a1 -> bool) -> 'a1 list -> 'a1 list

val find : ('a1 -> bool) -> 'a1 list -> 'a1 option
