open Ast
open BinNat
open BinNums
open Datatypes
open List
open Nat
open Prelude
open String

type cerror =
| MissingCallVariants
| VaryingCommandNames of span list
| InvalidCommandName of span
| DuplicateNonterminalDefinition of span * span
| UnknownShell of span
| NonCommandSpecialization of span
| NonterminalDefinitionsCycle of span list
| SubwordSpaces of span * span * span list

type 'a res = (cerror, 'a) outcome

type defn = { d_name : char list; d_span : span; d_rhs : expr }

type valid_grammar = { v_command : char list; v_expr : expr;
                       v_undefined : (char list * span) list;
                       v_unused : (char list * span) list;
                       v_unused_specs : (char list * span) list }

val call_variants : grammar -> ((char list * span) * expr) list

val dedup_names :
  char list list -> (char list * span) list -> (char list * span) list

val distribute : expr -> char list option -> expr * char list option

val distribute_descriptions : expr -> expr

type user_spec = { us_cmd : char list; us_span : span }

val all_defs :
  grammar -> (((char list * span) * (char list * span) option) * expr) list

val get_user_specs :
  shell -> (((char list * span) * (char list * span) option) * expr) list ->
  (char list * user_spec) list -> (char list * user_spec) list res

val get_fallback_specs :
  char list list -> (((char list * span) * (char list * span) option) * expr)
  list -> (char list * (char list * span)) list ->
  (char list * (char list * span)) list res

val get_specializations :
  grammar -> shell -> ((char list * user_spec)
  list * (char list * (char list * span)) list) res

val is_zsh : shell -> bool

val specialize_ref :
  shell -> (char list * user_spec) list -> (char list * char list) list ->
  (char list * (char list * span)) list -> char list list -> char list ->
  coq_N -> span -> expr

val specialize :
  shell -> (char list * user_spec) list -> (char list * char list) list ->
  (char list * (char list * span)) list -> char list list -> expr -> expr

val nonterm_refs : expr -> (char list * span) list

val refs_map :
  (char list * span) list -> (char list * span) list -> (char list * span)
  list

val get_nonterm_refs : expr -> (char list * span) list

val children :
  (char list * (char list * span) list) list -> char list ->
  (char list * span) list

type dfs_state = { visited : char list list; order : char list list }

val dfs :
  (char list * (char list * span) list) list -> nat -> char list ->
  (char list * span) list -> dfs_state -> dfs_state res

val indegree_zero :
  (char list * (char list * span) list) list -> char list -> bool

val search_roots :
  (char list * (char list * span) list) list -> nat -> (char list * span)
  list -> dfs_state -> dfs_state res

val resolution_order : defn list -> char list list res

val resolve : (char list * expr) list -> expr -> expr

val update_def :
  char list -> expr -> (char list * expr) list -> (char list * expr) list

val resolve_in_order :
  char list list -> (char list * expr) list -> (char list * expr) list

val expr_head : expr -> expr

val expr_tail : expr -> expr

val adjacent_terminals : expr list -> (span * span) option

val spaces :
  (char list * expr) list -> nat -> expr -> span list -> bool -> unit res

val expr_size : expr -> nat

val flatten : expr -> expr

val collapse : expr -> expr

val propagate : expr -> coq_N -> expr

val collect_plain_defs :
  (((char list * span) * (char list * span) option) * expr) list -> defn list
  -> defn list res

val slash : char

val from_grammar :
  (shell -> (char list * char list) list) -> grammar -> shell ->
  valid_grammar res
