open BinNums

module Pos =
 struct
  (** val succ : positive -> positive **)

  let rec succ = function
  | Coq_xI p -> Coq_xO (succ p)
  | Coq_xO p -> Coq_xI p
  | Coq_xH -> Coq_xO Coq_xH
 end
