open Ast
open Prelude
open String

type choice =
| ChCommand of char list
| ChPlain of expr
| ChAny

(** val is_shell : char list -> shell -> bool **)

let is_shell name sh =
  match shell_of_string name with
  | Some s -> shell_eqb s sh
  | None -> false

(** val shell_definition : grammar -> shell -> char list -> expr option **)

let rec shell_definition g sh x =
  match g with
  | [] -> None
  | s :: r ->
    (match s with
     | CallVariant (_, _, _) -> shell_definition r sh x
     | NontermDef (n, _, sh0, rhs) ->
       (match sh0 with
        | Some p ->
          let (shn, _) = p in
          if (&&) (eqb n x) (is_shell shn sh)
          then Some rhs
          else shell_definition r sh x
        | None -> shell_definition r sh x))

(** val plain_definition : grammar -> char list -> expr option **)

let rec plain_definition g x =
  match g with
  | [] -> None
  | s :: r ->
    (match s with
     | CallVariant (_, _, _) -> plain_definition r x
     | NontermDef (n, _, sh, rhs) ->
       (match sh with
        | Some _ -> plain_definition r x
        | None -> if eqb n x then Some rhs else plain_definition r x))

(** val spec :
    (shell -> (char list * char list) list) -> grammar -> shell -> char list
    -> choice **)

let spec builtins g sh x =
  match shell_definition g sh x with
  | Some other ->
    (match other with
     | Command (cmd, _, _, _) -> ChCommand cmd
     | _ -> ChPlain other)
  | None ->
    (match plain_definition g x with
     | Some rhs -> ChPlain rhs
     | None ->
       (match assoc x (builtins sh) with
        | Some cmd -> ChCommand cmd
        | None -> ChAny))
