open BinNums
open BinPos

module N =
 struct
  (** val succ : coq_N -> coq_N **)

  let succ = function
  | N0 -> Npos Coq_xH
  | Npos p -> Npos (Pos.succ p)
 end
