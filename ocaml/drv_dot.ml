(* C16 driver: the model of the two Graphviz printers, the DOT reader and the prescribed graph.

   dotdfa <old|current|patched|(v e sa d0 rx)> <base> <dfa>            -> (ok "text") | (panic "site") | (outoffuel)
   dotregex <old|current|patched> <regex-stage-payload> -> (ok "text") | (panic ..) | (outoffuel)
   dotread "text"                                  -> (graph ...) | (readfail)
   dotjudgedfa <base> <dfa> "text"                 -> (readfail) | (ok) | (diff (header b) (nodesextra ..) (nodesmissing ..)
                                                        (edgesextra ..) (edgesmissing ..) (clusters b))
   dotjudgeregex <regex-stage-payload> "text"      -> (readfail) | (ok) | (missing (cluster|- "label")...)
   dotrender "text"                                -> "rendered label"                                        *)
module Dfa = Extracted.Dfa
module Dot = Extracted.Dot
module DotRead = Extracted.DotRead
module DotSpec = Extracted.DotSpec
module Prelude = Extracted.Prelude
open Sx

(* like Dfa_io.cdfa_of, but the dump may contain (unreferenced) for pool entries that no input of
   the minimised automaton names any more: they are never looked up; an empty automaton stands in *)
let cdfa_of (v : t) : Dfa.cdfa =
  let (main, subs) = Dfa_io.dfa_parts v in
  let empty = { Dfa.d_start = n_of_int 0; d_trans = []; d_accepting = []; d_inputs = [] } in
  let subs = List.map (fun s ->
      match s with
      | List [Atom "unreferenced"] -> empty
      | s ->
          let (d, subsubs) = Dfa_io.dfa_parts s in
          if subsubs <> [] then raise (Shape "a within-word automaton contains within-word automata");
          d) subs in
  { Dfa.c_main = main; c_subs = subs }

let variant_of (v : t) : Dot.variant =
  match v with
  | Atom "old" -> Dot.old
  | Atom "current" -> Dot.current
  | Atom "patched" -> Dot.patched
  (* (v esc subacc dead0 rxesc): each flag true = patched behaviour for that mechanism only *)
  | List [Atom "v"; Atom e; Atom sa; Atom d0; Atom rx] ->
      { Dot.v_escape = (if e = "true" then Dot.escape_dot else Dot.escape_quotes);
        v_subacc = (sa = "true"); v_dead0 = not (d0 = "true");
        v_rx_escape = (if rx = "true" then Dot.escape_dot else (fun x -> x)) }
  | v -> raise (Shape ("variant: " ^ to_string v))

let rinput_of (v : t) : Dot.rinput =
  match v with
  | List [Atom "lit"; t; d; _l; _sp] -> Dot.RLit (cl (string_ t), ostring d)
  | List [Atom "nt"; n; _l; _sp] -> Dot.RNonterm (cl (string_ n))
  | List [Atom "cmd"; c; _z; _l; _sp] -> Dot.RCmd (cl (string_ c))
  | List [Atom "sub"; r; _l; _sp] -> Dot.RSub (n_ r)
  | v -> raise (Shape ("rinput: " ^ to_string v))

let rnode_of (v : t) : Dot.rnode =
  match v with
  | List [Atom "eps"] -> Dot.REps
  | List [Atom "term"; p] -> Dot.RTerm (n_ p)
  | List [Atom "nonterm"; p] -> Dot.RNt (n_ p)
  | List [Atom "command"; p] -> Dot.RCommand (n_ p)
  | List [Atom "subword"; p] -> Dot.RSubword (n_ p)
  | List [Atom "end"; p] -> Dot.REnd (n_ p)
  | List (Atom "cat" :: l) -> Dot.RCat (List.map n_ l)
  | List (Atom "or" :: l) -> Dot.ROr (List.map n_ l)
  | List [Atom "star"; c] -> Dot.RStar (n_ c)
  | v -> raise (Shape ("rnode: " ^ to_string v))

let regex_of (v : t) : Dot.regex =
  match v with
  | List [Atom "regex"; List [Atom "root"; r]; List [Atom "end"; _e]; List (Atom "inputs" :: ins);
          List (Atom "nodes" :: nodes); _first; _follow] ->
      { Dot.r_root = n_ r; r_inputs = List.map rinput_of ins; r_nodes = List.map rnode_of nodes }
  | v -> raise (Shape ("regex: " ^ to_string v))

(* (ok <regex> (pool (id <regex>)...)).  The same payload is also read by the regex package's reader
   (Drv_regex.regex_of, into Model/Regex.v's types) and sent through the extracted forgetful view
   Model/DotOfRegex.v: both routes must give the same arena (this ties conv_regex / conv_pool, over
   which C16_regex_dot_model is stated, to the data on every run). *)
let regex_payload (v : t) : Dot.rpool * Dot.regex =
  match v with
  | List [Atom "ok"; r; List (Atom "pool" :: pool)] ->
      let direct_pool = List.map (fun p -> match p with
           | List [i; r] -> (n_ i, regex_of r)
           | _ -> raise (Shape "pool entry")) pool in
      let direct = regex_of r in
      let via = Extracted.DotOfRegex.conv_regex (Drv_regex.regex_of r) in
      if via <> direct then raise (Failure "DotOfRegex.conv_regex disagrees with the direct reading of the arena");
      let ids = List.map (fun (i, _) -> int_of_n i) direct_pool in
      if ids = List.init (List.length ids) (fun k -> k) then begin
        let via_pool = Extracted.DotOfRegex.conv_pool
            (List.map (fun p -> match p with List [_; r] -> Drv_regex.regex_of r | _ -> raise (Shape "pool entry")) pool) in
        if via_pool <> direct_pool then raise (Failure "DotOfRegex.conv_pool disagrees with the direct reading of the pool")
      end;
      (direct_pool, direct)
  | v -> raise (Shape ("regex payload: " ^ to_string v))

let ritem_of (i : Dot.rinput) : DotSpec.ritem =
  match i with
  | Dot.RLit (t, d) -> DotSpec.XLit (t, d)
  | Dot.RNonterm n -> DotSpec.XNonterm n
  | Dot.RCmd c -> DotSpec.XCmd c
  | Dot.RSub r -> DotSpec.XSub r

let outcome (r : (unit, char list) Prelude.outcome) : t =
  match r with
  | Prelude.Ok s -> List [Atom "ok"; ss s]
  | Prelude.Err () -> List [Atom "err"]
  | Prelude.Panic s -> List [Atom "panic"; ss s]
  | Prelude.OutOfFuel -> List [Atom "outoffuel"]

let of_attrs (a : DotRead.attrs) : t = List (List.map (fun (k, v) -> List [ss k; ss v]) a)
let sos_ = function None -> Atom "-" | Some s -> ss s

let rec of_cluster (c : DotRead.cluster) : t =
  match c with
  | DotRead.Cluster (name, ga, members, subs) ->
      List [Atom "cluster"; sos_ name; of_attrs ga; List (List.map ss members); List (List.map of_cluster subs)]

let of_graph (g : DotRead.graph) : t =
  List [Atom "graph"; Atom (if g.DotRead.g_strict then "strict" else "-");
        Atom (if g.DotRead.g_directed then "digraph" else "graph"); sos_ g.DotRead.g_name;
        of_attrs g.DotRead.g_attrs;
        List (Atom "nodes" :: List.map (fun n -> List [ss n.DotRead.gn_id; of_attrs n.DotRead.gn_attrs]) g.DotRead.g_nodes);
        List (Atom "edges" :: List.map (fun e -> List [ss e.DotRead.ge_src; ss e.DotRead.ge_dst; of_attrs e.DotRead.ge_attrs]) g.DotRead.g_edges);
        List (Atom "clusters" :: List.map of_cluster g.DotRead.g_subs)]

let of_nview (((i, s), l) : DotSpec.nview) : t = List [ss i; sos_ s; sos_ l]
let of_eview ((((f, t), l), s) : DotSpec.eview) : t = List [ss f; ss t; sos_ l; sos_ s]
let b (x : bool) : t = Atom (if x then "true" else "false")

let () =
  register "dotdfa" (fun v ->
      match v with
      | List [var; base; d] -> outcome (Dot.of_dfa_with (variant_of var) (n_ base) (cdfa_of d))
      | _ -> raise (Shape "dotdfa args"));
  register "dotregex" (fun v ->
      match v with
      | List [var; payload] ->
          let (pool, r) = regex_payload payload in
          outcome (Dot.of_regex_with (variant_of var) pool r)
      | _ -> raise (Shape "dotregex args"));
  register "dotread" (fun v ->
      match v with
      | List [text] ->
          (match DotRead.read (cl (string_ text)) with
           | Some g -> of_graph g
           | None -> List [Atom "readfail"])
      | _ -> raise (Shape "dotread args"));
  register "dotrender" (fun v ->
      match v with
      | List [text] -> ss (DotRead.render_label (cl (string_ text)))
      | _ -> raise (Shape "dotrender args"));
  register "dotjudgedfa" (fun v ->
      match v with
      | List [base; d; text] ->
          (match DotRead.read (cl (string_ text)) with
           | None -> List [Atom "readfail"]
           | Some g ->
               let want = DotSpec.graph_of_dfa (n_ base) (cdfa_of d) in
               let df = DotSpec.compare (DotSpec.view g) want in
               if DotSpec.gdiff_ok df then List [Atom "ok"]
               else List [Atom "diff"; List [Atom "header"; b df.DotSpec.df_header];
                          List (Atom "nodesextra" :: List.map of_nview df.DotSpec.df_nodes_extra);
                          List (Atom "nodesmissing" :: List.map of_nview df.DotSpec.df_nodes_missing);
                          List (Atom "edgesextra" :: List.map of_eview df.DotSpec.df_edges_extra);
                          List (Atom "edgesmissing" :: List.map of_eview df.DotSpec.df_edges_missing);
                          List [Atom "clusters"; b df.DotSpec.df_clusters]])
      | _ -> raise (Shape "dotjudgedfa args"));
  register "dotjudgeregex" (fun v ->
      match v with
      | List [payload; text] ->
          (match DotRead.read (cl (string_ text)) with
           | None -> List [Atom "readfail"]
           | Some g ->
               let (pool, r) = regex_payload payload in
               let items (x : Dot.regex) = List.map ritem_of x.Dot.r_inputs in
               let missing = DotSpec.regex_missing g (List.map (fun (i, x) -> (i, items x)) pool) (items r) in
               if missing = [] && g.DotRead.g_directed then List [Atom "ok"]
               else List (Atom "missing" :: List.map (fun (c, l) -> List [sos_ c; ss l]) missing))
      | _ -> raise (Shape "dotjudgeregex args"))

(* judge a text the model itself produced under a variant *)
let judge_dfa_text base c (text : (unit, char list) Prelude.outcome) : t =
  match text with
  | Prelude.Ok s ->
      (match DotRead.read s with
       | None -> Atom "readfail"
       | Some g ->
           if DotSpec.gdiff_ok (DotSpec.compare (DotSpec.view g) (DotSpec.graph_of_dfa base c)) then Atom "ok"
           else Atom "diff")
  | _ -> Atom "nomodel"

let () =
  (* dotclassdfa <base> <dfa> -> (known labels subacc phantom) and how the model is judged with none / each / both of
     the fixes of commit 0e66d33: (old r) (esc r) (subacc r) (both r) -- diagnostic information for the replay file *)
  register "dotclassdfa" (fun v ->
      match v with
      | List [base; d] ->
          let base = n_ base and c = cdfa_of d in
          let var e sa = { Dot.v_escape = (if e then Dot.escape_dot else Dot.escape_quotes); v_subacc = sa;
                           v_dead0 = true; v_rx_escape = (fun x -> x) } in
          let j e sa = judge_dfa_text base c (Dot.of_dfa_with (var e sa) base c) in
          List [List [Atom "known"; b (Dot.known_labels c); b (Dot.known_subacc base c); b (Dot.known_phantom c)];
                List [Atom "old"; j false false]; List [Atom "esc"; j true false];
                List [Atom "subacc"; j false true]; List [Atom "both"; j true true]]
      | _ -> raise (Shape "dotclassdfa args"));
  (* dotclassregex <payload> -> (known b) (old r) (fixed r) *)
  register "dotclassregex" (fun v ->
      match v with
      | List [payload] ->
          let (pool, r) = regex_payload payload in
          let items (x : Dot.regex) = List.map ritem_of x.Dot.r_inputs in
          let j var =
            match Dot.of_regex_with var pool r with
            | Prelude.Ok s ->
                (match DotRead.read s with
                 | None -> Atom "readfail"
                 | Some g ->
                     if DotSpec.regex_missing g (List.map (fun (i, x) -> (i, items x)) pool) (items r) = []
                        && g.DotRead.g_directed then Atom "ok" else Atom "missing")
            | _ -> Atom "nomodel" in
          List [List [Atom "known"; b (Dot.known_rx_all pool r)]; List [Atom "old"; j Dot.old];
                List [Atom "fixed"; j Dot.patched]]
      | _ -> raise (Shape "dotclassregex args"));
  (* dotwf <dfa> -> true | false : the hypotheses (wf_cdfa, starts_at_zero) of the C16 theorems *)
  register "dotwf" (fun v ->
      match v with
      | List [d] -> let c = cdfa_of d in b (Dot.wf_cdfa c && Dot.starts_at_zero c)
      | _ -> raise (Shape "dotwf args"));
  (* dotrxwf <payload> -> true | false : the hypotheses (rx_wf_b, rx_total_b) of the C16 regex theorems *)
  register "dotrxwf" (fun v ->
      match v with
      | List [payload] -> let (pool, r) = regex_payload payload in b (Dot.rx_wf_b pool r && Dot.rx_total_b pool r)
      | _ -> raise (Shape "dotrxwf args"));
  (* dotsubids <base> <dfa> -> ((poolidx id)...) : the prescribed numbering of the clusters *)
  register "dotsubids" (fun v ->
      match v with
      | List [base; d] ->
          let c = cdfa_of d in
          List (List.map (fun (k, i) -> List [sn k; sn i]) (DotSpec.sub_ids (n_ base) c.Dfa.c_main))
      | _ -> raise (Shape "dotsubids args"))

let linked = ()
