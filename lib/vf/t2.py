"""Tie T2: real bash on the really emitted script  vs  the extracted Model/BashSem.v on Rust's TABLES dump.

INTERFACE (shared by the checks C01, C09, C12, C17)

  dumps = impl.dump(exe, texts, ['min', 'tables', 'script'], ['bash'])        # cg-dump (MIN is needed: accepting states)
  case  = t2.Case(dumps[i]['bash'], queries, wordbreaks=None|'', probes={k: [line, ...]})
            queries    list of (words_before_cursor, prefix)
            wordbreaks None = bash's default COMP_WORDBREAKS, or an explicit value
            probes     the candidate lines of every probe command (bashrun.probe(k, lines)) of the grammar
            outputs    (optional) {command id: stdout text} for commands that are not probes
  t2.run_cases(cases, variant='auto')  fills, per case:
       case.ok        False: no script / no tables for this grammar (rejected or crashed) -- nothing was run
       case.results   one Res per query:
            .bash      dict(rc, reply, log=[(probe k or cmd id as str, $1, $2)]) or None (bash gave nothing: timeout/died)
            .model     ('ok', rc, reply, log) | ('err', msg) | ('outoffuel',) | ('drivererror', msg)
            .status    'agree' | 'mismatch' | 'skipped' (model: outside its domain)
                       | 'hang-agree' (model: OutOfFuel, bash: did not finish within HANG_TIMEOUT)
       case.variant   'pinned' | 'fixed': which within-word literal loop the script contains
  t2.detect_variant(script_text) -> 'pinned' | 'fixed' | None (template unknown)
  t2.primitives_tie(rng, n) -> list of mismatch descriptions: Model/Glob.v ([[ == ]], printf %q, ${x##p} ${x#p} ${x%p}),
       filter_lines, sort_desc, associative-array key order against real bash on generated inputs.

The log of the model names commands by id (position in TABLES' command list); probes log their own number k;
`probe_ids(tables)` maps one to the other by reading the probe's number out of the command text."""
import os
import re
import subprocess
import tempfile

from . import bashrun, model, paths, sexp
from .sexp import Q

DEFAULT_WORDBREAKS = ' \t\n"\'@><=;|&(:'
HANG_TIMEOUT = 8
RETRY_TIMEOUT = 90

PINNED_STOP = '                if [[ $literal == $subword* ]]; then\n                    break 2\n'
FIXED_STOP = ('                if [[ $mode = complete && -v "state_transitions[$literal_id]" && $literal == $subword* ]]; then\n'
              '                    break 2\n')
PINNED_CSTOP = '                        if [[ $candidate == $subword* ]]; then\n                            break 3\n'
FIXED_CSTOP = '                        if [[ $mode = complete && $candidate == $subword* ]]; then\n                            break 3\n'


REPAIRED_RESET = '        candidates=()\n        eval "local literal_transitions_name=literal_transitions_level_${fallback_level}"'
REPAIRED_LINES = 'while IFS= read -r line; do printf \'%s\\n\' "${line%%$\'\\t\'*}"; done'
REPAIRED_STOP = ('                if [[ $mode = complete && -v "state_transitions[$literal_id]" && $literal == "$subword"* ]]; then\n'
                 '                    break 2\n')
OLD_LINES = 'while read -r f1 _; do echo "$f1"; done'
ACCEPTING_TEST = '            if [[ $mode != matches || -v "accepting_states[$subword_state]" ]]; then\n                matched=1\n'


def detect_variant(script):
    """Which templates does this script come from?  'pinned' = /repo when the model was first written, 'fixed' =
    pinned + the repaired within-word stop test, 'repaired' = /repo after 7d4f01b/ac67eca/1567cbe (quoted operands, stop
    test only when completing, candidates = text before the first tab via printf, no last-word escape, arrays reset
    per level).  None = none of them (a template changed: broken tie)."""
    if REPAIRED_RESET in script:
        if OLD_LINES in script or 'if [[ $(($word_index + 1)) == $cword ]]' in script:
            return None
        if '_subword () {' in script and (REPAIRED_STOP not in script or ACCEPTING_TEST not in script):
            return None
        return 'repaired'
    if '_subword () {' not in script:
        return 'pinned'
    has_cmds = 'for candidate in "${decreasing_length[@]}"; do\n                        if [[ $candidate == $subword ]]' in script
    if FIXED_STOP in script and (not has_cmds or FIXED_CSTOP in script):
        return 'fixed'
    if PINNED_STOP in script and (not has_cmds or PINNED_CSTOP in script):
        return 'pinned'
    return None


def template_status():
    """T3: translator/bash_templates.py status of paths.REPO's bash.rs against the committed lock."""
    import importlib.util
    spec = importlib.util.spec_from_file_location('bash_templates', os.path.join(paths.ROOT, 'translator', 'bash_templates.py'))
    mod = importlib.util.module_from_spec(spec)
    spec.loader.exec_module(mod)
    return mod.status(paths.REPO)


def probe_ids(tables_sx):
    """{command id: probe number k} for the commands that are bashrun.probe texts."""
    out = {}
    cmds = tables_sx[2][1:]
    for i, c in enumerate(cmds):
        m = re.match(r'echo "(\d+)\x1e', str(c).strip())
        if m:
            out[i] = int(m.group(1))
    return out


class Res:
    __slots__ = ('bash', 'model', 'status')

    def __init__(self):
        self.bash = None
        self.model = None
        self.status = None


def with_subaccepting(tables_text, min_text):
    """TABLES payload + `(subaccepting (script-id state ...) ...)`: the accepting states of every within-word automaton,
    read from the MIN stage (`(subdfas (dfa .. (acc ..)) ...)`, pool order) and keyed by the script id of TABLES'
    `(subwords (poolidx scriptid ..))`.  The emitted script carries them as `local -A accepting_states` (df274e8).
    If the dump already has the field, it is returned unchanged."""
    if '(subaccepting' in tables_text:
        return tables_text
    tsx = sexp.parse(tables_text)
    subs = [x for x in tsx if isinstance(x, list) and x and x[0] == 'subwords'][0][1:]
    rows = []
    if subs:
        if not min_text:
            return None
        msx = sexp.parse(min_text)
        if msx[0] != 'ok':
            return None
        subd = [x for x in msx[1] if isinstance(x, list) and x and x[0] == 'subdfas'][0][1:]
        for sw in subs:
            pool, sid = int(sw[0]), int(sw[1])
            acc = [x for x in subd[pool] if isinstance(x, list) and x and x[0] == 'acc'][0][1:]
            rows.append('(%d %s)' % (sid, ' '.join(str(a) for a in acc)))
    assert tables_text.endswith(')')
    return tables_text[:-1] + ' (subaccepting%s))' % ''.join(' ' + r for r in rows)


class Case:
    def __init__(self, stages, queries, wordbreaks=None, probes=None, outputs=None, cmd='cmd', ignore_case=False):
        self.stages = stages
        self.queries = list(queries)
        self.wordbreaks = wordbreaks
        self.probes = probes or {}
        self.outputs = outputs or {}
        self.cmd = cmd
        self.ignore_case = ignore_case
        self.ok = False
        self.results = []
        self.variant = None
        self.script = None
        self.tables = None
        self.start = 0
        self.cid_to_probe = {}
        self.note = ''

    def prepare(self):
        st = self.stages
        if 'SCRIPT' not in st or 'TABLES' not in st or 'CRASH' in st or 'PANIC' in st:
            self.note = 'no script/tables'
            return
        self.script = str(sexp.parse(st['SCRIPT']))
        self.tables = with_subaccepting(st['TABLES'], st.get('MIN'))
        if self.tables is None:
            self.note = 'within-word automata but no MIN stage in the dump (accepting states unknown)'
            return
        tsx = sexp.parse(self.tables)
        self.cid_to_probe = probe_ids(tsx)
        m = re.search(r'^    local state=(\d+)$', self.script, re.M)
        if not m:
            self.note = 'no `local state=` line'
            return
        self.start = int(m.group(1))
        self.ok = True

    def model_outputs(self):
        outs = dict(self.outputs)
        for cid, k in self.cid_to_probe.items():
            outs[cid] = ''.join(l + '\n' for l in self.probes.get(k, []))
        return outs

    def model_request(self, variant):
        wb = DEFAULT_WORDBREAKS if self.wordbreaks is None else self.wordbreaks
        outs = '(outputs %s)' % ' '.join('(%d %s)' % (cid, sexp.quote(t)) for cid, t in sorted(self.model_outputs().items()))
        qs = ' '.join('(q %s %d %s (words %s) %s)' % (sexp.quote(wb), 1 if self.ignore_case else 0, outs,
                                                     ' '.join(sexp.quote(w) for w in ws), sexp.quote(p))
                      for ws, p in self.queries)
        return 'bashsem %s %d %s (queries %s)' % (variant, self.start, self.tables, qs)


def parse_model_result(sx, cid_to_probe):
    if not isinstance(sx, list) or not sx:
        return ('drivererror', str(sx))
    if sx[0] == 'ok':
        rc = int(sx[1])
        reply = [str(x) for x in sx[2][1:]]
        log = [(str(cid_to_probe.get(int(e[0]), 'cmd%s' % e[0])), str(e[1]), str(e[2])) for e in sx[3][1:]]
        return ('ok', rc, reply, log)
    if sx[0] == 'err':
        return ('err', str(sx[1]))
    if sx[0] == 'outoffuel':
        return ('outoffuel',)
    return ('drivererror', sexp.dump(sx))


def run_cases(cases, variant='auto'):
    for c in cases:
        c.prepare()
        if c.ok:
            c.variant = detect_variant(c.script) if variant == 'auto' else variant
    live = [c for c in cases if c.ok and c.queries]
    # 1. the model (one request line per case)
    reqs = [c.model_request(c.variant or 'pinned') for c in live]
    outs = model.run(reqs)
    for c, o in zip(live, outs):
        try:
            sx = sexp.parse(o)
        except Exception:
            sx = ['drivererror', o[:300]]
        c.results = [Res() for _ in c.queries]
        if isinstance(sx, list) and sx and sx[0] == 'drivererror':
            for r in c.results:
                r.model = ('drivererror', str(sx[1]) if len(sx) > 1 else '')
        else:
            for r, m in zip(c.results, sx):
                r.model = parse_model_result(m, c.cid_to_probe)
    # 2. real bash: everything the model finishes on in one batch, suspected hangs one by one
    jobs = []
    for c in live:
        idx = [i for i, r in enumerate(c.results) if r.model[0] != 'outoffuel']
        jobs.append((c, idx))
    res = bashrun.run_many([(c.script, [c.queries[i] for i in idx], c.cmd) for c, idx in jobs if idx],
                           wordbreaks_list=[c.wordbreaks for c, idx in jobs if idx])
    k = 0
    for c, idx in jobs:
        if not idx:
            continue
        results, _err = res[k]
        k += 1
        for i, b in zip(idx, results):
            c.results[i].bash = b
    # a batch that gave nothing for a query (timeout under load, or a hang the model did not predict) is
    # repeated for that query alone with a generous limit before it counts
    for c in live:
        for i, r in enumerate(c.results):
            if r.model[0] != 'outoffuel' and r.bash is None:
                results, _err = bashrun.run_queries(c.script, [c.queries[i]], cmd=c.cmd, wordbreaks=c.wordbreaks,
                                                    timeout=RETRY_TIMEOUT)
                r.bash = results[0]
    for c in live:
        for i, r in enumerate(c.results):
            if r.model[0] == 'outoffuel':
                results, _err = bashrun.run_queries(c.script, [c.queries[i]], cmd=c.cmd, wordbreaks=c.wordbreaks,
                                                    timeout=HANG_TIMEOUT)
                r.bash = results[0]
    # 3. compare
    for c in live:
        for r in c.results:
            m = r.model
            if m[0] == 'ok':
                b = r.bash
                if b is not None and (b['rc'], b['reply'], b['log']) == (m[1], m[2], m[3]):
                    r.status = 'agree'
                else:
                    r.status = 'mismatch'
            elif m[0] == 'outoffuel':
                r.status = 'hang-agree' if r.bash is None else 'mismatch'
            elif m[0] == 'err':
                r.status = 'skipped'
            else:
                r.status = 'mismatch'
    return cases


# ---------------------------------------------------------------------------------------------------
# primitives: the model's bash building blocks against real bash

GLOB_ALPHABET = ['a', 'b', '*', '?', '[', ']', '\\', '-', '!', '^', 'c']


def _bash_lines(script, items_files, timeout=120):
    """runs `script` (bash) with the given {name: [lines]} written to files $1.. ; returns stdout lines"""
    tmp = tempfile.mkdtemp(prefix='vfprim', dir=paths.CACHE)
    try:
        args = []
        for name, lines in items_files:
            p = os.path.join(tmp, name)
            open(p, 'w', encoding='latin-1', newline='').write(''.join(l + '\n' for l in lines))
            args.append(p)
        sp = os.path.join(tmp, 'p.sh')
        open(sp, 'w').write(script)
        r = subprocess.run(['bash', '--norc', sp] + args, stdout=subprocess.PIPE, stderr=subprocess.PIPE,
                           timeout=timeout, env={'LC_ALL': 'C', 'PATH': os.environ['PATH']})
        out = r.stdout.decode('latin-1')
        return out
    finally:
        import shutil
        shutil.rmtree(tmp, ignore_errors=True)


def _rand_text(rng, alphabet, maxlen):
    return ''.join(rng.choice(alphabet) for _ in range(rng.randint(0, maxlen)))


def primitives_tie(rng, n=2000):
    """-> (number of comparisons, list of mismatch descriptions)"""
    bad = []
    total = 0
    # --- [[ s == p ]] and the three removals
    pats = [_rand_text(rng, GLOB_ALPHABET, 6) for _ in range(n)]
    strs = [_rand_text(rng, ['a', 'b', 'c', '[', ']', '\\', '-', '*', '?', '!'], 5) for _ in range(n)]
    # patterns built from a string (as the script does: typed text + "*")
    for i in range(0, n, 3):
        s = strs[i]
        pats[i] = s[:rng.randint(0, len(s))] + rng.choice(['', '*'])
    # a pattern that ends in an unescaped backslash is outside what Model/Glob.v describes (bash then matches a literal
    # backslash; the script never builds such a pattern since 7d4f01b quotes the operands): keep the patterns inside the domain
    for i, pt in enumerate(pats):
        while (len(pt) - len(pt.rstrip('\\'))) % 2 == 1:
            pt = pt[:-1]
        pats[i] = pt
    script = r'''
mapfile -t P < "$1"; mapfile -t S < "$2"
for ((i = 0; i < ${#P[@]}; i++)); do
  p=${P[i]}; s=${S[i]}
  if [[ $s == $p ]]; then m=1; else m=0; fi
  printf '%s\x1f%s\x1f%s\x1f%s\x1e\n' "$m" "${s##$p}" "${s#$p}" "${s%$p}"
done
'''
    out = _bash_lines(script, [('p', pats), ('s', strs)])
    recs = out.split('\x1e\n')[:-1]
    reqs = ['globs (%s)' % ' '.join('(1 %s %s)' % (sexp.quote(p), sexp.quote(s)) for p, s in zip(pats, strs)),
            'rmpat (%s)' % ' '.join('(%s %s %s)' % (k, sexp.quote(p), sexp.quote(s))
                                    for p, s in zip(pats, strs)
                                    for k in ('longest_prefix', 'shortest_prefix', 'shortest_suffix'))]
    mo = model.run(reqs, shard=1)
    g = sexp.parse(mo[0])
    rm = sexp.parse(mo[1])
    if len(recs) != n:
        bad.append('glob batch: bash printed %d records for %d inputs' % (len(recs), n))
    else:
        for i, rec in enumerate(recs):
            f = rec.split('\x1f')
            total += 1
            if g[i][0] == 'some' and f[0] != g[i][1]:
                bad.append('[[ %r == %r ]]: bash %s, model %s' % (strs[i], pats[i], f[0], g[i][1]))
            for j, k in enumerate(('##', '#', '%')):
                r = rm[3 * i + j]
                total += 1
                if r[0] == 'some' and str(r[1]) != f[1 + j]:
                    bad.append('${x%sp} x=%r p=%r: bash %r, model %r' % (k, strs[i], pats[i], f[1 + j], str(r[1])))
    # --- printf %q on printable ASCII
    qs = [''.join(chr(rng.randint(32, 126)) for _ in range(rng.randint(1, 6))) for _ in range(n // 4)]
    qs += [chr(c) for c in range(32, 127)] + ['x' + chr(c) for c in range(32, 127)] + ['=~', ':~', '~~', '##', 'a#']
    out = _bash_lines('mapfile -t S < "$1"; for s in "${S[@]}"; do printf \'%q\\n\' "$s"; done', [('s', qs)])
    got = out.split('\n')[:-1]
    mo = sexp.parse(model.run(['printfq (%s)' % ' '.join(sexp.quote(s) for s in qs)], shard=1)[0])
    for s, b, m in zip(qs, got, mo):
        total += 1
        if m[0] != 'some' or str(m[1]) != b:
            bad.append('printf %%q %r: bash %r, model %s' % (s, b, sexp.dump(m)))
    # --- cmd | while read -r f1 _; do echo "$f1"; done ; readarray -t
    pieces = ['12', '7', '-5', '3.5', '3.25', '007', '1a', '.5', '-.5', '10', '9', '-0', 'a', 'b c', 'x\ty', '-n', '-e', '-E', '-ne', '-nx', '-', '', ' lead', '\ttab', 'a*', 'q?', 'last', '--', '-n -e', 'zz ']
    outs = []
    for _ in range(n // 4):
        ls = [rng.choice(pieces) for _ in range(rng.randint(0, 5))]
        t = ''.join(l + '\n' for l in ls)
        if ls and rng.random() < 0.2:
            t = t[:-1]
        outs.append(t)
    script = r'''
n=$1; shift
for ((i = 0; i < n; i++)); do
  readarray -t A < <(cat "$2.$i" | while read -r f1 _; do echo "$f1"; done)
  printf '%s' "${#A[@]}"; for a in "${A[@]}"; do printf '\x1f%s' "$a"; done; printf '\x1e\n'
  if [[ ${#A[@]} -gt 0 ]]; then
    indexes=($(for j in "${!A[@]}"; do printf '%s %s %s\n' $j "${#A[j]}" "${A[j]}"; done | sort -nrk2,2 -rk3 | cut -f1 -d' '))
    printf 'S'; for j in "${indexes[@]}"; do printf '\x1f%s' "${A[j]}"; done; printf '\x1e\n'
  else
    printf 'S\x1e\n'
  fi
done
'''
    tmp = tempfile.mkdtemp(prefix='vfprim', dir=paths.CACHE)
    try:
        for i, t in enumerate(outs):
            open(os.path.join(tmp, 'o.%d' % i), 'w', encoding='latin-1', newline='').write(t)
        sp = os.path.join(tmp, 'p.sh')
        open(sp, 'w').write(script)
        r = subprocess.run(['bash', '--norc', sp, str(len(outs)), 'x', os.path.join(tmp, 'o')], stdout=subprocess.PIPE,
                           stderr=subprocess.PIPE, timeout=300, env={'LC_ALL': 'C', 'PATH': os.environ['PATH']})
        recs = r.stdout.decode('latin-1').split('\x1e\n')[:-1]
    finally:
        import shutil
        shutil.rmtree(tmp, ignore_errors=True)
    mo = sexp.parse(model.run(['filterlines (%s)' % ' '.join(sexp.quote(t) for t in outs)], shard=1)[0])
    msorted = sexp.parse(model.run(['sortdesc (%s)' % ' '.join('(%s)' % ' '.join(sexp.quote(str(x)) for x in m) for m in mo)],
                                   shard=1)[0])
    if len(recs) != 2 * len(outs):
        bad.append('filter batch: bash printed %d records for %d inputs' % (len(recs), len(outs)))
    else:
        for i, t in enumerate(outs):
            f = recs[2 * i].split('\x1f')
            arr = f[1:]
            total += 1
            if [str(x) for x in mo[i]] != arr:
                bad.append('filter_lines %r: bash %r, model %r' % (t, arr, [str(x) for x in mo[i]]))
            srt = recs[2 * i + 1].split('\x1f')[1:]
            total += 1
            if [str(x) for x in msorted[i]] != srt:
                bad.append('sort_desc %r: bash %r, model %r' % (arr, srt, [str(x) for x in msorted[i]]))
    # --- associative array key order
    keysets = []
    for _ in range(n // 8):
        ks = rng.sample(range(0, 400), rng.randint(1, 8))
        keysets.append(ks)
    lines = [' '.join('[%d]=%d' % (k, j) for j, k in enumerate(ks)) for ks in keysets]
    script = r'''
mapfile -t L < "$1"
declare -A src
i=0
for l in "${L[@]}"; do src[$i]="($l)"; i=$((i+1)); done
f () { local -A a=${src[$1]}; echo "${!a[@]}"; }
for ((i = 0; i < ${#L[@]}; i++)); do f $i; done
'''
    out = _bash_lines(script, [('l', lines)])
    got = out.split('\n')[:-1]
    mo = sexp.parse(model.run(['assockeys (%s)' % ' '.join('(%s)' % ' '.join(str(k) for k in ks) for ks in keysets)], shard=1)[0])
    for ks, b, m in zip(keysets, got, mo):
        total += 1
        if b.split() != [str(x) for x in m]:
            bad.append('assoc key order for insertion %r: bash %r, model %r' % (ks, b, [str(x) for x in m]))
    if len(got) != len(keysets):
        bad.append('assoc batch: bash printed %d lines for %d inputs' % (len(got), len(keysets)))
    return total, bad
