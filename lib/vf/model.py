"""Runs the extracted Coq model (ocaml/_build/default/main.exe): one request per line."""
import subprocess
from concurrent.futures import ThreadPoolExecutor

from . import paths


def run(requests, timeout=900, shard=None):
    """requests: list of str lines ('<cmd> <sexp> ...').  Returns list of str result lines.
    The OCaml stack is raised (ulimit -s) because extracted code is not tail-recursive."""
    n = len(requests)
    if n == 0:
        return []
    shard = shard or max(1, (n + paths.NCPU - 1) // paths.NCPU)
    chunks = [requests[i:i + shard] for i in range(0, n, shard)]

    def work(lines):
        data = ('\n'.join(lines) + '\n').encode('latin-1')
        p = subprocess.run(['bash', '-c', 'ulimit -s 1000000 2>/dev/null || ulimit -s unlimited 2>/dev/null; exec "$0"', paths.MODEL_EXE],
                           input=data, stdout=subprocess.PIPE, stderr=subprocess.PIPE, timeout=timeout)
        out = p.stdout.decode('latin-1').split('\n')
        if out and out[-1] == '':
            out.pop()
        if len(out) != len(lines):
            # the process died: pad so that the caller sees which request killed it
            out += ['(drivererror "model process died rc=%d")' % p.returncode] * (len(lines) - len(out))
        return out

    with ThreadPoolExecutor(max_workers=paths.NCPU) as ex:
        parts = list(ex.map(work, chunks))
    return [x for part in parts for x in part]
