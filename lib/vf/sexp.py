"""S-expressions in the format shared by cg-dump (Rust), the OCaml model driver and the checks.

Atoms are `str`; quoted strings are `Q` (a bytes-preserving str subclass, latin-1 decoded so
that every byte survives); lists are Python lists."""


class Q(str):
    """A quoted string (as opposed to a bare atom)."""
    __slots__ = ()

    def __repr__(self):
        return 'Q(%s)' % str.__repr__(self)


def parse_all(s):
    n = len(s)
    pos = 0
    stack = [[]]
    while pos < n:
        c = s[pos]
        if c in ' \n':
            pos += 1
        elif c == '(':
            stack.append([])
            pos += 1
        elif c == ')':
            top = stack.pop()
            stack[-1].append(top)
            pos += 1
        elif c == '"':
            pos += 1
            out = []
            while True:
                c = s[pos]
                if c == '"':
                    pos += 1
                    break
                if c == '\\':
                    d = s[pos + 1]
                    if d == 'n':
                        out.append('\n'); pos += 2
                    elif d == 't':
                        out.append('\t'); pos += 2
                    elif d == 'x':
                        out.append(chr(int(s[pos + 2:pos + 4], 16))); pos += 4
                    else:
                        out.append(d); pos += 2
                else:
                    out.append(c); pos += 1
            stack[-1].append(Q(''.join(out)))
        else:
            start = pos
            while pos < n and s[pos] not in ' ()\n':
                pos += 1
            stack[-1].append(s[start:pos])
    if len(stack) != 1:
        raise ValueError('unbalanced s-expression: %r' % s[:80])
    return stack[0]


def parse(s):
    vals = parse_all(s)
    if len(vals) != 1:
        raise ValueError('expected one s-expression, got %d: %r' % (len(vals), s[:80]))
    return vals[0]


def quote(s):
    out = ['"']
    for ch in s:
        o = ord(ch)
        if ch == '\\':
            out.append('\\\\')
        elif ch == '"':
            out.append('\\"')
        elif ch == '\n':
            out.append('\\n')
        elif ch == '\t':
            out.append('\\t')
        elif 0x20 <= o <= 0x7e:
            out.append(ch)
        else:
            if o > 0xff:
                raise ValueError('non-latin-1 character in Q string')
            out.append('\\x%02x' % o)
    out.append('"')
    return ''.join(out)


def dump(v):
    if isinstance(v, Q):
        return quote(v)
    if isinstance(v, str):
        return v
    if isinstance(v, int):
        return str(v)
    return '(' + ' '.join(dump(x) for x in v) + ')'
