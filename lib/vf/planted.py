"""Clean-by-construction grammars with at most one planted, located mistake or warning.

Used by C06 (as mutation seeds), C08 (verdict + diagnostic class), C13 (reported position),
C14 (re-layout), C15 (warning sets).

A clean grammar uses a fresh literal text for every leaf (so no two expectations can clash),
undefined placeholders only directly after a literal (never two at one point), placeholders
inside a word only as the last item, shell-specific definitions only for names whose plain
definition (if any) is a command.
"""
import re

SHELLS = ['bash', 'fish', 'zsh', 'pwsh']

# first diagnostic line fragment per class (src/main.rs handle_error)
DIAG = {
    'ParseError': 'error: Parse error',
    'MissingCallVariants': 'Grammar needs to contain at least one call variant',
    'InvalidCommandName': 'error: Invalid command name',
    'VaryingCommandNames': 'error: Varying command names:',
    'NonterminalDefinitionsCycle': 'error: Nonterminal definitions cycle',
    'DuplicateNonterminalDefinition': 'error: Duplicate nonterminal definition',
    'UnknownShell': 'error: Unknown shell',
    'NonCommandSpecialization': 'error: Can only specialize external commands',
    'SubwordSpaces': 'error: Adjacent literals in expression used in a subword context',
    'UnboundedMatchable': 'error: Ambiguous grammar',
    'AmbiguousDFA': 'error: DFA Ambiguity:',
    'ConflictingDescriptions': 'error: Conflicting descriptions:',
}


class Fresh:
    def __init__(self, rng):
        self.r = rng
        self.n = 0

    def lit(self, prefix='l'):
        self.n += 1
        return '%s%d' % (prefix, self.n)

    def name(self, prefix='N'):
        self.n += 1
        return '%s%d' % (prefix, self.n)


class Clean:
    """Random clean grammar as a list of statement strings (single spaces between tokens)."""

    def __init__(self, rng, depth=3):
        self.r = rng
        self.f = Fresh(rng)
        self.depth = depth
        self.defs = []          # (name, shell|None, rhs text)
        self.pending = []       # names referenced, to be defined (or left undefined)
        self.undefined = []     # names deliberately left undefined
        self.cmdno = 0

    def cmd(self):
        self.cmdno += 1
        return '{{{ echo c%d }}}' % self.cmdno

    def descr(self, t):
        k = self.r.random()
        if k < 0.7:
            return '"descr of %s"' % t
        if k < 0.85:
            return '"the \\"%s\\" one"' % t
        return '"back\\\\slash %s"' % t

    def item(self, d):
        r = self.r
        x = r.random()
        if d <= 0 or x < 0.35:
            k = r.random()
            if k < 0.5:
                t = self.f.lit()
                if r.random() < 0.25:
                    t += ' ' + self.descr(t)
                return t
            if k < 0.6:
                return self.cmd()
            if k < 0.75:
                # undefined placeholder, guarded by a fresh literal
                n = self.f.name('U')
                self.undefined.append(n)
                return '%s <%s>' % (self.f.lit(), n)
            if k < 0.9:
                n = self.f.name('D')
                self.pending.append(n)
                return '<%s>' % n
            return self.word()
        if x < 0.55:
            return ' '.join(self.item(d - 1) for _ in range(r.choice([2, 3])))
        if x < 0.7:
            return '(' + ' | '.join(self.item(d - 1) for _ in range(r.choice([2, 3]))) + ')'
        if x < 0.8:
            return '(' + ' || '.join(self.item(d - 1) for _ in range(r.choice([2, 3]))) + ')'
        if x < 0.9:
            return '[' + self.item(d - 1) + ']'
        return '(' + self.item(d - 1) + ')...'

    def word(self):
        r = self.r
        pre = self.f.lit('--w') + '='
        k = r.random()
        if k < 0.4:
            return pre + '(' + ' | '.join(self.f.lit('v') for _ in range(r.choice([2, 3]))) + ')'
        if k < 0.5:
            # glued literals, the last one described
            v = self.f.lit('v')
            return pre + '[' + self.f.lit('g') + ']' + v + ' ' + self.descr(v)
        if k < 0.7:
            return pre + self.cmd()
        if k < 0.85:
            n = self.f.name('U')
            self.undefined.append(n)
            return pre + '<%s>' % n
        if k < 0.92:
            return pre + '(' + self.f.lit('v') + ' || ' + self.f.lit('v') + ')'
        # a placeholder that is the last item of the word in its own branch, beside longer alternatives
        # (used to be rejected as "Ambiguous grammar": finding N2 placeholder_beside_longer_alternative_rejected)
        def ph():
            n = self.f.name('U')
            self.undefined.append(n)
            return '<%s>' % n

        def longer(d):
            j = r.random()
            a = self.f.lit('a')
            if d <= 0 or j < 0.35:
                return a + '(' + self.f.lit('b') + '|' + self.f.lit('c') + ')'
            if j < 0.55:
                return a + '[' + self.f.lit('b') + ']'
            if j < 0.75:
                return a + ph()
            # nested: another choice with a placeholder branch further inside
            return a + '(' + '|'.join(r.sample([ph(), longer(d - 1)], 2)) + ')'

        def ph_def():
            # the placeholder reached through a definition: <D> ::= <U>;  or  <D> ::= (<U> | a(b|c));
            n = self.f.name('D')
            rhs = ph() if r.random() < 0.5 else '(' + ' | '.join(r.sample([ph(), longer(0)], 2)) + ')'
            self.defs.append((n, None, rhs))
            return '<%s>' % n

        alts = [ph_def() if r.random() < 0.3 else ph(), longer(2)]
        if r.random() < 0.3:
            alts.append(self.f.lit('d'))
        r.shuffle(alts)
        return pre + '(' + '|'.join(alts) + ')'

    def build(self, cmd='cmd', nvariants=None):
        r = self.r
        nvariants = nvariants or r.choice([1, 1, 1, 2])
        stmts = ['%s %s;' % (cmd, self.item(self.depth)) for _ in range(nvariants)]
        budget = 6
        while self.pending:
            n = self.pending.pop()
            if budget <= 0:
                self.undefined.append(n)
                continue
            budget -= 1
            k = r.random()
            if k < 0.6:
                self.defs.append((n, None, self.item(min(2, self.depth - 1))))
            elif k < 0.8:
                self.defs.append((n, None, self.cmd()))
                if r.random() < 0.5:
                    self.defs.append((n, r.choice(SHELLS), self.cmd()))
            else:
                for sh in r.sample(SHELLS, r.choice([1, 2])):
                    self.defs.append((n, sh, self.cmd()))
        ds = ['<%s> ::= %s;' % (n if sh is None else n + '@' + sh, rhs) for n, sh, rhs in self.defs]
        r.shuffle(ds)
        return stmts + ds


# ---------------------------------------------------------------------------------------------
# planted mistakes: each returns (statements, class, marker) where marker is a unique substring
# whose first occurrence in the final text is where the first diagnostic must point (or None)

def plant(rng, kind, cmd='cmd'):
    c = Clean(rng, depth=rng.choice([1, 2, 3]))
    stmts = c.build(cmd)
    f = c.f
    chain = rng.choice([0, 1, 2])          # number of definitions between the call variant and the mistake

    def through_defs(text):
        """Hook `text` under the call variant through `chain` fresh definitions."""
        out = []
        cur = text
        for _ in range(chain):
            n = f.name('H')
            out.append('<%s> ::= %s;' % (n, cur))
            cur = '%s <%s>' % (f.lit(), n)
        return cur, out

    if kind == 'clean':
        return stmts, None, None
    if kind == 'cycle_rooted':
        a, b = f.name('CY'), f.name('CY')
        use, extra = through_defs('<%s>' % a)
        stmts[0] = stmts[0][:-1] + ' ' + use + ';'
        return stmts + extra + ['<%s> ::= %s <%s>;' % (a, f.lit(), b), '<%s> ::= [<%s>] %s;' % (b, a, f.lit())], 'NonterminalDefinitionsCycle', None
    if kind == 'cycle_unrooted':
        a, b = f.name('CY'), f.name('CY')
        return stmts + ['<%s> ::= %s <%s>;' % (a, f.lit(), b), '<%s> ::= <%s> | %s;' % (b, a, f.lit())], 'NonterminalDefinitionsCycle', None
    if kind == 'cycle_self':
        a = f.name('CY')
        extra = ['<%s> ::= %s [<%s>];' % (a, f.lit(), a)]
        if rng.random() < 0.5:
            stmts[0] = stmts[0][:-1] + ' <%s>;' % a
        return stmts + extra, 'NonterminalDefinitionsCycle', None
    if kind == 'dup_plain':
        a = f.name('DUP')
        stmts[0] = stmts[0][:-1] + ' [<%s>];' % a
        sec = f.lit('second')
        second = '<%s> ::= %s;' % (a, sec)
        return stmts + ['<%s> ::= %s;' % (a, f.lit()), second], 'DuplicateNonterminalDefinition', ('before', sec, '<%s>' % a)
    if kind == 'dup_shell':
        a = f.name('DUP')
        sh = rng.choice(SHELLS)
        stmts[0] = stmts[0][:-1] + ' [<%s>];' % a
        return stmts + ['<%s@%s> ::= %s;' % (a, sh, c.cmd()), '<%s@%s> ::= %s;' % (a, sh, c.cmd())], ('DuplicateNonterminalDefinition', sh), ('nth', '<%s@%s>' % (a, sh), 2)
    if kind == 'varying_names':
        other = cmd + 'x'
        st = '%s %s;' % (other, f.lit())
        pos = rng.randint(1, len(stmts))
        return stmts[:pos] + [st] + stmts[pos:], 'VaryingCommandNames', cmd
    if kind == 'no_call_variant':
        ds = [s for s in stmts if s.startswith('<')]
        return ds, 'MissingCallVariants', None
    if kind == 'slash':
        name = rng.choice(['a/b', '/usr/bin/x', 'x/'])
        return [s.replace(cmd + ' ', name + ' ', 1) if not s.startswith('<') else s for s in stmts], 'InvalidCommandName', name
    if kind == 'unknown_shell':
        a = f.name('S')
        bad = rng.choice(['csh', 'Bash', 'powershell', 'sh'])
        if rng.random() < 0.5:
            stmts[0] = stmts[0][:-1] + ' <%s>;' % a
        return stmts + ['<%s@%s> ::= %s;' % (a, bad, c.cmd())], 'UnknownShell', ('offset', '<%s@%s>' % (a, bad), len(a) + 2)
    if kind == 'non_command_spec':
        a = f.name('S')
        sh = rng.choice(SHELLS)
        lit = f.lit('notcmd')
        if rng.random() < 0.5:
            stmts[0] = stmts[0][:-1] + ' <%s>;' % a
        return stmts + ['<%s@%s> ::= %s;' % (a, sh, lit)], 'NonCommandSpecialization', lit
    if kind == 'non_command_plain_of_spec':
        # a plain non-command definition of a name that has a definition for some shell: rejected
        # only when that shell is the target
        a = f.name('S')
        sh = rng.choice(SHELLS)
        lit = f.lit('notcmd')
        stmts[0] = stmts[0][:-1] + ' <%s>;' % a
        return stmts + ['<%s@%s> ::= %s;' % (a, sh, c.cmd()), '<%s> ::= %s %s;' % (a, lit, f.lit())], ('NonCommandSpecialization', sh), lit
    if kind == 'subword_spaces':
        l1, l2 = f.lit('sp'), f.lit('sp')
        pre = f.lit('--p') + '='
        variant = rng.choice(['written', 'written_alt', 'through_def', 'nested_left'])
        if variant in ('written', 'written_alt'):
            # the word is written out (`--p=(a b)`), and sits in the call variant or behind whole-word references
            w = '%s(%s %s)' % (pre, l1, l2) if variant == 'written' else '%s(%s | %s %s)' % (pre, f.lit('v'), l1, l2)
            use, extra = through_defs(w)
            stmts[0] = stmts[0][:-1] + ' ' + use + ';'
            return stmts + extra, 'SubwordSpaces', l1
        # the spaces come from a definition that is referenced inside a word
        n = f.name('W')
        inner, extra = '%s %s' % (l1, l2), []
        if variant == 'nested_left':
            inner = '(%s %s) %s' % (c.cmd(), l1, l2)     # the left operand starts with something else
        for _ in range(chain):
            m = f.name('H')
            extra.append('<%s> ::= %s;' % (m, inner))
            inner = '<%s>' % m
        use, extra2 = through_defs('%s<%s>' % (pre, n)) if rng.random() < 0.5 else ('%s<%s>' % (pre, n), [])
        # the same definition may also be referenced as a whole word (where spaces are fine) BEFORE its use inside a word
        whole = ('<%s> ' % n) if rng.random() < 0.4 else ''
        stmts[0] = stmts[0][:-1] + ' ' + whole + use + ';'
        return stmts + extra + extra2 + ['<%s> ::= %s;' % (n, inner)], 'SubwordSpaces', l1
    if kind == 'subword_spaces_root_refs':
        # two space-separated items inside a word whose literal edges are only visible through the
        # definitions of nonterminals referenced in the word itself: p(<A> <B>), p(<A> b), p(a <B>)
        # (with chain == 0 the word sits in the call variant, which is checked before it is resolved)
        l1, l2 = f.lit('sp'), f.lit('sp')
        pre = f.lit('--p') + '='
        a, b = f.name('RA'), f.name('RB')
        extra = []

        def define(name, lit, left):
            # the definition ends (left operand) / starts (right operand) with the literal, possibly
            # behind one more definition
            body = lit
            k = rng.random()
            if k < 0.25:
                body = ('%s %s' % (c.cmd(), lit)) if left else ('%s [%s]' % (lit, f.lit()))
            elif k < 0.5:
                m = f.name('RD')
                extra.append('<%s> ::= %s;' % (m, lit))
                body = '<%s>' % m
            extra.append('<%s> ::= %s;' % (name, body))

        shape = rng.choice(['rr', 'rl', 'lr'])
        if shape == 'rr':
            define(a, l1, True); define(b, l2, False)
            inner = '<%s> <%s>' % (a, b)
        elif shape == 'rl':
            define(a, l1, True)
            inner = '<%s> %s' % (a, l2)
        else:
            define(b, l2, False)
            inner = '%s <%s>' % (l1, b)
        w = '%s(%s)' % (pre, inner) if rng.random() < 0.7 else '%s(%s | %s)' % (pre, f.lit('v'), inner)
        if rng.random() < 0.6:
            use, extra2 = w, []
        else:
            use, extra2 = through_defs(w)
        stmts[0] = stmts[0][:-1] + ' ' + use + ';'
        return stmts + extra + extra2, 'SubwordSpaces', l1
    if kind == 'placeholder_not_last':
        u = f.name('U')
        tail = f.lit('tail')
        w = '<%s>%s' % (u, tail) if rng.random() < 0.5 else '%s<%s>%s' % (f.lit('--q') + '=', u, tail)
        use, extra = through_defs(w)
        stmts[0] = stmts[0][:-1] + ' ' + use + ';'
        return stmts + extra, 'UnboundedMatchable', '<%s>' % u
    if kind == 'conflicting_descriptions':
        l = f.lit('same')
        # the clash sits among 0-3 sibling literals of the same state that sort before / after it (the check walks a sorted
        # list of the state's (literal, description) pairs), and one of the two descriptions may be absent
        d1, d2 = rng.choice([('"first descr"', '"second descr"'), ('"first descr"', ''), ('', '"second descr"')])
        sib = []
        for _ in range(rng.choice([0, 1, 1, 2, 3])):
            sib.append(rng.choice(['--aa%d', 'zz%d', 'Aa%d', 'sa%d']) % rng.randrange(100))
        alts = ['%s %s %s' % (l, d1, f.lit()), '%s %s %s' % (l, d2, f.lit())] + sib
        rng.shuffle(alts)
        w = '(%s)' % ' | '.join(a.replace('  ', ' ') for a in alts)
        use, extra = through_defs(w)
        stmts[0] = stmts[0][:-1] + ' ' + use + ';'
        return stmts + extra, 'ConflictingDescriptions', None
    if kind == 'parse_error':
        # only junk that cannot be closed by later text (no quotes, no `<`, no `{{{`)
        bad = rng.choice(['(', ')', ']', '[', '\\q', '|', '||', '...'])
        pe = f.lit('pe')
        junk = '%s %s;' % (pe, bad)
        pos = rng.randint(1, len(stmts))
        marker = pe
        return stmts[:pos] + [junk] + stmts[pos:], 'ParseError', marker
    raise ValueError(kind)


MISTAKES = ['cycle_rooted', 'cycle_unrooted', 'cycle_self', 'dup_plain', 'dup_shell', 'varying_names',
            'no_call_variant', 'slash', 'unknown_shell', 'non_command_spec', 'non_command_plain_of_spec',
            'subword_spaces', 'subword_spaces_root_refs', 'placeholder_not_last', 'conflicting_descriptions',
            'parse_error']


def expected_class(cls, shell):
    """The planted class for this target shell (None = must be accepted)."""
    if isinstance(cls, tuple):
        return cls[0] if cls[1] == shell else None
    return cls


# ---------------------------------------------------------------------------------------------
# layout

def tokens_spaces(text):
    """Indices of the single spaces of `text` that are token boundaries (outside descriptions,
    commands and nonterminal names)."""
    out = []
    i, n = 0, len(text)
    while i < n:
        if text.startswith('{{{', i):
            j = text.find('}}}', i)
            i = n if j < 0 else j + 3
        elif text[i] == '"':
            j = i + 1
            while j < n and text[j] != '"':
                j += 2 if text[j] == '\\' else 1
            i = j + 1
        elif text[i] == '<':
            j = text.find('>', i)
            i = n if j < 0 else j + 1
        elif text[i] == '\\':
            i += 2
        else:
            if text[i] == ' ':
                out.append(i)
            i += 1
    return out


def tokens_joints(text):
    """Zero-width token boundaries of `text` where blank material may be inserted without changing the tree
    (outside descriptions, commands, nonterminal names and escapes): before a postfix `...`, after `(`/`[`,
    before `)`/`]`, before `;`.  -> list of indices (insert before text[i])."""
    out = []
    i, n = 0, len(text)
    while i < n:
        if text.startswith('{{{', i):
            j = text.find('}}}', i)
            i = n if j < 0 else j + 3
        elif text[i] == '"':
            j = i + 1
            while j < n and text[j] != '"':
                j += 2 if text[j] == '\\' else 1
            i = j + 1
        elif text[i] == '<':
            j = text.find('>', i)
            i = n if j < 0 else j + 1
        elif text[i] == '\\':
            i += 2
        elif text.startswith('...', i):
            if i > 0 and text[i - 1] != ' ':
                out.append(i)
            i += 3
        else:
            if text[i] in '([' and i + 1 < n and text[i + 1] != ' ':
                out.append(i + 1)
            elif text[i] in ')];' and i > 0 and text[i - 1] != ' ':
                out.append(i)
            i += 1
    return out


def relayout(stmts, rng, heavy=False):
    """Joins statements with random blank material at token boundaries: spaces, tabs, newlines,
    form feeds, # comments, blank lines; `::=` or `=`; last `;` optionally dropped."""
    def blank(minimal_ok=True):
        k = rng.random()
        if k < 0.45:
            return ' '
        if k < 0.6:
            return '  \t '
        if k < 0.8:
            return '\n    '
        if k < 0.9:
            return ' # comment (with "quotes" and ; | )\n  '
        if k < 0.95:
            return '\n\n\x0c\n '
        return ' \r\n '
    out = []
    for si, st in enumerate(stmts):
        if rng.random() < 0.5:
            st = st.replace(' ::= ', ' = ', 1)
        idx = [(i, 1) for i in tokens_spaces(st)] + [(i, 0) for i in tokens_joints(st)]
        idx.sort()
        parts = []
        last = 0
        for i, width in idx:
            parts.append(st[last:i])
            if width:
                parts.append(blank() if (heavy or rng.random() < 0.3) else ' ')
            elif rng.random() < (0.35 if heavy else 0.1):
                parts.append(blank())
            last = i + width
        parts.append(st[last:])
        out.append(''.join(parts))
    sep = []
    text = ''
    for i, st in enumerate(out):
        if i:
            k = rng.random()
            text += '\n' if k < 0.6 else ('\n\n# section\n' if k < 0.8 else ' ')
        text += st
    if rng.random() < 0.3 and text.endswith(';'):
        text = text[:-1]
    text += rng.choice(['\n', '', '\n\n', ' # trailing comment'])
    if rng.random() < 0.2:
        text = rng.choice(['\n', '# header comment\n', '  \n\x0c\n']) + text
    return text


def position_of(text, marker):
    """(line, byte column), 1-based, of the construct designated by marker:
    str: first occurrence; ('before', anchor, target): last `target` before the first `anchor`;
    ('nth', target, k): k-th occurrence; ('offset', target, n): first occurrence + n bytes."""
    b = text.encode('latin-1') if isinstance(text, str) else text
    enc = lambda x: x.encode('latin-1') if isinstance(x, str) else x
    if isinstance(marker, tuple) and marker[0] == 'before':
        a = b.find(enc(marker[1]))
        i = b.rfind(enc(marker[2]), 0, a) if a >= 0 else -1
    elif isinstance(marker, tuple) and marker[0] == 'nth':
        i = -1
        for _ in range(marker[2]):
            i = b.find(enc(marker[1]), i + 1)
            if i < 0:
                break
    elif isinstance(marker, tuple) and marker[0] == 'offset':
        i = b.find(enc(marker[1]))
        i = i + marker[2] if i >= 0 else -1
    else:
        i = b.find(enc(marker))
    if i < 0:
        return None
    line = b.count(b'\n', 0, i) + 1
    col = i - (b.rfind(b'\n', 0, i) + 1) + 1
    return line, col


LOC = re.compile(rb'^([^:\n]*):(\d+):(\d+):(error|warning)(?:: (.*))?$', re.M)


def diagnostics(stderr):
    """[(line, col, kind, label)] of every located message in the binary's stderr, plus the raw first line."""
    return [(int(m.group(2)), int(m.group(3)), m.group(4).decode(), (m.group(5) or b'').decode('latin-1'))
            for m in LOC.finditer(stderr)]


def warn_case(rng):
    """A clean grammar enriched with warning material: unused plain definitions, unused definitions
    for some shells, undefined names used directly / inside words / through used and unused
    definitions, `<_>`, built-in names with and without definitions.  Returns statements."""
    c = Clean(rng, depth=rng.choice([1, 2, 3]))
    stmts = c.build()
    f = c.f
    extra = []
    for _ in range(rng.choice([1, 2, 3, 4])):
        k = rng.random()
        n = f.name('X')
        if k < 0.2:      # unused plain definition (possibly referring to further names)
            extra.append('<%s> ::= %s <%s>;' % (n, f.lit(), f.name('UU')))
        elif k < 0.35:   # unused definitions for one or two shells
            for sh in rng.sample(SHELLS, rng.choice([1, 2])):
                extra.append('<%s@%s> ::= %s;' % (n, sh, c.cmd()))
        elif k < 0.5:    # used only through an unused definition
            m = f.name('Y')
            extra.append('<%s> ::= %s [<%s>];' % (m, f.lit(), n))
            if rng.random() < 0.5:
                extra.append('<%s> ::= %s;' % (n, f.lit()))
        elif k < 0.65:   # undefined, used inside a word through a used definition
            m = f.name('Y')
            stmts[0] = stmts[0][:-1] + ' [<%s>];' % m
            extra.append('<%s> ::= %s=<%s>;' % (m, f.lit('--z'), n))
        elif k < 0.75:   # the exempt placeholder
            stmts[0] = stmts[0][:-1] + ' %s <_>;' % f.lit()
        elif k < 0.85:   # built-in names, referenced directly or from inside another definition
            b = rng.choice(['PATH', 'DIRECTORY'])
            if rng.random() < 0.5:
                stmts[0] = stmts[0][:-1] + ' %s <%s>;' % (f.lit(), b)
            else:
                m = rng.choice(['FILE', 'OUTPUT', 'LOG', 'OPT', 'ROOT', 'THING', 'OPTION', 'ARG', 'NAME', 'VALUE']) + str(f.n)
                m = m if rng.random() < 0.5 else m.rstrip('0123456789')
                if not any(e.startswith('<%s>' % m) for e in extra):
                    stmts[0] = stmts[0][:-1] + ' [<%s>];' % m
                    extra.append('<%s> ::= %s <%s>;' % (m, f.lit(), b))
            if rng.random() < 0.5 and not any(e.startswith('<%s>' % b) for e in extra):
                extra.append('<%s> ::= %s;' % (b, c.cmd() if rng.random() < 0.5 else f.lit('own') + ' | ' + f.lit('own')))
        elif k < 0.93:   # the same undefined name used twice
            stmts[0] = stmts[0][:-1] + ' %s <%s> %s <%s>;' % (f.lit(), n, f.lit(), n)
        else:            # defined for another shell only
            sh = rng.choice(SHELLS)
            stmts[0] = stmts[0][:-1] + ' %s <%s>;' % (f.lit(), n)
            extra.append('<%s@%s> ::= %s;' % (n, sh, c.cmd()))
    rng.shuffle(extra)
    return stmts + extra
