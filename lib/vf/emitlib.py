"""Shared helpers of the emit work package (C07, C04): script text handling, where the data
statements of each emitter sit, running real bash on an emitted script."""
import os
import re
import subprocess
import tempfile
from concurrent.futures import ThreadPoolExecutor

from . import paths, sexp

SHELLS = ['bash', 'fish', 'zsh', 'pwsh']
ARRAY_START = {'bash': 0, 'fish': 1, 'zsh': 1, 'pwsh': 0}


def script_of(stage_payload):
    """SCRIPT payload -> text (latin-1 str, one char per byte) or None when the emitter failed."""
    if stage_payload is None or not stage_payload.startswith('"'):
        return None
    return str(sexp.parse(stage_payload))


def b2s(b):
    """bytes -> one-char-per-byte str (the representation used for everything read from cg-dump)."""
    return b.decode('latin-1')


def s2b(s):
    return s.encode('latin-1')


def u2s(text):
    """python unicode str -> one-char-per-byte str of its UTF-8 encoding"""
    return text.encode('utf-8').decode('latin-1')


def lit_order(texts):
    """dfa.rs get_top_level_literals_decreasing_length for pairwise distinct texts: sorted by
    (byte length, bytes), reversed."""
    return sorted(texts, key=lambda t: (len(t), t), reverse=True)


# where string constants sit: (kind, line-anchored prefix regex, separator or None, terminator)
CONST_STATEMENTS = {
    'bash': [('lits', r'^    local -a literals=\(', ' ', ')\n')],
    'fish': [('lits', r'^    set (?:--global subword_)?literals ?', ' ', '\n'),
             ('descr', r'^    set (?:--global subword_)?descrs\[\d+\] ', None, '\n')],
    'zsh': [('lits', r'^    declare -a (?:subword_)?literals=\(', ' ', ')\n'),
            ('descr', r'^    (?:subword_)?descriptions\[\d+\]=', None, '\n')],
    'pwsh': [('lits', r'^    \$literals = @\(', ', ', ')\n'),
             ('descr', r'^        \d+ = ', None, ';\n')],
}


def find_const_statements(shell, text):
    """-> [(kind, sep, terminator, start_of_prefix, end_of_prefix)] in script order"""
    out = []
    for kind, rx, sep, term in CONST_STATEMENTS[shell]:
        for m in re.finditer(rx, text, re.M):
            out.append((kind, sep, term, m.start(), m.end()))
    out.sort(key=lambda x: x[3])
    return out


STUB = '''_get_comp_words_by_ref () { words=("${COMP_WORDS[@]}"); cword=$COMP_CWORD; }
'''

DRIVER = STUB + r'''
COMP_WORDBREAKS=$' \t\n"\'@><=;|&(:'
source "$1" || { printf 'SOURCE-FAILED\0'; exit 3; }
while IFS= read -r -d '' n; do
    COMP_WORDS=()
    for ((i = 0; i < n; i++)); do IFS= read -r -d '' w; COMP_WORDS+=("$w"); done
    COMP_CWORD=$((n - 1))
    COMPREPLY=()
    "_$2" 2>/dev/null
    rc=$?
    printf '%s\0' "Q" "$rc" "${#COMPREPLY[@]}" "${COMPREPLY[@]}"
done
'''


def bash_syntax_ok(script_text):
    """bash -n on the script (bytes preserved) -> (ok, stderr)"""
    with tempfile.NamedTemporaryFile('wb', suffix='.bash', delete=False) as f:
        f.write(s2b(script_text))
        path = f.name
    try:
        p = subprocess.run(['bash', '-n', path], stdout=subprocess.PIPE, stderr=subprocess.PIPE, timeout=60,
                           env={'PATH': os.environ.get('PATH', '/usr/bin:/bin'), 'LC_ALL': 'C'})
        return p.returncode == 0, p.stderr.decode('latin-1')[-400:]
    finally:
        os.unlink(path)


def bash_queries(script_text, command, queries, timeout=600):
    """Sources the script in a fresh non-interactive bash (LC_ALL=C, empty environment, scratch cwd) with the
    3-line _get_comp_words_by_ref stub and calls _<command> once per query.
    queries: list of word lists (COMP_WORDS, the last one is the word being completed).
    -> list of (rc, [COMPREPLY...]) or None when the process failed."""
    d = tempfile.mkdtemp(prefix='vf-bash-')
    try:
        sp = os.path.join(d, 'script.bash')
        dp = os.path.join(d, 'driver.bash')
        open(sp, 'wb').write(s2b(script_text))
        open(dp, 'w').write(DRIVER)
        data = b''.join(s2b(str(len(q))) + b'\0' + b''.join(s2b(w) + b'\0' for w in q) for q in queries)
        try:
            p = subprocess.run(['bash', '--noprofile', '--norc', dp, sp, command], input=data, cwd=d,
                               stdout=subprocess.PIPE, stderr=subprocess.PIPE, timeout=timeout,
                               env={'PATH': os.environ.get('PATH', '/usr/bin:/bin'), 'LC_ALL': 'C', 'HOME': d})
        except subprocess.TimeoutExpired:
            return None
        fields = p.stdout.decode('latin-1').split('\0')
        out = []
        i = 0
        while i < len(fields) - 1:
            if fields[i] != 'Q':
                return None
            rc = int(fields[i + 1])
            n = int(fields[i + 2])
            out.append((rc, fields[i + 3:i + 3 + n]))
            i += 3 + n
        if len(out) != len(queries):
            return None
        return out
    finally:
        for f in os.listdir(d):
            os.unlink(os.path.join(d, f))
        os.rmdir(d)


def pmap(f, items, workers=None):
    with ThreadPoolExecutor(max_workers=workers or paths.NCPU) as ex:
        return list(ex.map(f, items))
