"""Shared helpers of the emit work package (C07, C04): script text handling, where the data
statements of each emitter sit, running real bash on an emitted script."""
import os
import re
import subprocess
import tempfile
from concurrent.futures import ThreadPoolExecutor

from . import paths, sexp

SHELLS = ['bash', 'fish', 'zsh', 'pwsh']
ARRAY_START = {'bash': 0, 'fish': 1, 'zsh': 1, 'pwsh': 0}


def script_of(stage_payload):
    """SCRIPT payload -> text (latin-1 str, one char per byte) or None when the emitter failed."""
    if stage_payload is None or not stage_payload.startswith('"'):
        return None
    return str(sexp.parse(stage_payload))


def b2s(b):
    """bytes -> one-char-per-byte str (the representation used for everything read from cg-dump)."""
    return b.decode('latin-1')


def s2b(s):
    return s.encode('latin-1')


def u2s(text):
    """python unicode str -> one-char-per-byte str of its UTF-8 encoding"""
    return text.encode('utf-8').decode('latin-1')


def lit_order(texts):
    """dfa.rs get_top_level_literals_decreasing_length for pairwise distinct texts: sorted by
    (byte length, bytes), reversed."""
    return sorted(texts, key=lambda t: (len(t), t), reverse=True)


# where string constants sit: (kind, line-anchored prefix regex, separator or None, terminator)
CONST_STATEMENTS = {
    'bash': [('lits', r'^    local -a literals=\(', ' ', ')\n')],
    'fish': [('lits', r'^    set (?:--global subword_)?literals ?', ' ', '\n'),
             ('descr', r'^    set (?:--global subword_)?descrs\[\d+\] ', None, '\n')],
    'zsh': [('lits', r'^    declare -a (?:subword_)?literals=\(', ' ', ')\n'),
            ('descr', r'^    (?:subword_)?descriptions\[\d+\]=', None, '\n')],
    'pwsh': [('lits', r'^    \$literals = @\(', ', ', ')\n'),
             ('descr', r'^        \d+ = ', None, ';\n')],
}


def find_const_statements(shell, text):
    """-> [(kind, sep, terminator, start_of_prefix, end_of_prefix)] in script order"""
    out = []
    for kind, rx, sep, term in CONST_STATEMENTS[shell]:
        for m in re.finditer(rx, text, re.M):
            out.append((kind, sep, term, m.start(), m.end()))
    out.sort(key=lambda x: x[3])
    return out


STUB = '''_get_comp_words_by_ref () { words=("${COMP_WORDS[@]}"); cword=$COMP_CWORD; }
'''

DRIVER = STUB + r'''
COMP_WORDBREAKS=$' \t\n"\'@><=;|&(:'
source "$1" || { printf 'SOURCE-FAILED\0'; exit 3; }
while IFS= read -r -d '' n; do
    COMP_WORDS=()
    for ((i = 0; i < n; i++)); do IFS= read -r -d '' w; COMP_WORDS+=("$w"); done
    COMP_CWORD=$((n - 1))
    COMPREPLY=()
    "_$2" 2>/dev/null
    rc=$?
    printf '%s\0' "Q" "$rc" "${#COMPREPLY[@]}" "${COMPREPLY[@]}"
done
'''


def bash_syntax_ok(script_text):
    """bash -n on the script (bytes preserved) -> (ok, stderr)"""
    with tempfile.NamedTemporaryFile('wb', suffix='.bash', delete=False) as f:
        f.write(s2b(script_text))
        path = f.name
    try:
        p = subprocess.run(['bash', '-n', path], stdout=subprocess.PIPE, stderr=subprocess.PIPE, timeout=60,
                           env={'PATH': os.environ.get('PATH', '/usr/bin:/bin'), 'LC_ALL': 'C'})
        return p.returncode == 0, p.stderr.decode('latin-1')[-400:]
    finally:
        os.unlink(path)


def bash_queries(script_text, command, queries, timeout=600):
    """Sources the script in a fresh non-interactive bash (LC_ALL=C, empty environment, scratch cwd) with the
    3-line _get_comp_words_by_ref stub and calls _<command> once per query.
    queries: list of word lists (COMP_WORDS, the last one is the word being completed).
    -> list of (rc, [COMPREPLY...]) or None when the process failed."""
    d = tempfile.mkdtemp(prefix='vf-bash-')
    try:
        sp = os.path.join(d, 'script.bash')
        dp = os.path.join(d, 'driver.bash')
        open(sp, 'wb').write(s2b(script_text))
        open(dp, 'w').write(DRIVER)
        data = b''.join(s2b(str(len(q))) + b'\0' + b''.join(s2b(w) + b'\0' for w in q) for q in queries)
        try:
            p = subprocess.run(['bash', '--noprofile', '--norc', dp, sp, command], input=data, cwd=d,
                               stdout=subprocess.PIPE, stderr=subprocess.PIPE, timeout=timeout,
                               env={'PATH': os.environ.get('PATH', '/usr/bin:/bin'), 'LC_ALL': 'C', 'HOME': d})
        except subprocess.TimeoutExpired:
            return None
        fields = p.stdout.decode('latin-1').split('\0')
        out = []
        i = 0
        while i < len(fields) - 1:
            if fields[i] != 'Q':
                return None
            rc = int(fields[i + 1])
            n = int(fields[i + 2])
            out.append((rc, fields[i + 3:i + 3 + n]))
            i += 3 + n
        if len(out) != len(queries):
            return None
        return out
    finally:
        for f in os.listdir(d):
            os.unlink(os.path.join(d, f))
        os.rmdir(d)


def pmap(f, items, workers=None):
    with ThreadPoolExecutor(max_workers=workers or paths.NCPU) as ex:
        return list(ex.map(f, items))


# ---------------------------------------------------------------------------------------------
# C04: from the statements read by Spec.ScriptRead (extracted) to the embedded automaton

def parse_dfa(v):
    """parsed (dfa (start s) (trans ..) (acc ..) (inputs ..) (subdfas ..)) -> dict"""
    d = dict(start=int(v[1][1]), trans=[], inputs=[], subs=[], acc=[int(x) for x in v[3][1:]])
    for row in v[2][1:]:
        for it in row[1:]:
            d['trans'].append((int(row[0]), int(it[0]), int(it[1])))
    for x in v[4][1:]:
        k = x[0]
        if k == 'lit':
            d['inputs'].append(('lit', str(x[1]), '' if x[2] == '-' and not isinstance(x[2], sexp.Q) else str(x[2]), int(x[3])))
        elif k == 'sub':
            d['inputs'].append(('sub', int(x[1]), int(x[2])))
        elif k in ('cmd', 'compadd'):
            d['inputs'].append((k, str(x[1]), int(x[2])))
        else:
            d['inputs'].append(('star',))
    for sd in v[5][1:]:
        d['subs'].append(parse_dfa(sd) if sd and sd[0] == 'dfa' else None)
    return d


def expected_body(cmd, shell):
    if shell == 'bash':
        return cmd.strip() or ':'
    if shell == 'pwsh':
        return cmd.strip() or '# empty command'
    return cmd


def canon_expected(d, subs, shell, with_descr, is_sub=False):
    """(start, relation {(s, label, to)}, candidates {(level, s, label)}[, accepting states]) of an automaton of
    the MIN dump; bash embeds the accepting states of within-word automata (df274e8)"""
    rel, comp = set(), set()
    for s, i, to in d['trans']:
        x = d['inputs'][i]
        if x[0] == 'lit':
            lab, lvl = (('lit', x[1], x[2]) if with_descr else ('lit', x[1])), x[3]
        elif x[0] == 'sub':
            lab, lvl = ('sub', canon_expected(subs[x[1]], [], shell, with_descr, is_sub=True)), x[2]
        elif x[0] in ('cmd', 'compadd'):
            lab, lvl = (x[0], expected_body(x[1], shell)), x[2]
        else:
            lab, lvl = ('star',), None
        rel.add((s, lab, to))
        if lvl is not None:
            comp.add((lvl, s, lab))
    if is_sub and shell == 'bash':
        return (d['start'], frozenset(rel), frozenset(comp), frozenset(d['acc']))
    return (d['start'], frozenset(rel), frozenset(comp))


def key_clash(d):
    """two transitions from one state whose table key coincides (literal (text, descr), command text,
    within-word automaton): the mechanism of the known finding 'one text under two fallback levels'"""
    seen = set()
    for s, i, to in d['trans']:
        x = d['inputs'][i]
        key = (s,) + tuple(x[:-1]) if x[0] != 'star' else (s, 'star')
        if key in seen:
            return True
        seen.add(key)
    return any(sd is not None and key_clash(sd) for sd in d['subs'])


class ReadError(Exception):
    pass


def split_functions(shell, stmts):
    funcs, order, reg = {}, [], []
    cur = None
    for st in stmts:
        k = st[0]
        if k == 'func':
            cur = str(st[1])
            funcs[cur] = []
            order.append(cur)
        elif k == 'end':
            cur = None
        elif k == 'register':
            reg.append([str(x) for x in st[1:]])
            if shell == 'pwsh':
                cur = '__main__'
                funcs[cur] = []
                order.append(cur)
        elif cur is not None:
            funcs[cur].append(st)
    return funcs, order, reg


def ints(cell):
    cell = str(cell)
    return [int(x) for x in cell.split(' ')] if cell != '' else []


def tables_of_function(shell, body, is_sub):
    """the data statements of one function -> dict of raw tables (numbers as written)"""
    pre = 'subword_' if (is_sub and shell in ('zsh', 'fish')) else ''
    T = dict(lits=None, descr={}, mlit=[], mcmd=[], mcompadd=[], mstar=None, msub=[], clit={}, ccmd={}, ccompadd={}, csub={},
             maxlevel=None, state=None, call=None, has_cmd=False, has_compadd=False, has_sub=False, accepting=None)

    def base(v):
        v = str(v)
        if pre and v.startswith(pre):
            return v[len(pre):]
        return v if not pre else None

    if shell != 'fish':
        descr_text, descr_of = {}, {}
        for st in body:
            k = st[0]
            v = base(st[1]) if k not in ('call',) else None
            if k == 'call':
                T['call'] = str(st[1])
            elif v is None:
                continue
            elif k == 'lits' and v == 'literals':
                T['lits'] = [str(x) for x in st[2]]
            elif k == 'str' and v == 'descriptions':
                descr_text[int(st[2])] = str(st[3])
            elif k == 'assoc' and v == 'descr_id_from_literal_id':
                for lid, ks in st[2]:
                    descr_of[int(lid)] = int(ks[0])
            elif k == 'row':
                tgt = {'literal_transitions': 'mlit', 'command_transitions': 'mcmd', 'compadd_transitions': 'mcompadd',
                       'subword_transitions': 'msub'}.get(v)
                if tgt:
                    for key, to in st[3]:
                        T[tgt].append((int(st[2]), int(key), int(to)))
            elif k in ('assoc', 'decl'):
                if v == 'command_transitions':
                    T['has_cmd'] = True
                elif v == 'compadd_transitions':
                    T['has_compadd'] = True
                elif v == 'subword_transitions':
                    T['has_sub'] = True
                if k == 'assoc':
                    if v == 'accepting_states':
                        T['accepting'] = [int(s_) for s_, _ in st[2]]
                    if v == 'star_transitions':
                        T['mstar'] = [(int(s), int(t[0])) for s, t in st[2]]
                    for name, tgt in (('literal_transitions_level_', 'clit'), ('commands_level_', 'ccmd'),
                                      ('compadd_commands_level_', 'ccompadd'), ('subword_transitions_level_', 'csub')):
                        if v.startswith(name) and v[len(name):].isdigit():
                            T[tgt][int(v[len(name):])] = [(int(s), [int(x) for x in ids]) for s, ids in st[2]]
            elif k == 'scalar':
                if v == 'max_fallback_level':
                    T['maxlevel'] = int(st[2])
                elif v == 'state':
                    T['state'] = int(st[2])
        if shell == 'pwsh':
            T['descr'] = dict(descr_text)
        else:
            for lid, kd in descr_of.items():
                if kd not in descr_text:
                    raise ReadError('literal %d refers to description %d, which is not defined' % (lid, kd))
                T['descr'][lid] = descr_text[kd]
        return T
    # ---- fish
    V = {}
    for st in body:
        if st[0] == 'call':
            T['call'] = str(st[1])
        elif st[0] == 'set':
            v = base(st[1])
            if v is None:
                continue
            idx = None if st[2] == '-' else int(st[2])
            if idx is None:
                V[v] = list(st[3])
            else:
                V.setdefault(v + '[]', {})[idx] = list(st[3])
    if 'literals' in V:
        T['lits'] = [str(x) for x in V['literals']]
    dtext = {k: str(v[0]) for k, v in V.get('descrs[]', {}).items()}
    dl, di = [int(x) for x in V.get('descr_literal_ids', [])], [int(x) for x in V.get('descr_ids', [])]
    if len(dl) != len(di):
        raise ReadError('descr_literal_ids and descr_ids differ in length')
    for lid, kd in zip(dl, di):
        if kd not in dtext:
            raise ReadError('literal %d refers to description %d, which is not defined' % (lid, kd))
        T['descr'][lid] = dtext[kd]
    ins, tos = V.get('literal_transitions_inputs', []), V.get('literal_transitions_tos', [])
    if len(ins) != len(tos):
        raise ReadError('literal_transitions_inputs/tos differ in length')
    for pos, (a, b) in enumerate(zip(ins, tos), 1):
        ia, ib = ints(a), ints(b)
        if len(ia) != len(ib):
            raise ReadError('literal transitions of state %d: inputs and tos differ in length' % pos)
        for lid, to in zip(ia, ib):
            T['mlit'].append((pos, lid, to))
    for s, cell in V.get('command_transitions[]', {}).items():
        T['has_cmd'] = True
        for ct in str(cell[0]).split(' '):
            c, to = ct.split(',')
            T['mcmd'].append((s, int(c), int(to)))
    if 'star_transitions_from' in V and V['star_transitions_from']:
        fr, to = [int(x) for x in V['star_transitions_from']], [int(x) for x in V.get('star_transitions_to', [])]
        if len(fr) != len(to):
            raise ReadError('star_transitions_from/to differ in length')
        T['mstar'] = list(zip(fr, to))
    ids, tos = V.get('subword_transitions_ids[]', {}), V.get('subword_transitions_tos[]', {})
    if set(ids) != set(tos):
        raise ReadError('subword_transitions_ids/tos have different states')
    for s in ids:
        T['has_sub'] = True
        a, b = ints(ids[s][0]), ints(tos[s][0])
        if len(a) != len(b):
            raise ReadError('sub-word transitions of state %d: ids and tos differ in length' % s)
        for w, to in zip(a, b):
            T['msub'].append((s, w, to))
    for fr_name, cell_name, tgt in (('literal_froms_level_', 'literal_inputs_level_', 'clit'),
                                    ('command_froms_level_', 'commands_level_', 'ccmd'),
                                    ('subword_froms_level_', 'subwords_level_', 'csub')):
        for v in V:
            if v.startswith(fr_name) and v[len(fr_name):].isdigit():
                k = int(v[len(fr_name):])
                fr = [int(x) for x in V[v]]
                cells = V.get(cell_name + str(k), [])
                if len(fr) != len(cells):
                    raise ReadError('%s%d and %s%d differ in length' % (fr_name, k, cell_name, k))
                T[tgt][k] = [(s, ints(c)) for s, c in zip(fr, cells)]
    if 'max_fallback_level' in V and V['max_fallback_level']:
        T['maxlevel'] = int(V['max_fallback_level'][0])
    if 'state' in V and V['state']:
        T['state'] = int(V['state'][0])
    return T


def embedded(shell, stmts, command, with_descr):
    """-> dict(main=canon, registered=[...], start ok, notes) of what the script embeds, in the automaton's
    own numbering (states and literal ids minus the shell's base)"""
    B = ARRAY_START[shell]
    funcs, order, reg = split_functions(shell, stmts)
    main_name = '__main__' if shell == 'pwsh' else '_' + command
    if main_name not in funcs:
        raise ReadError('no completion function %s in the script' % main_name)
    bodies = {}
    for name in order:
        m = None
        if name.startswith('_%s_cmd_' % command) and name[len('_%s_cmd_' % command):].isdigit():
            b = [st for st in funcs[name] if st[0] == 'body']
            if len(b) != 1:
                raise ReadError('function %s has no readable body' % name)
            bodies[int(name[len('_%s_cmd_' % command):])] = str(b[0][1])
    cache = {}

    def sub_tables(wid):
        name = '_%s_subword_%d' % (command, wid)
        if name not in funcs:
            raise ReadError('no function %s' % name)
        W = tables_of_function(shell, funcs[name], True)
        if W['call'] is None:
            raise ReadError('%s calls nothing' % name)
        if W['call'] == '_%s_subword' % command:
            return W
        if W['call'] not in funcs:
            raise ReadError('%s calls %s, which is not defined' % (name, W['call']))
        S = tables_of_function(shell, funcs[W['call']], True)
        if S['call'] != '_%s_subword' % command:
            raise ReadError('%s does not call the matcher' % W['call'])
        S = dict(S)
        S['lits'], S['descr'], S['accepting'] = W['lits'], W['descr'], W['accepting']
        return S

    def canon(T, is_sub):
        if T['lits'] is None:
            raise ReadError('no literal list')
        lits = T['lits']

        def lab_lit(lid):
            k = lid - B
            if not (0 <= k < len(lits)):
                raise ReadError('literal id %d outside the literal list (%d entries, base %d)' % (lid, len(lits), B))
            return ('lit', lits[k], T['descr'].get(lid, '')) if with_descr else ('lit', lits[k])

        def lab_cmd(kind, c):
            if c not in bodies:
                raise ReadError('command id %d has no function' % c)
            return (kind, bodies[c])

        def lab_sub(w):
            if w not in cache:
                cache[w] = canon(sub_tables(w), True)
            return ('sub', cache[w])

        rel, comp = set(), set()
        for s, l, to in T['mlit']:
            rel.add((s - B, lab_lit(l), to - B))
        for s, c, to in T['mcmd']:
            rel.add((s - B, lab_cmd('cmd', c), to - B))
        for s, c, to in T['mcompadd']:
            rel.add((s - B, lab_cmd('compadd', c), to - B))
        for s, to in (T['mstar'] or []):
            rel.add((s - B, ('star',), to - B))
        for s, w, to in T['msub']:
            rel.add((s - B, lab_sub(w), to - B))
        for tgt, f in (('clit', lab_lit), ('ccmd', lambda c: lab_cmd('cmd', c)), ('ccompadd', lambda c: lab_cmd('compadd', c)),
                       ('csub', lab_sub)):
            for k, rows in T[tgt].items():
                if T['maxlevel'] is not None and k > T['maxlevel']:
                    continue                         # the completion loop never looks at it
                for s, ids in rows:
                    for i in ids:
                        comp.add((k, s - B, f(i)))
        start = 0 if is_sub else (None if T['state'] is None else T['state'] - B)
        if is_sub and shell == 'bash':
            if T['accepting'] is None:
                raise ReadError('no accepting_states in a within-word wrapper')
            return (start, frozenset(rel), frozenset(comp), frozenset(x - B for x in T['accepting']))
        return (start, frozenset(rel), frozenset(comp))

    M = tables_of_function(shell, funcs[main_name], False)
    return dict(main=canon(M, False), registered=reg, literals=M['lits'], descr=M['descr'], maxlevel=M['maxlevel'],
                bodies=bodies)
