"""T2: runs emitted bash completion scripts in a real, non-interactive bash (LC_ALL=C).

A script is sourced once per batch; each query sets COMP_WORDS/COMP_CWORD, calls _<cmd>, and the
batch prints rc, COMPREPLY (unit-separator delimited, so spaces/newlines survive) and the log
that probe commands append to $PROBE_LOG.

Probe command text (put it inside {{{ }}} in a grammar):  probe(k, outputs)
  logs  k \\x1e $1 \\x1e $2   and prints the given candidate lines."""
import os
import subprocess
import tempfile
from concurrent.futures import ThreadPoolExecutor

from . import paths

BATCH = r'''
_get_comp_words_by_ref() { words=("${COMP_WORDS[@]}"); cword=$COMP_CWORD; }
source "$1" 2>"$3"
export PROBE_LOG="$2"
while IFS= read -r line; do
  eval "COMP_WORDS=($line)"; COMP_CWORD=$((${#COMP_WORDS[@]}-1)); COMPREPLY=(); : > "$PROBE_LOG"
  _CMDNAME_ 2>>"$3"; rc=$?
  printf 'R %s %s' $rc ${#COMPREPLY[@]}; for c in "${COMPREPLY[@]}"; do printf '\x1f%s' "$c"; done; printf '\x1d\n'
  while IFS= read -r l; do printf 'L %s\n' "$l"; done < "$PROBE_LOG"
  printf 'E\n'
done
'''

STUB_NOTE = ('_get_comp_words_by_ref stub: words=COMP_WORDS, cword=COMP_CWORD (stands for bash-completion\'s '
             'function called with -n "$COMP_WORDBREAKS", i.e. no re-splitting)')


def shq(s):
    return "'" + s.replace("'", "'\\''") + "'"


def probe(k, outputs):
    """Command text for {{{ }}}: logs (k, $1, $2) and prints `outputs` (one candidate line each)."""
    def dq(o):
        return "$'" + o.replace('\\', '\\\\').replace("'", "\\'").replace('\t', '\\t').replace('\n', '\\n') + "'"
    return 'echo "%d\x1e$1\x1e$2" >> "$PROBE_LOG"; printf \'%%s\\n\' %s' % (k, ' '.join(dq(o) for o in outputs))


def syntax_ok(script_text):
    """bash -n on the script text -> (ok, stderr)."""
    with tempfile.NamedTemporaryFile('w', suffix='.bash', delete=False, encoding='latin-1') as f:
        f.write(script_text)
        name = f.name
    try:
        p = subprocess.run(['bash', '-n', name], stdout=subprocess.PIPE, stderr=subprocess.PIPE,
                           env={'LC_ALL': 'C', 'PATH': os.environ['PATH']})
        return p.returncode == 0, p.stderr.decode('latin-1')
    finally:
        os.unlink(name)


def run_queries(script_text, queries, cmd='cmd', wordbreaks=None, timeout=120):
    """queries: list of (words_before_cursor: [str], prefix: str).  cmd: the grammar's command name.
    wordbreaks: value for COMP_WORDBREAKS (None = bash's default).
    -> list of dict(rc=int, reply=[str], log=[(k, arg1, arg2)]) or None for a query that produced nothing
    (bash died / timed out), plus .stderr text on the list object via the second return value."""
    tmp = tempfile.mkdtemp(prefix='vfbash', dir=os.path.join(paths.CACHE))
    try:
        sp = os.path.join(tmp, 's.bash')
        open(sp, 'w', encoding='latin-1').write(script_text)
        bp = os.path.join(tmp, 'batch.sh')
        batch = BATCH.replace('_CMDNAME_', '_' + cmd)
        if wordbreaks is not None:
            batch = 'COMP_WORDBREAKS=%s\n' % shq(wordbreaks) + batch
        open(bp, 'w').write(batch)
        inp = ''.join(' '.join(shq(x) for x in [cmd] + list(ws) + [p]) + '\n' for ws, p in queries)
        try:
            r = subprocess.run(['bash', bp, sp, os.path.join(tmp, 'log'), os.path.join(tmp, 'err')],
                               input=inp.encode('latin-1'), stdout=subprocess.PIPE, stderr=subprocess.PIPE,
                               timeout=timeout, env={'LC_ALL': 'C', 'PATH': os.environ['PATH'], 'HOME': tmp})
            out = r.stdout.decode('latin-1')
        except subprocess.TimeoutExpired as e:
            out = (e.stdout or b'').decode('latin-1')
        err = ''
        if os.path.exists(os.path.join(tmp, 'err')):
            err = open(os.path.join(tmp, 'err'), encoding='latin-1').read()
        blocks = out.split('\nE\n')
        if blocks and blocks[-1] in ('', 'E\n'):
            pass
        res = []
        for i in range(len(queries)):
            if i >= len(blocks) or not blocks[i].startswith('R '):
                res.append(None)
                continue
            blk = blocks[i]
            head, _, rest = blk.partition('\x1d\n')
            if not _ and blk.endswith('\x1d'):
                head, rest = blk[:-1], ''
            parts = head.split('\x1f')
            _r, rc, n = parts[0].split(' ')
            reply = parts[1:]
            log = []
            for l in rest.split('\n'):
                if l.startswith('L '):
                    f = l[2:].split('\x1e', 2)
                    if len(f) == 3:
                        log.append((f[0], f[1], f[2]))
            res.append(dict(rc=int(rc), reply=reply, log=log, n=int(n)))
        return res, err
    finally:
        import shutil
        shutil.rmtree(tmp, ignore_errors=True)


def run_many(jobs, **kw):
    """jobs: list of (script_text, queries[, cmd]) -> list of (results, stderr), in parallel."""
    def work(j):
        return run_queries(j[0], j[1], cmd=(j[2] if len(j) > 2 else 'cmd'), **kw)
    with ThreadPoolExecutor(max_workers=paths.NCPU) as ex:
        return list(ex.map(work, jobs))
