"""Runs the implementation: the cg-dump harness (library pipeline) and the complgen binary."""
import os
import subprocess
from concurrent.futures import ThreadPoolExecutor

from . import paths, sexp


def _parse_dump(out, ncases, shells):
    """-> {(idx, shell): {STAGE: payload-text}}; a case that never finished has '__crash__'."""
    res = {}
    cur = None
    for line in out.split('\n'):
        if not line.startswith('\x01'):
            if cur is not None and line:
                # continuation should not happen (strings are escaped) -- keep it visible
                cur.setdefault('__garbage__', []).append(line)
            continue
        head, _, payload = line[1:].partition(' ')
        if head == 'CASE':
            idx, sh = payload.split(' ')
            cur = {}
            res[(int(idx), sh)] = cur
        elif head == 'END':
            cur = None
        elif cur is not None:
            cur[head] = payload
    return res


def _run_dump(exe, texts, stages, shells, timeout):
    data = b'\0'.join(texts)
    p = subprocess.run([exe, '--stages', ','.join(stages), '--shells', ','.join(shells)],
                       input=data, stdout=subprocess.PIPE, stderr=subprocess.PIPE, timeout=timeout)
    return p.returncode, p.stdout.decode('latin-1')


def dump(exe, texts, stages, shells=('bash',), timeout=600, shard=None):
    """texts: list of bytes.  Returns list (per text) of {shell: {STAGE: payload}}.
    A batch that dies (stack overflow, abort) is re-run one grammar per process so that the
    crash is attributed to its input: that case gets {'CRASH': rc}."""
    n = len(texts)
    shard = shard or max(1, min(400, (n + paths.NCPU - 1) // paths.NCPU))
    chunks = [(i, texts[i:i + shard]) for i in range(0, n, shard)]
    results = [None] * n

    def work(chunk):
        base, ts = chunk
        try:
            rc, out = _run_dump(exe, ts, stages, shells, timeout)
        except subprocess.TimeoutExpired:
            rc, out = -9, ''
        parsed = _parse_dump(out, len(ts), shells)
        complete = rc == 0 and all((i, sh) in parsed for i in range(len(ts)) for sh in shells)
        if complete:
            for i in range(len(ts)):
                results[base + i] = {sh: parsed[(i, sh)] for sh in shells}
            return
        # isolate: one (grammar, shell) pair per process
        for i, t in enumerate(ts):
            d = {}
            for sh in shells:
                try:
                    rc1, out1 = _run_dump(exe, [t], stages, [sh], 60)
                except subprocess.TimeoutExpired:
                    rc1, out1 = -9, ''
                got = _parse_dump(out1, 1, [sh]).get((0, sh), {})
                if rc1 != 0:
                    got = dict(got, CRASH=str(rc1))
                d[sh] = got
            results[base + i] = d

    with ThreadPoolExecutor(max_workers=paths.NCPU) as ex:
        list(ex.map(work, chunks))
    return results


def run_binary(exe, text, shell='bash', dest='-', extra=(), timeout=20, cwd=None, env=None,
               mem_kb=4 * 1024 * 1024):
    """Runs `complgen --<shell> <dest> [extra] -` with the grammar on stdin.
    -> (rc, stdout bytes, stderr bytes, timed_out)"""
    cmd = ['bash', '-c', 'ulimit -v %d; exec "$@"' % mem_kb, 'x', exe, '--' + shell, dest] + list(extra) + ['-']
    try:
        p = subprocess.run(cmd, input=text, stdout=subprocess.PIPE, stderr=subprocess.PIPE,
                           timeout=timeout, cwd=cwd, env=env)
        return p.returncode, p.stdout, p.stderr, False
    except subprocess.TimeoutExpired as e:
        return -9, e.stdout or b'', e.stderr or b'', True
