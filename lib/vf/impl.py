"""Runs the implementation: the cg-dump harness (library pipeline) and the complgen binary."""
import os
import subprocess
from concurrent.futures import ThreadPoolExecutor

from . import paths, sexp


def _parse_dump(out, ncases, shells):
    """-> {(idx, shell): {STAGE: payload-text}}; a case that never finished has '__crash__'."""
    res = {}
    cur = None
    for line in out.split('\n'):
        if not line.startswith('\x01'):
            if cur is not None and line:
                # continuation should not happen (strings are escaped) -- keep it visible
                cur.setdefault('__garbage__', []).append(line)
            continue
        head, _, payload = line[1:].partition(' ')
        if head == 'CASE':
            idx, sh = payload.split(' ')
            cur = {}
            res[(int(idx), sh)] = cur
        elif head == 'END':
            cur = None
        elif cur is not None:
            cur[head] = payload
    return res


def _run_dump(exe, texts, stages, shells, timeout, cpu=None):
    """`cpu`: CPU-time limit in seconds (ulimit -t) -- used for the isolated re-runs, where a wall-clock limit would turn
    a loaded machine into a 'crash'; the wall-clock timeout is then only a generous backstop."""
    data = b'\0'.join(texts)
    cmd = [exe, '--stages', ','.join(stages), '--shells', ','.join(shells)]
    if cpu is not None:
        cmd = ['bash', '-c', 'ulimit -t %d; exec "$@"' % cpu, 'x'] + cmd
    p = subprocess.run(cmd, input=data, stdout=subprocess.PIPE, stderr=subprocess.PIPE, timeout=timeout)
    return p.returncode, p.stdout.decode('latin-1')


def dump(exe, texts, stages, shells=('bash',), timeout=600, shard=None):
    """texts: list of bytes.  Returns list (per text) of {shell: {STAGE: payload}}.
    A batch that dies (stack overflow, abort) is re-run one grammar per process so that the
    crash is attributed to its input: that case gets {'CRASH': rc}."""
    if any(b'\0' in t for t in texts):
        # the harness separates its inputs by NUL bytes: a text with a NUL cannot go through this protocol (it would
        # shift every later case); such a text gets {'UNSUPPORTED': ...} and the others are dumped without it
        keep = [i for i, t in enumerate(texts) if b'\0' not in t]
        sub = dump(exe, [texts[i] for i in keep], stages, shells, timeout, shard)
        out = [{sh: {'UNSUPPORTED': 'NUL byte in the text'} for sh in shells} for _ in texts]
        for i, d in zip(keep, sub):
            out[i] = d
        return out
    n = len(texts)
    shard = shard or max(1, min(400, (n + paths.NCPU - 1) // paths.NCPU))
    chunks = [(i, texts[i:i + shard]) for i in range(0, n, shard)]
    results = [None] * n

    def work(chunk):
        base, ts = chunk
        try:
            rc, out = _run_dump(exe, ts, stages, shells, timeout)
        except subprocess.TimeoutExpired:
            rc, out = -9, ''
        parsed = _parse_dump(out, len(ts), shells)
        complete = rc == 0 and all((i, sh) in parsed for i in range(len(ts)) for sh in shells)
        if complete:
            for i in range(len(ts)):
                results[base + i] = {sh: parsed[(i, sh)] for sh in shells}
            return
        # isolate: one (grammar, shell) pair per process
        for i, t in enumerate(ts):
            d = {}
            for sh in shells:
                try:
                    rc1, out1 = _run_dump(exe, [t], stages, [sh], 1200, cpu=60)
                except subprocess.TimeoutExpired:
                    rc1, out1 = -9, ''
                got = _parse_dump(out1, 1, [sh]).get((0, sh), {})
                if rc1 != 0:
                    got = dict(got, CRASH=str(rc1))
                d[sh] = got
            results[base + i] = d

    with ThreadPoolExecutor(max_workers=paths.NCPU) as ex:
        list(ex.map(work, chunks))
    return results


def run_binary(exe, text, shell='bash', dest='-', extra=(), timeout=20, cwd=None, env=None,
               mem_kb=4 * 1024 * 1024):
    """Runs `complgen --<shell> <dest> [extra] -` with the grammar on stdin.
    -> (rc, stdout bytes, stderr bytes, timed_out)"""
    cmd = ['bash', '-c', 'ulimit -v %d; exec "$@"' % mem_kb, 'x', exe, '--' + shell, dest] + list(extra) + ['-']
    try:
        p = subprocess.run(cmd, input=text, stdout=subprocess.PIPE, stderr=subprocess.PIPE,
                           timeout=timeout, cwd=cwd, env=env)
        return p.returncode, p.stdout, p.stderr, False
    except subprocess.TimeoutExpired as e:
        return -9, e.stdout or b'', e.stderr or b'', True


WORKER = r'''
exe=$1; mem=$2; cpu=$3
while IFS=' ' read -r d sh dest extra; do
  ( cd "$d" || exit 97; ulimit -v "$mem"; ulimit -t "$cpu"; ulimit -c 0
    exec "$exe" --$sh $dest $extra g.usage >stdout 2>stderr </dev/null )
  echo $? > "$d/rc"
done
'''


def run_binary_many(exe, jobs, timeout=20, mem_kb=4 * 1024 * 1024):
    """jobs: list of dict(text=bytes, shell=str[, dest_existing=bytes|None, to_file=bool, extra=[...],
    collect=[file names]]).  Each job runs in its own scratch directory with the grammar in `g.usage`
    (CPU-time limit `timeout` seconds, address-space limit).  One light bash worker per core does the
    forking (forking from the threaded Python process is slow under load).
    -> list of dict(rc, stdout, stderr, timed_out, dest (bytes|None after the run), files)"""
    import shutil
    import tempfile
    base = tempfile.mkdtemp(prefix='vfbin', dir=paths.CACHE)
    try:
        nshard = max(1, min(paths.NCPU, len(jobs)))
        lists = [[] for _ in range(nshard)]
        for i, j in enumerate(jobs):
            d = os.path.join(base, str(i))
            os.makedirs(d)
            open(os.path.join(d, 'g.usage'), 'wb').write(j['text'])
            to_file = j.get('to_file', False)
            if to_file and j.get('dest_existing') is not None:
                open(os.path.join(d, 'out.script'), 'wb').write(j['dest_existing'])
            lists[i % nshard].append('%s %s %s %s' % (d, j['shell'], 'out.script' if to_file else '-',
                                                     ' '.join(j.get('extra', ()))))
        wp = os.path.join(base, 'worker.sh')
        open(wp, 'w').write(WORKER)
        procs = []
        for l in lists:
            p = subprocess.Popen(['bash', wp, exe, str(mem_kb), str(timeout)], stdin=subprocess.PIPE,
                                 stdout=subprocess.DEVNULL, stderr=subprocess.DEVNULL,
                                 env={'PATH': os.environ['PATH'], 'RUST_BACKTRACE': '0'})
            p.stdin.write(('\n'.join(l) + '\n').encode())
            p.stdin.close()
            procs.append(p)
        for p in procs:
            p.wait()
        out = []
        for i, j in enumerate(jobs):
            d = os.path.join(base, str(i))

            def rd(name):
                fp = os.path.join(d, name)
                return open(fp, 'rb').read() if os.path.exists(fp) else None
            rc = rd('rc')
            rc = int(rc.strip()) if rc and rc.strip() else -1
            files = {f: rd(f) for f in j.get('collect', ())}
            # SIGXCPU (24) / SIGKILL (9) after the CPU limit: 128+signal
            out.append(dict(rc=rc, stdout=rd('stdout') or b'', stderr=rd('stderr') or b'',
                            timed_out=rc in (128 + 24, 128 + 9), dest=rd('out.script') if j.get('to_file') else None,
                            files=files))
        return out
    finally:
        shutil.rmtree(base, ignore_errors=True)
