"""C14 -- layout and statement order do not change the output.

Theorems: Props/C14.v (the checker model is natural in spans; definition order) + Props/C05.v
(layout-irrelevance of the parser).  Judgement of the real binary: an accepted grammar and K
meaning-preserving re-layouts (blanks, newlines, form feeds, comments at token boundaries, `=` vs
`::=`, final `;`, permuted definitions, redundant parentheses around space-separated items outside
words) must compile to byte-identical scripts for every shell."""
import re

from .. import build, coqcheck, impl, planted, report

SHELLS = planted.SHELLS
POOL = ['FILE', 'OUTPUT', 'LOG', 'OPT', 'ROOT', 'THING', 'OPTION', 'ARG', 'NAME', 'VALUE', 'Y', 'Z', 'A', 'B']

MANIFEST = dict(
    text=('Props/C14.v: the Gallina model of the validation stage is natural in spans (from_grammar (map_spans f g) = map_spans f '
          '(from_grammar g): no pass looks at a position) and Props/C05.v: the parser model returns the same tree up to spans for '
          'any two layouts of a printed grammar. Judgement of the real binary: every generated accepted grammar is compiled in its '
          'canonical layout and in K random re-layouts (blank/comment/form-feed insertion at every token boundary, = vs ::=, '
          'final semicolon dropped, definitions permuted, redundant parentheses around literals and around whole call-variant '
          'expressions outside words) for all four shells; the scripts must be byte-identical.'),
    design='6 C14',
    technique='Coq span-naturality theorem on the checker model (+ parser layout theorem) + byte comparison of the real binary on re-laid-out grammars')


def protected_mask(text):
    """True at every position inside a description ("..." with \\-escapes), a command or a nonterminal name."""
    mask = [False] * (len(text) + 1)
    i, n = 0, len(text)
    while i < n:
        if text.startswith('{{{', i):
            j = text.find('}}}', i)
            j = n if j < 0 else j + 3
        elif text[i] == '"':
            j = i + 1
            while j < n and text[j] != '"':
                j += 2 if text[j] == '\\' else 1
            j += 1
        elif text[i] == '<':
            j = text.find('>', i)
            j = n if j < 0 else j + 1
        else:
            i += 1
            continue
        for k in range(i, min(j, n)):
            mask[k] = True
        i = j
    return mask


def extra_parens(stmts, r):
    out = []
    for s in stmts:
        if not s.startswith('<') and r.random() < 0.4:
            sp = s.index(' ')
            s = s[:sp + 1] + '(' + s[sp + 1:-1] + ');'
        protected = protected_mask(s)

        def wrap(m, protected=protected):
            if protected[m.start()] or r.random() >= 0.3:
                return m.group(0)
            return '(' + m.group(0) + ')'
        s = re.sub(r'(?<![\w=<@-])l\d+(?![\w=>])', wrap, s)
        out.append(s)
    return out


def variant(stmts, r):
    calls = [s for s in stmts if not s.startswith('<')]
    defs = [s for s in stmts if s.startswith('<')]
    r.shuffle(defs)
    # definitions may also be interleaved with / precede the call variants
    merged = list(calls)
    for d in defs:
        merged.insert(r.randint(0, len(merged)), d)
    if r.random() < 0.5:
        merged = extra_parens(merged, r)
    return planted.relayout(merged, r, heavy=r.random() < 0.6)


def run(ctx, res):
    with build.Lock():
        binary = build.complgen()
        # the end-to-end theorems (the whole model pipeline ignores layout and statement order) live in Props/C14b.v
        extra = coqcheck.check_property('C14b')
    if not extra['ok']:
        res.violations.append(report.Violation('proof obligations of C14b (pipeline ignores spans / statement order) no longer check',
                                               dict(kind='proof-obligation', errors=extra['errors'][:5]), found_input=False))
    res.extra['theorems_C14b'] = extra['theorems']
    from . import e2e
    e2e.capstone_obligations(res, 'C14_')      # the same on the script text: Props/Capstone.v
    r = ctx['rng']
    quick = ctx['tier'] == 'quick'
    n, k = (40, 3) if quick else (2500, 8)
    cases = []
    # a built-in name redefined by the user and referenced from inside another definition, for every
    # name of a pool (hash-map iteration order over definitions depends on the names) and both orders
    for b in ('PATH', 'DIRECTORY'):
        for m in POOL:
            for own in ('{{{ echo own }}}', 'own1 | own2'):
                stmts = ['cmd a <%s> | b;' % m, '<%s> ::= --dir <%s> | c;' % (m, b), '<%s> ::= %s;' % (b, own)]
                if quick and r.random() < 0.5:
                    continue
                base = '\n'.join(stmts) + '\n'
                swapped = '\n'.join([stmts[0], stmts[2], stmts[1]]) + '\n'
                cases.append((stmts, base, [swapped] + [variant(stmts, r) for _ in range(k - 1)]))
    for i in range(n):
        stmts = planted.warn_case(r) if r.random() < 0.5 else planted.Clean(r, depth=r.choice([2, 3])).build(nvariants=r.choice([1, 2]))
        base = '\n'.join(stmts) + '\n'
        vs = [variant(stmts, r) for _ in range(k)]
        cases.append((stmts, base, vs))
    jobs, meta = [], []
    for ci, (stmts, base, vs) in enumerate(cases):
        for sh in SHELLS:
            for vi, t in enumerate([base] + vs):
                jobs.append(dict(text=t.encode('latin-1'), shell=sh))
                meta.append((ci, sh, vi))
    bins = impl.run_binary_many(binary, jobs)
    by = {m: b for m, b in zip(meta, bins)}
    res.rule = ('random clean/warning grammars (1-2 call variants, definitions, specialisations, sub-words, ||) in canonical layout vs %d '
                're-layouts each (token-boundary blanks/newlines/form feeds/comments, = vs ::=, final ; dropped, definitions permuted and '
                'interleaved with call variants, redundant parentheses outside words) x 4 shells; non-trivial = distinct re-laid-out text '
                'that differs from the canonical text' % k)
    nontriv = set()
    for ci, (stmts, base, vs) in enumerate(cases):
        for sh in SHELLS:
            b0 = by[(ci, sh, 0)]
            for vi, t in enumerate(vs, 1):
                b = by[(ci, sh, vi)]
                res.evaluations += 1
                if t != base:
                    nontriv.add(t)
                replay = dict(grammar_a=base, grammar_b=t, shell=sh, rc_a=b0['rc'], rc_b=b['rc'],
                              stderr_a=b0['stderr'][:800].decode('latin-1'), stderr_b=b['stderr'][:800].decode('latin-1'))
                if b0['rc'] not in (0, 1) or b['rc'] not in (0, 1):
                    res.violations.append(report.Violation('C14: the binary crashed (rc %s / %s)' % (b0['rc'], b['rc']), dict(replay, kind='crash')))
                elif b0['rc'] != b['rc']:
                    res.violations.append(report.Violation('C14: re-layout changed the verdict (rc %s vs %s)' % (b0['rc'], b['rc']),
                                                           dict(replay, kind='spec-judgement')))
                elif b0['stdout'] != b['stdout']:
                    res.violations.append(report.Violation('C14: re-layout changed the emitted %s script' % sh, dict(replay, kind='spec-judgement')))
                else:
                    res.traces_validated += 1
        if len(res.samples) < 3 and ci % 11 == 0:
            res.samples.append(dict(canonical=base[:300], relayout=vs[0][:400]))
    res.nontrivial = len(nontriv)
    res.extra['accepted_base_grammars'] = sum(1 for ci in range(len(cases)) if by[(ci, 'bash', 0)]['rc'] == 0)
