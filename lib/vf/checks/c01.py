"""C01 -- bash completions produced by the emitted script equal the grammar's meaning.

Direct judgement of the real thing: the extracted executable specification Spec/Meaning.v
(`complete`: residuals of the validated tree by whole words, written from the property text) against
the emitted script sourced in a real bash (lib/vf/bashrun.py), on generated
(grammar in C01_domain, words, prefix, COMP_WORDBREAKS in {default, empty}, probe outputs):
exit status and  required <= COMPREPLY <= allowed  as sets.

Process creation in the sandbox is slow and varies with the load, so the bash phase is driven by a
wall-clock budget: cases come from a seed-determined stream (known-finding witnesses, the
exhaustive small family, random grammars) and the run stops taking new chunks when the budget is
spent.  Everything that was run is counted in the evidence."""
import os
import time
from concurrent.futures import ThreadPoolExecutor

from .. import bashrun, build, gen, impl, model, mspec, paths, report, sexp

MANIFEST = dict(
    text=('Spec/Meaning.v is the executable reading of C01 (Antimirov residuals of the validated expression tree by whole shell '
          'words; literal priority, catch-all last, two-tier || levels, word-break stripping; answer = (required, allowed)). '
          'Proved in Coq (Props/C01.v): the residual step is sound and complete for an inductive denotation of expressions over '
          'item sequences, matching does not depend on || levels (|| -> | leaves `matched` unchanged), every offered candidate '
          'carries one level (the lowest that has a candidate extending the prefix) and extends the typed prefix, the '
          'word-break stripping lemmas, and the decided domain C01_domain implies its declarative reading at every point the '
          'specification visits (C01_domain_sound, C01_domain_along_runs). About the script itself: C01_bash_meaning proves that '
          'BashSem.run_from Repaired (the interpreter of the /repo HEAD script, within-word functions included) on '
          'Tables.all_tables Bash (Driver.compile_valid v) returns the status of Meaning.complete and required <= reply <= allowed '
          'for every validated tree (literals, commands, undefined nonterminals, within-word expressions over the same pieces) on '
          'C01_domain/C01_env_ok outside ambiguous_run (the former hypothesis greedy_shadow = false went away with /repo a54562b), for COMP_WORDBREAKS '
          'default and empty (C01_bash_meaning_wordbreaks); side conditions on the compiled automaton and the literal orders have '
          'decidable sufficient forms (C01_subword_side_conditions). The implementation is judged directly: the extracted Meaning.complete against the emitted '
          'script in real bash 5.2 on generated grammars inside the decided domain C01_domain (exhaustive small trees + seeded '
          'random grammars with definitions, descriptions, three || levels, within-word expressions, [], ...) x residual-set '
          'paths x prefixes x COMP_WORDBREAKS in {default, empty}; deviations are attributed to mechanism classes '
          '(Spec/KnownC01.v) or reported.'),
    design='6 C01',
    technique='extracted executable specification (Coq) vs real bash on the emitted script (T2) + Coq lemmas about the specification')

WITNESSES = [
    # (class, source statements builder, words, prefix)
    ('within_word_accepts_at_piece_boundary',
     lambda pr: [('call', 'cmd', ('seq', [('sub', [('lit', '--k=', None), ('alt', [('lit', 'x', None), ('lit', 'y', None)])]),
                                          ('lit', 'z', None)]))],
     ['--k='], ''),
    ('last_word_escape',
     lambda pr: [('call', 'cmd', ('seq', [('alt', [pr.new(['P1', 'Q']), ('nt', 'U')]), ('lit', 'z', None)]))],
     ['foo'], ''),
    ('within_word_literal_shadows_nonterminal',
     lambda pr: [('call', 'cmd', ('seq', [('sub', [('lit', '--x=', None), ('alt', [('lit', 'abc', None), ('nt', 'U')])]),
                                          ('lit', 'z', None)]))],
     ['--x=abcd'], ''),
]


def case_stream(ctx):
    """Seed-determined stream of (kind, statements, probes)."""
    rng = ctx['rng']
    for cls, mk, ws, p in WITNESSES:
        pr = mspec.Probes()
        yield ('witness:' + cls, mk(pr), pr, [(ws, p)])
    # same-shaped within-word expressions with different accepting sets: always, with all their queries
    for st, pr, qs in mspec.shape_family() + mspec.greedy_family() + mspec.descr_family() + mspec.level_shape_family():
        yield ('targeted', [mspec.normalize_stmt(x) for x in st], pr, list(qs))
    # the targeted family: the pairs of item kinds: a seed-determined third in the quick tier, all otherwise; the others always
    pairs, others = mspec.targeted_family()
    rng.shuffle(pairs)
    if ctx['tier'] == 'quick':
        pairs = pairs[:len(pairs) // 3]
    for st, pr, qs in others + pairs:
        qs = list(qs)
        rng.shuffle(qs)
        yield ('targeted', [mspec.normalize_stmt(x) for x in st], pr, qs[:6] if ctx['tier'] == 'quick' else qs)
    n = 5 if ctx['tier'] == 'quick' else 6
    fam = mspec.exhaustive_family(n)
    small = [c for c in fam if _size(c[0][0][2]) <= 3]
    big = [c for c in fam if _size(c[0][0][2]) > 3]
    rng.shuffle(big)
    if ctx['tier'] == 'quick':
        big = big[:400]
    ex = small + big
    i = 0
    while True:
        # one exhaustive tree, one random grammar, alternating; random ones go on for ever
        if i < len(ex):
            yield ('exhaustive', ex[i][0], ex[i][1], None)
        g = mspec.RGen(rng, max_depth=rng.choice([2, 3, 3, 4]))
        yield ('random', g.grammar(), g.pr, None)
        i += 1


def _size(e):
    k = e[0]
    if k in ('lit', 'nt', 'cmd', 'sub'):
        return 1
    if k in ('opt', 'many'):
        return 1 + _size(e[1])
    if k == 'dd':
        return 1 + _size(e[1])
    return 1 + sum(_size(c) for c in e[1])


def make_queries(rng, pathlist, vocab, nq, forced=None):
    prefixes = sorted(set(v[:k] for v in vocab for k in range(len(v) + 1)))
    qs = []
    for f in forced or []:
        qs.append((list(f[0]), f[1]))
    allp = [[]] + pathlist
    if ([], '') not in qs:
        qs.append(([], ''))
    tries = 0
    while len(qs) < nq and tries < nq * 6:
        tries += 1
        p = list(rng.choice(allp))
        x = rng.random()
        if x < 0.12 and p:
            j = rng.randrange(len(p) + 1)
            p = p[:j] + [mspec.FOREIGN] + p[j:]           # foreign word inserted
        elif x < 0.2 and p:
            j = rng.randrange(len(p))
            p = p[:j] + p[j + 1:]                          # word dropped
        elif x < 0.3 and p:
            j = rng.randrange(len(p))
            if len(p[j]) > 1:
                p = p[:j] + [p[j][:rng.randrange(1, len(p[j]))]] + p[j + 1:]   # word cut short
        pre = '' if rng.random() < 0.3 else rng.choice(prefixes)
        q = (p, pre)
        if q not in qs:
            qs.append(q)
    return qs


class Prepared:
    """One accepted, in-domain grammar ready for bash."""
    __slots__ = ('kind', 'stmts', 'probes', 'text', 'expr', 'script', 'minimised', 'queries', 'wbs', 'stats')


def prepare(ctx, exe, chunk, counters, nq, maxlen, ties):
    texts = [gen.show_grammar(c[1]).encode('latin-1') for c in chunk]
    dumps = impl.dump(exe, texts, ['parse', 'check', 'min', 'script'], ['bash'])
    acc = []
    for c, t, d in zip(chunk, texts, dumps):
        st = d['bash']
        if 'CRASH' in st or 'PANIC' in st:
            counters['crashed'] += 1          # reported at the end of run(): a run in which the library dies must not pass
            counters.setdefault('crashed_texts', []).append((t.decode('latin-1')[:2000], (st.get('PANIC') or st.get('CRASH') or '')[:200]))
            continue
        if not st.get('CHECK', '').startswith('(ok ') or 'SCRIPT' not in st or not st.get('PARSE', '').startswith('(ok '):
            counters['rejected_by_complgen'] += 1
            continue
        acc.append((c, t, st))
    if not acc:
        return []
    # The validated tree handed to the specification is the one the *model* of check.rs computes from
    # Rust's parse tree (definitions substituted, descriptions distributed, || levels assigned); Rust's
    # own CHECK output is only compared with it (tie T1), so a wrong level in Rust cannot leak into the oracle.
    mchk = model.run(['check bash %s' % st['PARSE'][4:-1] for _, _, st in acc])
    acc2 = []
    for (c, t, st), ml in zip(acc, mchk):
        ok = ml.startswith('(ok ')
        if ok:
            msx = sexp.parse(ml)
            same = sexp.dump(msx[2]) == sexp.dump(sexp.parse(st['CHECK'])[2])
        if not ok or not same:
            counters['t1_check_disagreements'] += 1
            ties.append(report.Violation('tie T1 broken at stage check: model and implementation disagree on the validated tree',
                                         dict(kind='tie-T1', stage='check', grammar=t.decode('latin-1'), impl=st['CHECK'][:2000], model=ml[:2000]),
                                         found_input=False))
            if not ok:
                continue
        acc2.append((c, t, st, sexp.dump(msx[2]), msx[2]))
    if not acc2:
        return []
    # quantifier's restriction, decided by the extracted Domain.C01_domain / C01_env_ok
    dom = model.run(['domain %s %s' % (e, mspec.env_sx(c[2].outs)) for (c, _, _, e, _) in acc2])
    keep = []
    for (c, t, st, e, esx), dl in zip(acc2, dom):
        if dl.startswith('(drivererror'):
            counters['model_error'] += 1
            continue
        dv = sexp.parse(dl)
        if len(dv) > 2 and dv[2] != '1':
            counters['accepted_but_nonterminal_not_last_in_word'] += 1
        if dv[0] != '1' or dv[1] != '1':
            counters['outside_C01_domain'] += 1
            if c[0].startswith('witness'):
                raise RuntimeError('witness grammar outside the domain: ' + t.decode('latin-1'))
            continue
        keep.append((c, t, st, e, esx))
    if not keep:
        return []
    vocs = [mspec.vocabulary(esx, c[2].outs) for c, _, st, _, esx in keep]
    pl = model.run([mspec.paths_request(e, c[2].outs, maxlen, 60, v) for (c, _, _, e, _), v in zip(keep, vocs)])
    out = []
    for (c, t, st, e, esx), v, line in zip(keep, vocs, pl):
        if line.startswith('(drivererror'):
            counters['model_error'] += 1
            continue
        pathlist = [[str(w) for w in p] for p in sexp.parse(line)]
        p = Prepared()
        p.kind, p.stmts, p.probes, p.text, p.expr = c[0], c[1], c[2], t.decode('latin-1'), e
        p.script = str(sexp.parse(st['SCRIPT']))
        p.minimised = st.get('MIN', '')
        p.queries = make_queries(ctx['rng'], pathlist, v, nq, forced=c[3])
        # COMP_WORDBREAKS: every query under one of the two configurations; queries whose typed
        # word contains a default word-break character under both
        p.wbs = []
        for ws, pre in p.queries:
            if any(ch in mspec.DEFAULT_WB for ch in pre):
                p.wbs.append((None, ''))
            else:
                p.wbs.append((None,) if ctx['rng'].random() < 0.5 else ('',))
        p.stats = mspec.tree_stats(esx)
        out.append(p)
    return out


def spec_answers(prepared):
    """-> per grammar {wb: [(spec, flags)] aligned with queries} for the configurations used."""
    reqs, idx = [], []
    for gi, p in enumerate(prepared):
        for wb in (None, ''):
            sel = [k for k, w in enumerate(p.wbs) if wb in w]
            if not sel:
                continue
            reqs.append(mspec.meaning_request(p.expr, p.probes.outs, mspec.DEFAULT_WB if wb is None else wb,
                                              [p.queries[k] for k in sel]))
            idx.append((gi, wb, sel))
    outs = model.run(reqs)
    res = [dict() for _ in prepared]
    for (gi, wb, sel), line in zip(idx, outs):
        if line.startswith('(drivererror'):
            raise RuntimeError('model failed on a meaning request: ' + line[:200])
        for k, a in zip(sel, mspec.parse_meaning(line)):
            res[gi][(k, wb)] = a
    return res


def bash_answers(prepared):
    jobs = []
    for gi, p in enumerate(prepared):
        for wb in (None, ''):
            sel = [k for k, w in enumerate(p.wbs) if wb in w]
            if sel:
                jobs.append((gi, wb, sel))

    def work(j):
        gi, wb, sel = j
        p = prepared[gi]
        r, err = bashrun.run_queries(p.script, [p.queries[k] for k in sel], wordbreaks=wb, timeout=600)
        return r

    with ThreadPoolExecutor(max_workers=paths.NCPU) as ex:
        rs = list(ex.map(work, jobs))
    res = [dict() for _ in prepared]
    for (gi, wb, sel), r in zip(jobs, rs):
        for k, a in zip(sel, r):
            res[gi][(k, wb)] = a
    return res


def single_text(exe, text, outs, ws, pre, wb):
    """Full evaluation of one case given as grammar text (bytes) + probe outputs.
    -> None if the case is not judged (rejected / outside the domain / ambiguous),
       else (why, spec, got, flags)."""
    st = impl.dump(exe, [text], ['parse', 'check', 'script'], ['bash'])[0]['bash']
    if not st.get('CHECK', '').startswith('(ok ') or 'SCRIPT' not in st or not st.get('PARSE', '').startswith('(ok '):
        return None
    ml = model.run(['check bash %s' % st['PARSE'][4:-1]])[0]
    if not ml.startswith('(ok '):
        return None
    e = sexp.dump(sexp.parse(ml)[2])
    lines = model.run(['domain %s %s' % (e, mspec.env_sx(outs)),
                       mspec.meaning_request(e, outs, mspec.DEFAULT_WB if wb is None else wb, [(ws, pre)])])
    if not lines[0].startswith('(1 1') or lines[1].startswith('(drivererror'):
        return None
    spec, flags = mspec.parse_meaning(lines[1])[0]
    if flags['ambiguous']:
        return None
    r, _ = bashrun.run_queries(str(sexp.parse(st['SCRIPT'])), [(ws, pre)], wordbreaks=wb, timeout=120)
    return mspec.judge(spec, r[0]), spec, r[0], flags


def single(exe, stmts, probes, ws, pre, wb):
    return single_text(exe, gen.show_grammar(stmts).encode('latin-1'), probes.outs, ws, pre, wb)


def replay_file(exe, path, res):
    """bin/check C01 --replay FILE: re-evaluates the recorded case on the current tree."""
    import json
    d = json.load(open(path))
    wb = None if d.get('comp_wordbreaks', 'default') == 'default' else ''
    r = single_text(exe, d['grammar'].encode('latin-1'), d.get('probe_outputs', {}), d['words'], d['prefix'], wb)
    res.evaluations = 1
    if r is None:
        res.notes.append('replayed case is not judged on this tree (rejected, outside C01_domain, or ambiguous)')
        return
    why, spec, got, flags = r
    print('replay: spec=%r bash=%r flags=%r -> %s' % (spec, got, flags, why or 'conforms'))
    if why:
        cls = None
        for kf in KNOWN:
            if flags[kf]:
                cls = CLASS_OF[kf]
        res.violations.append(report.Violation('C01 (replay): ' + why, dict(d, replayed=True, why=why), cls=cls))
    else:
        res.traces_validated = 1


def subtrees(e):
    """Smaller replacements for a source tree."""
    k = e[0]
    out = []
    if k in ('seq', 'alt', 'fb'):
        for i, c in enumerate(e[1]):
            out.append(c)
            rest = e[1][:i] + e[1][i + 1:]
            out.append((k, rest) if len(rest) > 1 else rest[0])
        for i, c in enumerate(e[1]):
            for c2 in subtrees(c):
                out.append((k, e[1][:i] + [c2] + e[1][i + 1:]))
    elif k in ('opt', 'many'):
        out.append(e[1])
        for c2 in subtrees(e[1]):
            out.append((k, c2))
    elif k == 'dd':
        out.append(e[1])
    elif k == 'lit' and e[2] is not None:
        out.append(('lit', e[1], None))
    return out


def shrink(exe, stmts, probes, ws, pre, wb, known, budget_s=60):
    """Greedy delta debugging of the word list, the prefix and the grammar tree while the same
    kind of disagreement (unattributed) persists."""
    t0 = time.time()

    def bad(s, w, p):
        try:
            r = single(exe, s, probes, w, p, wb)
        except Exception:
            return False
        if r is None or not r[0]:
            return False
        return not any(r[3][k] for k in known)

    changed = True
    while changed and time.time() - t0 < budget_s:
        changed = False
        for i in range(len(ws)):
            cand = ws[:i] + ws[i + 1:]
            if bad(stmts, cand, pre):
                ws, changed = cand, True
                break
        if changed:
            continue
        if pre and bad(stmts, ws, pre[:-1]):
            pre, changed = pre[:-1], True
            continue
        for si, s in enumerate(stmts):
            if s[0] == 'def':
                cand = stmts[:si] + stmts[si + 1:]
                if bad(cand, ws, pre):
                    stmts, changed = cand, True
                    break
            body = s[2] if s[0] == 'call' else s[3]
            for c2 in subtrees(body)[:30]:
                c2 = gen.normalize(c2)
                cand = stmts[:si] + [('call', s[1], c2) if s[0] == 'call' else ('def', s[1], s[2], c2)] + stmts[si + 1:]
                if time.time() - t0 > budget_s:
                    break
                if bad(cand, ws, pre):
                    stmts, changed = cand, True
                    break
            if changed:
                break
    return stmts, ws, pre


KNOWN = ('piece_boundary', 'last_word_escape', 'greedy_shadow')
CLASS_OF = {'piece_boundary': 'within_word_accepts_at_piece_boundary', 'last_word_escape': 'last_word_escape',
            'greedy_shadow': 'within_word_literal_shadows_nonterminal'}


def run(ctx, res):
    with build.Lock():
        exe = build.harness()
    from . import e2e
    e2e.capstone_obligations(res, 'C01_')      # from the grammar TEXT: Props/Capstone.v C01_compile_bash_meaning
    if ctx.get('replay'):
        replay_file(exe, ctx['replay'], res)
        res.rule = 'replay of one recorded case'
        return
    quick = ctx['tier'] == 'quick'
    budget = float(os.environ.get('VERIF_C01_BUDGET', 140 if quick else 1500))
    from .. import t2
    ts = t2.template_status()
    res.extra['bash_templates'] = ts
    if ts['variant'] != 'repaired':
        res.violations.append(report.Violation(
            'tie T3 broken: the templates of src/bash.rs are not the ones Model/BashSem.v (variant Repaired) mirrors: variant %s, %s'
            % (ts['variant'], ts['changed'] + ts['missing'] + ts['extra']), dict(kind='tie-T3', status=ts), found_input=False))
    nq = 8 if quick else 24
    maxlen = 3 if quick else 5
    chunk_size = 32 if quick else 96
    counters = dict(t1_check_disagreements=0, crashed=0, rejected_by_complgen=0, outside_C01_domain=0, accepted_but_nonterminal_not_last_in_word=0, model_error=0, ambiguous_queries=0,
                    grammars_run=0, targeted_run=0, exhaustive_run=0, random_run=0, rc1_expected=0, nonempty_required=0,
                    fallback_grammars=0, subword_grammars=0, command_grammars=0, anyword_grammars=0,
                    empty_wordbreaks_queries=0, chunks=0)
    stream = case_stream(ctx)
    t_start = time.time()
    nontrivial = set()
    unattributed = []
    absorbed = {k: 0 for k in KNOWN}
    witness_seen = {}
    # only mechanisms that known_findings.json still lists as `known` explain a disagreement; a repaired
    # one (`fixed`) that shows up again is a violation
    listed = {k['class'] for k in report.load_known() if k['property'] == 'C01' and k['status'] == 'known'}
    active = {k for k in KNOWN if CLASS_OF[k] in listed}
    ties = []
    escapes = []
    first = True
    longest = 0.0
    # the first two chunks run whatever the clock says (the coverage floor of report.py must not depend on load)
    while first or counters['chunks'] < 2 or time.time() - t_start + longest < budget:
        first = False
        t_chunk = time.time()
        chunk = [next(stream) for _ in range(chunk_size)]
        prepared = prepare(ctx, exe, chunk, counters, nq, maxlen, ties)
        if not prepared:
            continue
        counters['chunks'] += 1
        specs = spec_answers(prepared)
        bashs = bash_answers(prepared)
        longest = max(longest, time.time() - t_chunk)
        for gi, p in enumerate(prepared):
            counters['grammars_run'] += 1
            counters[{'exhaustive': 'exhaustive_run', 'targeted': 'targeted_run'}.get(p.kind, 'random_run')] += 1
            for key, flag in (('fallback_grammars', 'fb'), ('subword_grammars', 'sub'), ('command_grammars', 'cmd'),
                              ('anyword_grammars', 'nt')):
                if p.stats[flag]:
                    counters[key] += 1
            for (k, wb), (spec, flags) in specs[gi].items():
                ws, pre = p.queries[k]
                got = bashs[gi].get((k, wb))
                res.evaluations += 1
                if wb == '':
                    counters['empty_wordbreaks_queries'] += 1
                if flags['ambiguous']:
                    counters['ambiguous_queries'] += 1      # the text imposes no order there (C09's region)
                    continue
                if spec is None:
                    counters['rc1_expected'] += 1
                elif spec[0]:
                    counters['nonempty_required'] += 1
                if p.stats['leaves'] >= 2 and (ws or pre):
                    nontrivial.add((p.text, tuple(ws), pre, wb))
                why = mspec.judge(spec, got)
                if p.kind.startswith('witness:') and k == 0:
                    witness_seen[p.kind[8:]] = bool(why)
                if not why:
                    res.traces_validated += 1
                    if len(res.samples) < 6 and spec is not None and spec[0] and ws and (p.stats['fb'] or p.stats['sub']):
                        res.samples.append(dict(grammar=p.text.replace('\x1e', '^'), words=ws, prefix=pre,
                                                comp_wordbreaks='default' if wb is None else 'empty',
                                                spec_required=sorted(spec[0]), spec_allowed=sorted(spec[1]),
                                                bash_rc=got['rc'], bash_reply=got['reply']))
                    continue
                replay = dict(grammar=p.text, words=ws, prefix=pre, comp_wordbreaks='default' if wb is None else 'empty',
                              spec=('rc 1, nothing' if spec is None else dict(required=sorted(spec[0]), allowed=sorted(spec[1]))),
                              bash=got, why=why, flags=flags, minimised_dfa=p.minimised[:3000],
                              probe_outputs=p.probes.outs, kind='spec-judgement',
                              reproduce='bin/check C01 --replay <this file>')
                cls = None
                for kf in KNOWN:
                    if flags[kf] and kf in active:
                        cls = kf
                        break
                if cls == 'last_word_escape':
                    # the mechanism has an exact signature: the script answers as if the last word were absent
                    escapes.append((p, ws, pre, wb, why, replay, got))
                elif cls is not None:
                    absorbed[cls] += 1
                    res.violations.append(report.Violation('C01: ' + why, replay, cls=CLASS_OF[cls]))
                else:
                    unattributed.append((p, ws, pre, wb, why, replay))
        if escapes:
            lines = model.run([mspec.meaning_request(p.expr, p.probes.outs, mspec.DEFAULT_WB if wb is None else wb, [(ws[:-1], pre)])
                               for (p, ws, pre, wb, why, replay, got) in escapes])
            for (p, ws, pre, wb, why, replay, got), line in zip(escapes, lines):
                spec2 = mspec.parse_meaning(line)[0][0] if not line.startswith('(drivererror') else None
                if not line.startswith('(drivererror') and not mspec.judge(spec2, got):
                    absorbed['last_word_escape'] += 1
                    replay['signature'] = 'bash answers exactly as the specification does for the words without the last one'
                    res.violations.append(report.Violation('C01: ' + why, replay, cls=CLASS_OF['last_word_escape']))
                else:
                    unattributed.append((p, ws, pre, wb, why, replay))
            escapes = []
    # unattributed disagreements: shrink the first few, report all (finish() prints at most five)
    for n, (p, ws, pre, wb, why, replay) in enumerate(unattributed):
        if n < 2:
            try:
                s2, w2, p2 = shrink(exe, p.stmts, p.probes, ws, pre, wb, tuple(active))
                r = single(exe, s2, p.probes, w2, p2, wb)
                if r is not None and r[0]:
                    replay['shrunk'] = dict(grammar=gen.show_grammar(s2), words=w2, prefix=p2, why=r[0],
                                            spec=('rc 1, nothing' if r[1] is None else dict(required=sorted(r[1][0]), allowed=sorted(r[1][1]))),
                                            bash=r[2])
            except Exception as e:    # the shrinker must never hide the finding
                replay['shrink_error'] = repr(e)
        res.violations.append(report.Violation('C01: ' + why, replay))
    res.violations.extend(ties[:3])
    for cls, failed in witness_seen.items():
        if failed and cls not in [CLASS_OF[k] for k in active]:
            res.notes.append('witness of the repaired finding %s fails again' % cls)
        if not failed and cls in [CLASS_OF[k] for k in active]:
            res.notes.append('witness of known finding %s conforms on this tree (the finding may be stale)' % cls)
    res.nontrivial = len(nontrivial)
    res.exhaustive = False
    res.rule = ('one evaluation = one (grammar, words before the cursor, typed prefix, COMP_WORDBREAKS) query answered by real bash and '
                'judged against the extracted Meaning.complete; non-trivial = grammar with >= 2 leaves and at least one complete word or a '
                'non-empty prefix, not withheld as ambiguous; grammars: witnesses of known findings, a targeted family (two items of every pair of kinds {literal, within-word, command, any-word} expected at one point under | and ||, word-break stripping with a repeated break character), the exhaustive family of trees over '
                '{a, b, <U>, one probe, --k=(x|y)} (all with <= 3 nodes, larger ones sampled in the quick tier), seeded random grammars; '
                'only grammars complgen accepts and Domain.C01_domain/C01_env_ok (extracted) accept are run; the number of grammars is '
                'bounded by a wall-clock budget (process creation is slow in the sandbox)')
    for text, how in counters.pop('crashed_texts', [])[:3]:
        res.violations.append(report.Violation('the library crashed while compiling a generated grammar: %s' % how,
                                               dict(kind='crash', grammar=text, how=how)))
    res.extra['counters'] = counters
    res.extra['known_absorbed'] = {CLASS_OF[k]: v for k, v in absorbed.items()}
    res.extra['bash_budget_s'] = budget
    res.extra['t2_stub'] = bashrun.STUB_NOTE
    res.assumptions.append('probe commands print fixed candidates without spaces or empty lines (spaces and the arguments the commands '
                           'receive are C17\'s subject); literals contain no glob characters (C07\'s subject)')
