"""C10 -- output is a pure function of the input: byte-identical across runs and processes.

Theorems: Props/C10.v (interning equality of automata is exact; the pinned order-insensitive
comparison is refuted by a witness).  What the model cannot exhibit -- per-process hash seeds -- is
checked on the implementation:
  premises (static, per run): no std HashMap/HashSet/RandomState in src, ahash built without
    runtime-rng (cargo tree), pinned versions of hashbrown/ahash/ustr/indexmap in Cargo.lock;
  in-process repetition: the same grammar compiled R times in one cg-dump process (every IndexMap /
    IndexSet gets a fresh random state each time): script, --dfa and --regex texts must be identical;
  fresh processes: the binary run K times with differing environments and working directories."""
import glob
import os
import re
import subprocess

from .. import build, gen, impl, paths, planted, report

SHELLS = planted.SHELLS

MANIFEST = dict(
    text=('Props/C10.v: the comparison used to intern within-word automata (input pools compared in order) identifies exactly the '
          'identical automata, hence automata with the same language; the order-insensitive comparison of the pinned code is '
          'refuted by the a[b]/b[a] witness (the defect made ~1 run in 128 emit a different script; repaired in /repo). '
          'Props/C10b.v: for EVERY two pop orders of the subset construction (the per-process hash-set order, oracle `pick`) the two raw '
          'automata have the same input table, accept the same words and reach states standing for the same position set '
          '(`C10_pop_order_same_automaton`, `_states_bijective`: same automaton up to state numbering; with C03_order_independent the '
          'proved part of work-list orders not leaking; that renumber_states turns it into byte equality is checked per run). '
          'Process-level determinism rests on fixed-key hashing, which no Gallina model can exhibit (PARTIAL): per run the check '
          'verifies the premises (no std RandomState-seeded map in src, ahash without runtime-rng via cargo tree, pinned '
          'hashbrown/ahash/ustr/indexmap versions), compiles each grammar of a corpus biased to permuted/duplicated within-word '
          'expressions R times inside one process (fresh random state for every IndexMap/IndexSet each time) and K times in fresh '
          'processes with differing environments, and compares script, --dfa and --regex output byte for byte, 4 shells.'),
    design='6 C10',
    technique='Coq theorems on interning equality (+ refutation witness) and on pop-order independence of the subset construction up to state numbering; premise scan + repeated in-process and cross-process byte comparison')

PINNED = {'hashbrown': {'0.13.2', '0.16.1'}, 'ahash': {'0.7.6', '0.8.3'}, 'ustr': {'0.9.0'}, 'indexmap': {'2.13.0'}}


def premises():
    """-> (list of broken premises, inventory dict)"""
    broken = []
    inv = {}
    for f in sorted(glob.glob(os.path.join(paths.REPO, 'src', '*.rs'))):
        src = open(f, encoding='utf-8', errors='replace').read()
        cut = src.find('#[cfg(test)]\nmod tests')
        cut2 = src.find('#[cfg(test)]\npub mod tests')
        cut3 = src.find('#[cfg(test)]\npub(crate) mod tests')
        ends = [c for c in (cut, cut2, cut3) if c >= 0]
        body = src[:min(ends)] if ends else src
        name = os.path.basename(f)
        if re.search(r'std::collections::(\{[^}]*\b(HashMap|HashSet)\b|HashMap|HashSet)', body):
            broken.append('%s uses std::collections::HashMap/HashSet (randomly seeded per process)' % name)
        if 'RandomState' in body:
            broken.append('%s mentions RandomState' % name)
        if re.search(r'\b(SystemTime|Instant::now|thread_rng|getrandom|std::env::var|as \*const|std::process::id)\b', body):
            broken.append('%s reads time / randomness / environment / addresses' % name)
        inv[name] = {k: len(re.findall(r'\b%s\b' % k, body)) for k in
                     ('HashMap', 'HashSet', 'UstrMap', 'UstrSet', 'IndexMap', 'IndexSet', 'BTreeMap', 'BTreeSet', 'DefaultHasher', 'sort_unstable_by', 'sort_unstable_by_key')}
    lock = open(os.path.join(paths.REPO, 'Cargo.lock')).read()
    for pkg, versions in PINNED.items():
        got = set(re.findall(r'name = "%s"\nversion = "([^"]+)"' % pkg, lock))
        if got != versions:
            broken.append('Cargo.lock has %s %s (the premise was checked for %s)' % (pkg, sorted(got), sorted(versions)))
    try:
        p = subprocess.run(['cargo', 'tree', '--offline', '-f', '{p} [{f}]', '-p', 'ahash@0.8.3', '--depth', '0'],
                           cwd=paths.REPO, stdout=subprocess.PIPE, stderr=subprocess.PIPE, timeout=300,
                           env=dict(os.environ, CARGO_NET_OFFLINE='true'))
        line = p.stdout.decode().strip().split('\n')[0] if p.stdout else ''
        inv['ahash_features'] = line
        if p.returncode != 0 or 'ahash v0.8.3' not in line:
            broken.append('cargo tree could not report the features of ahash 0.8.3: %s' % p.stderr.decode()[-200:])
        elif 'runtime-rng' in line:
            broken.append('ahash is built with runtime-rng: hashbrown maps are randomly seeded')
    except Exception as e:       # noqa
        broken.append('cargo tree failed: %r' % e)
    return broken, inv


def corpus(ctx):
    r = ctx['rng']
    quick = ctx['tier'] == 'quick'
    out = []
    for f in sorted(glob.glob(os.path.join(paths.REPO, 'examples', '*.usage'))):
        out.append(('example:' + os.path.basename(f), open(f, 'rb').read()))
    out.append(('witness', b'cmd a[b] x | b[a] y;\n'))
    out.append(('witness', b'cmd (--o=(a|b) x | --o=(b|a) y);\n'))
    out.append(('witness', b'cmd p(a|b)(c|d) | q(b|a)(d|c) | r(c|d)(a|b);\n'))
    # permuted / duplicated within-word expressions: the shape on which interning decisions matter
    lits = ['a', 'b', 'c', 'dd', 'e']
    for _ in range(30 if quick else 200):
        k = r.choice([2, 3, 4])
        alts = r.sample(lits, r.choice([2, 3]))
        words = []
        for i in range(k):
            perm = alts[:]
            r.shuffle(perm)
            if r.random() < 0.3:
                perm = r.sample(lits, len(alts))
            pre = r.choice(['--x=', '--y=', 'p', ''])
            body = '(%s)' % ' | '.join(perm) if r.random() < 0.7 else '%s[%s]' % (perm[0], perm[1])
            tail = r.choice(['', '', '(%s)' % ' | '.join(r.sample(lits, 2))])
            words.append('%s%s%s t%d' % (pre or 'z', body, tail, i))
        out.append(('permuted', ('cmd ' + ' | '.join(words) + ';\n').encode()))
    for _ in range(20 if quick else 150):
        stmts = planted.warn_case(r) if r.random() < 0.4 else planted.Clean(r, depth=3).build(nvariants=2)
        out.append(('random', ('\n'.join(stmts) + '\n').encode('latin-1')))
    g = gen.Gen(r, max_depth=5)
    for _ in range(10 if quick else 50):
        out.append(('random-deep', gen.show_grammar(g.grammar(ndefs=3)).encode('latin-1')))
    return out


def run(ctx, res):
    with build.Lock():
        exe = build.harness(release=True)
        binary = build.complgen(release=True)
    broken, inv = premises()
    for b in broken:
        res.violations.append(report.Violation('C10 premise broken: ' + b, dict(kind='tie-premise', what=b, inventory=inv), found_input=False))
    res.extra['container_inventory'] = inv
    cs = corpus(ctx)
    r = ctx['rng']
    quick = ctx['tier'] == 'quick'
    R = 150 if quick else 600
    # ---- in-process repetition (one process per grammar: the text repeated R times)
    texts = []
    for kind, t in cs:
        rep = R if kind in ('witness', 'permuted') else max(4, R // 30)
        texts.append((kind, t, rep))
    nontriv = set()
    for sh in SHELLS:
        batch = []
        for kind, t, rep in texts:
            batch.append(b'\0'.join([t] * rep))
        # each grammar's repetitions in its own cg-dump process
        from concurrent.futures import ThreadPoolExecutor

        def work(data):
            p = subprocess.run([exe, '--stages', 'script,dfadot,regexdot', '--shells', sh], input=data,
                               stdout=subprocess.PIPE, stderr=subprocess.PIPE, timeout=600)
            return p.returncode, p.stdout
        with ThreadPoolExecutor(max_workers=paths.NCPU) as ex:
            outs = list(ex.map(work, batch))
        for (kind, t, rep), (rc, out) in zip(texts, outs):
            res.evaluations += rep
            blocks = out.replace(b'\x01END\n', b'').split(b'\x01CASE ')[1:]
            bodies = set(b.split(b'\n', 1)[1] if b'\n' in b else b'' for b in blocks)
            accepted = any(b'\x01SCRIPT ' in b for b in blocks)
            if accepted:
                nontriv.add((t, sh))
            if rc != 0 or len(blocks) != rep:
                res.violations.append(report.Violation('C10: cg-dump died on repetition (rc %s, %d/%d cases)' % (rc, len(blocks), rep),
                                                       dict(kind='crash', grammar=t.decode('latin-1'), shell=sh)))
            elif len(bodies) != 1:
                sizes = sorted(len(b) for b in bodies)
                res.violations.append(report.Violation(
                    'C10: %d different outputs for one grammar compiled %d times in one process (%s)' % (len(bodies), rep, sh),
                    dict(kind='spec-judgement', grammar=t.decode('latin-1'), shell=sh, repetitions=rep, distinct_outputs=len(bodies),
                         output_sizes=sizes, how='cg-dump --stages script,dfadot,regexdot with the text repeated (NUL-separated) on stdin')))
            else:
                res.traces_validated += rep
    # ---- fresh processes with differing environments
    K = 4 if quick else 8
    sample = [c for c in cs if c[0] != 'random-deep'][: (40 if quick else 200)]
    jobs, meta = [], []
    for ci, (kind, t) in enumerate(sample):
        sh = SHELLS[ci % 4] if quick else None
        for s in ([sh] if sh else SHELLS):
            for k in range(K):
                env = {'PATH': os.environ['PATH'], 'VERIF_NOISE_%d' % r.randrange(10 ** 6): 'x' * r.randrange(1, 4000),
                       'HOME': '/nonexistent%d' % k, 'LANG': r.choice(['C', 'en_US.UTF-8', 'pl_PL']), 'TZ': r.choice(['UTC', 'Asia/Tokyo']),
                       'RUST_LOG': r.choice(['', 'debug']), 'RUST_MIN_STACK': str(r.choice([2 ** 21, 2 ** 23]))}
                jobs.append(dict(text=t, shell=s, extra=['--dfa', 'd.dot', '--regex', 'r.dot'], collect=['d.dot', 'r.dot'], env=env))
                meta.append((ci, s, k))
    bins = impl.run_binary_many(binary, jobs)
    groups = {}
    for m, b in zip(meta, bins):
        groups.setdefault((m[0], m[1]), []).append(b)
    for (ci, s), bs in groups.items():
        res.evaluations += len(bs)
        sig = set((b['rc'], b['stdout'], b['stderr'], b['files'].get('d.dot'), b['files'].get('r.dot')) for b in bs)
        if len(sig) != 1:
            res.violations.append(report.Violation(
                'C10: %d different results over %d fresh processes (%s)' % (len(sig), len(bs), s),
                dict(kind='spec-judgement', grammar=sample[ci][1].decode('latin-1'), shell=s, processes=len(bs),
                     rcs=sorted(set(b['rc'] for b in bs)))))
        else:
            res.traces_validated += len(bs)
    res.nontrivial = len(nontriv)
    res.rule = ('bundled examples + a[b]/b[a]-style witnesses + grammars with 2-4 within-word expressions whose alternatives are permuted / '
                'duplicated + random clean grammars + random deep grammars; each compiled R=%d (witness/permuted) or %d (others) times in one '
                'process per shell (fresh random state per IndexMap/IndexSet), and K=%d times in fresh processes with differing environment '
                'variables; script, --dfa, --regex compared byte for byte; non-trivial = distinct accepted (grammar, shell)' % (R, max(4, R // 30), K))
    res.samples = [dict(kind=k, grammar=t.decode('latin-1')[:200]) for k, t in cs[3:9]]
    res.assumptions = ['fixed-key hashing of hashbrown 0.13.2/ahash 0.8.3 (no runtime-rng) and ustr 0.9.0: verified textually per run (cargo tree, Cargo.lock), not proved']
