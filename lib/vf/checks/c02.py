"""C02 -- the compiled automaton recognises exactly the grammar's language, labels included.

Theorem side: Props/C02.v (L-glushkov, L-subset, soundness of the judge Spec.Lang.equiv_dfa_expr,
C02_language for the model pipeline).

Tie T1 (per generated grammar and shell, each stage fed with Rust's own previous-stage output):
  check : Model.Check.from_grammar on Rust's PARSE tree == Rust's CHECK (validated tree, exact)
  regex : Model.Regex.from_valid_expr on Rust's CHECK tree == Rust's REGEX exactly (inputs with
          spans, node arena, root, end marker, first, follow, pool of within-word regexes; or the
          UnboundedMatchable spans)
  raw   : Model.Subset.dfa_from_regex on Rust's REGEX (main regex and every within-word regex)
          ~ Rust's RAW / SUBRAW up to the start-anchored isomorphism (same interned inputs), and
          then EXACTLY when the model replays the pop order that Rust's row order reveals.
Direct judgement: the proved judge Spec.Lang.equiv_dfa_expr / equiv_wdfa_expr (extracted) run on
Rust's RAW and MIN automata (and SUBRAW raw/minimised within-word automata) against Rust's
validated tree: a complete language-equivalence decision per grammar and shell."""
import time

from .. import build, gen, impl, model, report, sexp

SHELLS = ['bash', 'fish', 'zsh', 'pwsh']

MANIFEST = dict(
    text=('Theorems of Props/C02.v (all closed under the global context): C02_judge_sound / C02_judge_differ (the executable judge '
          'Spec.Lang.equiv_dfa_expr: Equal -> forall item words w, accepts_items cd w <-> denotes e w; Differ v -> v read as items '
          'distinguishes), where denotes is the inductive language of the validated tree over items carrying text, description and '
          '|| level and a composite word is the set of its within-word item sequences (compared recursively); C02_glushkov '
          '(L-glushkov for the model of regex.rs: first/follow tables describe exactly the position language of the tree, n-ary Cat '
          'with the skip-nullable loop and the shared Cat[x, Star x] of Many1 included); C02_subset / C02_subset_language (L-subset '
          'for the model of dfa_from_regex for EVERY pop order: deterministic, state after an item word = set of next positions, '
          'accepting = contains the end marker, every state reachable); C02_subwords and C02_language (the model pipeline from a '
          'validated tree accepts exactly what the tree denotes, inside words and on the command line); C03_wf_from_regex (every raw '
          'automaton satisfies the hypotheses wf/trim of the C03 theorems) and C02_minimised (the minimised main automaton with minimised '
          'within-word automata accepts exactly what the tree denotes); fuel adequacy of check_ambiguities and of the subset '
          'construction and C02_total (from every tree the checker returns the whole pipeline regex -> raw -> minimised exists, no panic, '
          'no fuel exhaustion); C02_driver and C02_compile_valid_total (end to end for Model/Driver.compile_valid, which compiles, '
          'minimises and interns the within-word automata itself: its result accepts exactly what the validated tree denotes, and it '
          'is Ok or one of the UnboundedMatchable / ambiguity diagnostics, never a panic or fuel exhaustion). The models are tied to src/regex.rs and '
          'src/dfa.rs on every run: exact equality of the REGEX stage (positions, inputs with spans, node arena, first, follow, '
          'intern pool, UnboundedMatchable spans) and of the raw automata (isomorphism, then exact equality under replay of the pop '
          'order that Rust\'s row order reveals), each stage fed with Rust\'s previous-stage output. Independently of the models, the '
          'extracted proved judge decides language equality of Rust\'s own RAW, MIN and within-word raw/minimised automata against '
          'Rust\'s validated tree, and levels_ok judges the || labels of that tree, for every generated grammar x 4 shells '
          '(exhaustive trees up to N nodes over {a, b, a "d"} with one ||, plus random deep grammars with shuffled definitions, '
          'sub-words, commands, [] and ...).'),
    design='6 C02, Appendix A.2, A.3',
    technique='Coq theorems (Berry-Sethi, subset construction for every pop order, sound and complete-on-answer equivalence judge) + '
              'extracted-model/implementation correspondence per stage + proved decision procedure run on the implementation\'s automata')

SUBSET_FUEL = 20000
EQUIV_FUEL = 400000


# ---------------------------------------------------------------------------------------------
# generators

def count_kind(e, k):
    n = 1 if e[0] == k else 0
    if e[0] in ('seq', 'alt', 'fb', 'sub'):
        return n + sum(count_kind(c, k) for c in e[1])
    if e[0] in ('opt', 'many', 'dd'):
        return n + count_kind(e[1], k)
    return n


def exhaustive(ctx):
    """Every tree with <= N nodes over {a, b, a "d"} (N+1 over {a, b}) with at most one ||."""
    three = [('lit', 'a', None), ('lit', 'b', None), ('lit', 'a', 'd')]
    two = three[:2]
    n3, n2 = (5, 6) if ctx['tier'] == 'quick' else (6, 7)
    out = []
    for t in gen.trees_upto(n3, three):
        if count_kind(t, 'fb') <= 1:
            out.append(t)
    for t in gen.trees(n2, two):
        if count_kind(t, 'fb') <= 1:
            out.append(t)
    return [('exh', gen.show_grammar([('call', 'cmd', t)]).encode()) for t in out]


def handmade():
    """Shapes the random generator is unlikely to hit."""
    texts = [
        'cmd (a "d" | --o=(x|y) <F>) [b]...;',
        'cmd (--o=(a|b) x | --o=(b|a) y);',            # two within-word automata with one language
        'cmd --o=(a|b) | --p=(a|b);',
        'cmd (p || {{{ echo z }}});',
        'cmd (a || b || c) (d || e);',
        'cmd <A> <B>;\n<B> ::= x <A>;\n<A> ::= (y | z "dz")...;',
        'cmd [[a] [b]]...;',
        'cmd ((a | b)... c)...;',
        'cmd <X>;\n<X@bash> ::= {{{ echo b }}};\n<X@fish> ::= {{{ echo f }}};\n<X> ::= {{{ echo p }}};',
        'cmd <PATH> <DIRECTORY> <UNDEF>;',
        'cmd --k=<PATH> | --d=<DIRECTORY>[,x];',
        'cmd (foo || bar) "d";',
        'cmd ((a | b) c) "d";',
        'cmd x{{{ echo a }}} | y<N> | z(p||q);',
        'cmd --a=(x "dx" | y) --b=(x | y "dy");',
        'cmd [--o=(x|y)]... | (--o=(x|y) k)...;',
        'cmd a;\ncmd b c;\ncmd [d]...;',
        'cmd a[b] x | b[a] y;',                            # witness of the fixed interning defect
        'cmd --o=[a]z | --p=<F>;',
        'cmd [-v]... (add <F>... | rm [-f] <F>);',
        'cmd <A>;\n<A> ::= --x=<B> | <B>;\n<B> ::= (p|q)[,r];',
        'cmd (a || a) b;',                                 # one text, two levels
        'cmd (a "d1" | a "d2") b;',                        # one text, two descriptions
        'cmd --k=(a|b)... x;',
        'cmd (x | y)... "dd" z;',
        'cmd -(a|b)(c|d) | -(a|b)(d|c);',
        'cmd <A>... ;\n<A> ::= [<A2>] k;\n<A2> ::= m || n;',
        # within-word expressions that differ in ONE label only (they must not be interned as one)
        'cmd build --mode=(fast "quick build" | full) | test --mode=(fast "quick tests" | full);',
        'cmd a --k=(x | y "dy") | b --k=(x | y);',
        'cmd a --k=(x | y) | b --k=(x || y);',
        'cmd a --k=(x "d" | y) | b --k=(x | y "d");',
        'cmd --k=(x "one") --k=(x "two") --k=x;',
        'cmd x || a b || (y || a c);',                      # nested ||: numbering starts afresh
        'cmd (a b || (a c || z)) | ((x || a b) | (y || a c));',
    ]
    return [('hand', t.encode()) for t in texts]


def near_identical_words(ctx):
    """Two or three within-word expressions of one grammar that are identical except for ONE label: a description
    added/changed on one literal, or one alternative moved behind a ||.  They denote different labelled languages,
    so their automata must stay distinct (and everything hanging off them: descriptions, levels)."""
    r = ctx['rng']
    out = []
    for _ in range(30 if ctx['tier'] == 'quick' else 600):
        head = r.choice(['--mode=', '--k=', '-o', 'p:'])
        vals = r.sample(['fast', 'full', 'x', 'y', 'zz', 'w1'], r.choice([2, 3]))
        def word(descr_at=None, descr=None, fb_at=None):
            alts = [('lit', v, (descr if i == descr_at else None)) for i, v in enumerate(vals)]
            if fb_at is not None and 0 < fb_at < len(alts):
                left = alts[:fb_at]; right = alts[fb_at:]
                mk = lambda xs: xs[0] if len(xs) == 1 else ('alt', xs)
                body = ('fb', [mk(left), mk(right)])
            else:
                body = ('alt', alts)
            return ('sub', [('lit', head, None), body])
        i = r.randrange(len(vals))
        variants = [word(), word(i, 'd one'), word(i, 'd two'), word((i + 1) % len(vals), 'd one'), word(fb_at=1), word(i, 'd one', fb_at=1)]
        ws = r.sample(variants, r.choice([2, 2, 3]))
        leads = r.sample(['build', 'test', 'run', 'q'], len(ws))
        shape = r.random()
        if shape < 0.5:
            e = ('alt', [('seq', [('lit', l, None), w]) for l, w in zip(leads, ws)])
            stmts = [('call', 'cmd', e)]
        elif shape < 0.75:
            stmts = [('call', 'cmd', ('seq', [('lit', l, None), w])) for l, w in zip(leads, ws)]
        else:
            stmts = [('call', 'cmd', ('alt', [('seq', [('lit', leads[0], None), ws[0]]), ('seq', [('lit', leads[1], None), ('nt', 'W')])])),
                     ('def', 'W', None, ws[1])]
        out.append(('near', gen.show_grammar(stmts).encode()))
    return out


def random_grammars(ctx):
    r = ctx['rng']
    n = 1100 if ctx['tier'] == 'quick' else 12000
    out = []
    for k in range(n):
        deep = k % 3 == 0
        g = gen.Gen(r, max_depth=5 if deep else 3, p_sub=0.2, p_cmd=0.12, p_nt=0.2, p_fb=0.2,
                    names=['A', 'B', 'C', 'D', 'E', 'F'] if deep else None)
        stmts = g.grammar(ndefs=r.choice([2, 3, 4, 5, 6]) if deep else None,
                          nvariants=r.choice([1, 1, 1, 2]))
        stmts = [(s[0], s[1], gen.normalize(s[2])) if s[0] == 'call' else (s[0], s[1], s[2], gen.normalize(s[3]))
                 for s in stmts]
        r.shuffle(stmts)
        try:
            out.append(('rnd', gen.show_grammar(stmts).encode()))
        except ValueError:
            continue
    return out


# ---------------------------------------------------------------------------------------------
# s-expression helpers

def field(sx, name):
    for x in sx[1:]:
        if isinstance(x, list) and x and x[0] == name:
            return x
    raise KeyError(name)


def sub_leaves(e, acc):
    """within-word expressions of the composite-word leaves, in traversal order"""
    k = e[0]
    if k == 'sub':
        acc.append(e[3])
    elif k in ('seq', 'alt', 'fb'):
        for c in e[2:]:
            sub_leaves(c, acc)
    elif k in ('opt', 'many'):
        sub_leaves(e[2], acc)
    elif k == 'dd':
        sub_leaves(e[3], acc)
    return acc


class D:
    """parsed (dfa ...)"""

    def __init__(self, sx):
        self.sx = sx
        self.start = sx[1][1]
        self.rows = [(r[0], [(p[0], p[1]) for p in r[1:]]) for r in sx[2][1:]]
        self.trans = {f: dict(tos) for f, tos in self.rows}
        self.acc = set(sx[3][1:])
        self.inputs = sx[4][1:]
        self.subs = sx[5][1:]

    def states(self):
        s = {self.start} | set(self.trans) | self.acc
        for tos in self.trans.values():
            s |= set(tos.values())
        return s


def isomorphism(a, b):
    """start-anchored isomorphism a -> b over equal input ids, or None"""
    if sexp.dump(a.sx[4]) != sexp.dump(b.sx[4]):
        return None
    m = {a.start: b.start}
    inv = {b.start: a.start}
    todo = [a.start]
    while todo:
        s = todo.pop()
        ra, rb = a.trans.get(s), b.trans.get(m[s])
        if ra is None or rb is None or set(ra) != set(rb):
            return None
        for i, t in ra.items():
            u = rb[i]
            if t in m:
                if m[t] != u:
                    return None
            else:
                if u in inv:
                    return None
                m[t] = u
                inv[u] = t
                todo.append(t)
    if a.states() != set(m) or b.states() != set(inv):
        return None
    if {m[s] for s in a.acc} != b.acc:
        return None
    if set(a.trans) != set(m) or set(b.trans) != set(inv):
        return None
    return m


def dfa_plain(d):
    """(dfa ...) text without the nested within-word automata"""
    return sexp.dump(d.sx[:5] + [['subdfas']])


def same_dfa_unordered(x, y):
    return (x.start == y.start and x.trans == y.trans and x.acc == y.acc
            and sexp.dump(x.sx[4]) == sexp.dump(y.sx[4]))


def rust_eq(x, y):
    """`impl PartialEq for DFA` as it is: transitions and accepting states as maps/sets, inputs as
    an IndexSet, whose equality ignores the ORDER of the inputs (although ids are indices)."""
    return (x.start == y.start and x.trans == y.trans and x.acc == y.acc
            and len(x.inputs) == len(y.inputs)
            and sorted(sexp.dump(i) for i in x.inputs) == sorted(sexp.dump(i) for i in y.inputs))


KNOWN_MERGE = 'subdfa_merged_by_unordered_inputs'
WITNESS_MERGE = b'cmd a[b] x | b[a] y;\n'


def probe_merge(exe, res, n):
    """Known finding: DFAInternPool merges two within-word automata whose input pools are
    permutations when their randomly seeded hashes collide in 7 bits (p = 1/128 per run).
    Dump the witness n times (every case builds fresh, differently seeded pools)."""
    dumps = impl.dump(exe, [WITNESS_MERGE] * n, ['check', 'raw'], ['bash'])
    by = {}
    for d in dumps:
        by.setdefault(d['bash'].get('RAW', '?'), []).append(d['bash'])
    res.extra['merge_probe'] = dict(runs=n, distinct_raw=len(by), counts=sorted(len(v) for v in by.values()))
    if len(by) < 2:
        return
    minority = min(by.values(), key=len)[0]
    majority = max(by.values(), key=len)[0]
    expr = sexp.dump(sexp.parse(minority['CHECK'])[2])
    outs = model.run(['equiv %s %s %d' % (sexp.dump(sexp.parse(st['RAW'])[1]), expr, EQUIV_FUEL)
                      for st in (minority, majority)])
    res.violations.append(report.Violation(
        'C02: the same grammar compiles to two different automata from run to run; the rarer one is judged %s, the usual one %s'
        % (outs[0], outs[1]),
        dict(kind='spec-judgement', grammar=WITNESS_MERGE.decode(), shell='bash', runs=n,
             counts=res.extra['merge_probe']['counts'], rare_raw=minority.get('RAW'), usual_raw=majority.get('RAW'),
             judge_rare=outs[0], judge_usual=outs[1]),
        cls=KNOWN_MERGE))


# ---------------------------------------------------------------------------------------------

class Case:
    __slots__ = ('gi', 'sh', 'kind', 'text', 'st', 'expr', 'regex', 'pool', 'subexprs', 'raw', 'min',
                 'subraw', 'submap', 'fail', 'tie_fail', 'accepted', 'req', 'notes', 'merged')


def run(ctx, res):
    with build.Lock():
        exe = build.harness()
    t0 = time.time()
    cases_in = handmade() + near_identical_words(ctx) + exhaustive(ctx) + random_grammars(ctx)
    texts = [c[1] for c in cases_in]
    r = ctx['rng']
    dumps = impl.dump(exe, texts, ['parse', 'check', 'regex', 'subraw', 'raw', 'min'], SHELLS)
    res.notes.append('%d grammars dumped in %.0fs' % (len(texts), time.time() - t0))

    cases = []
    for gi, (kind, text) in enumerate(cases_in):
        # the shell only matters through the choice of definitions (C11): exhaustive single-statement
        # grammars are judged for bash always and for the other shells on a 10% sample
        for sh in SHELLS:
            if kind == 'exh' and sh != 'bash' and r.random() >= 0.1:
                continue
            c = Case()
            c.gi, c.sh, c.kind, c.text, c.st = gi, sh, kind, text, dumps[gi][sh]
            c.fail, c.tie_fail, c.accepted, c.req, c.notes, c.merged = [], [], False, {}, [], []
            cases.append(c)

    # ---- phase 1 requests: check tie, regex tie
    reqs, idx = [], []

    def ask(c, key, line):
        c.req[key] = len(reqs)
        reqs.append(line)

    for c in cases:
        st = c.st
        if 'CRASH' in st or 'PANIC' in st:
            c.fail.append('implementation crashed: %s' % (st.get('PANIC') or st.get('CRASH')))
            continue
        if st.get('PARSE', '').startswith('(ok '):
            ask(c, 'check', 'check %s %s' % (c.sh, st['PARSE'][4:-1]))
        if 'CHECK' not in st or not st['CHECK'].startswith('(ok '):
            continue
        chk = sexp.parse(st['CHECK'])
        c.expr = chk[2]
        ask(c, 'regex', 'regex %s' % sexp.dump(c.expr))
        ask(c, 'levels', 'levels %s' % sexp.dump(c.expr))
    outs = model.run(reqs)
    res.notes.append('phase 1: %d model requests, %.0fs elapsed' % (len(reqs), time.time() - t0))

    from .c11 import norm_check
    for c in cases:
        st = c.st
        if 'check' in c.req and 'CHECK' in st:
            mo = outs[c.req['check']]
            try:
                if norm_check(sexp.parse(st['CHECK'])) != norm_check(sexp.parse(mo)):
                    c.tie_fail.append(('check', mo))
            except Exception:
                c.tie_fail.append(('check', mo))
        if 'levels' in c.req and outs[c.req['levels']] != '(ok)':
            c.fail.append('validated tree: a leaf does not carry the index of the || branch it sits in (%s)'
                          % outs[c.req['levels']])
        if 'regex' in c.req and 'REGEX' in st:
            mo = outs[c.req['regex']]
            if sexp.dump(sexp.parse(mo)) != sexp.dump(sexp.parse(st['REGEX'])):
                c.tie_fail.append(('regex', mo))

    # ---- phase 2 requests: subset (first pop order), judge
    reqs2 = []

    def ask2(c, key, line):
        c.req[key] = len(reqs2)
        reqs2.append(line)

    for c in cases:
        st = c.st
        c.regex = c.raw = c.min = None
        if c.fail or 'REGEX' not in st or not st['REGEX'].startswith('(ok '):
            continue
        rg = sexp.parse(st['REGEX'])
        c.regex = rg[1]
        c.pool = {int(p[0]): p[1] for p in rg[2][1:]}
        subs = sub_leaves(c.expr, [])
        rids = [int(i[1]) for i in field(c.regex, 'inputs')[1:] if i[0] == 'sub']
        c.subexprs = {}
        if len(subs) != len(rids):
            c.tie_fail.append(('regex', 'composite-word leaves and sub inputs do not correspond'))
            continue
        for e, rid in zip(subs, rids):
            c.subexprs.setdefault(rid, e)
        c.subraw = {}
        if 'SUBRAW' in st:
            for ent in sexp.parse(st['SUBRAW']):
                if len(ent) == 3:
                    c.subraw[int(ent[0])] = (D(ent[1]), D(ent[2]))
        # within-word regexes: model raw automaton vs SUBRAW, judge of SUBRAW raw and minimised
        for rid, (sraw, smin) in c.subraw.items():
            ask2(c, ('wsubset', rid), 'subset %s (submap) first %d' % (sexp.dump(c.pool[rid]), SUBSET_FUEL))
            if rid in c.subexprs:
                e = sexp.dump(c.subexprs[rid])
                ask2(c, ('wequiv-raw', rid), 'wequiv %s %s %d' % (sexp.dump(sraw.sx), e, EQUIV_FUEL))
                ask2(c, ('wequiv-min', rid), 'wequiv %s %s %d' % (sexp.dump(smin.sx), e, EQUIV_FUEL))
        if 'RAW' not in st or not st['RAW'].startswith('(ok '):
            continue            # a within-word automaton was rejected (ambiguity): not an accepted grammar
        c.raw = D(sexp.parse(st['RAW'])[1])
        c.min = D(sexp.parse(st['MIN'])[1]) if st.get('MIN', '').startswith('(ok ') else None
        c.accepted = True
        # oracle: within-word regex id -> within-word automaton id, read off the dumps and validated
        rawsubs = [D(s) if s != ['unreferenced'] else None for s in c.raw.subs]
        c.submap = {}
        for rid in sorted(set(rids)):
            if rid not in c.subraw:
                c.tie_fail.append(('raw', 'no SUBRAW entry for within-word regex %d' % rid))
                continue
            smin = c.subraw[rid][1]
            ks = [k for k, d in enumerate(rawsubs) if d is not None and dfa_plain(d) == dfa_plain(smin)]
            if not ks:
                ks = [k for k, d in enumerate(rawsubs) if d is not None and same_dfa_unordered(d, smin)]
            if not ks:
                # known finding: interned as equal to an automaton whose inputs are a permutation
                ks = [k for k, d in enumerate(rawsubs) if d is not None and rust_eq(d, smin)]
                if ks:
                    c.merged.append((rid, ks[0]))
            if not ks:
                c.tie_fail.append(('raw', 'minimised automaton of within-word regex %d is not among RAW.subdfas' % rid))
                continue
            c.submap[rid] = ks[0]
            if len(ks) > 1:
                c.notes.append('within-word automaton interned twice')
        if c.min is not None and [sexp.dump(s) for s in c.min.subs] != [sexp.dump(s) for s in c.raw.subs]:
            c.tie_fail.append(('min', 'MIN.subdfas differ from RAW.subdfas'))
        sm = ' '.join('(%d %d)' % kv for kv in sorted(c.submap.items()))
        ask2(c, 'subset', 'subset %s (submap %s) first %d' % (sexp.dump(c.regex), sm, SUBSET_FUEL))
        e = sexp.dump(c.expr)
        ask2(c, 'equiv-raw', 'equiv %s %s %d' % (sexp.dump(c.raw.sx), e, EQUIV_FUEL))
        if c.min is not None:
            ask2(c, 'equiv-min', 'equiv %s %s %d' % (sexp.dump(c.min.sx), e, EQUIV_FUEL))
    outs2 = model.run(reqs2)
    res.notes.append('phase 2: %d model requests, %.0fs elapsed' % (len(reqs2), time.time() - t0))

    # ---- phase 3: exact replay of Rust's pop order
    reqs3 = []
    replay_of = []

    def tie_subset(c, key, regex_sx, submap, rust):
        mo = outs2[c.req[key]]
        try:
            msx = sexp.parse(mo)
        except Exception:
            msx = ['?']
        if msx[0] != 'ok':
            c.tie_fail.append(('raw', '%s: model says %s' % (key, mo[:300])))
            return
        md = D(msx[1])
        m = isomorphism(md, rust)
        if m is None:
            c.tie_fail.append(('raw', '%s: model automaton %s is not isomorphic to Rust\'s %s'
                               % (key, dfa_plain(md)[:600], dfa_plain(rust)[:600])))
            return
        # position set of every Rust state, through the isomorphism; Rust's rows are in pop order
        sets = {m[sid]: s for s, sid in msx[2][1:]}
        script = ' '.join(sexp.dump(sets[f]) for f, _ in rust.rows)
        sm = ' '.join('(%d %d)' % kv for kv in sorted(submap.items()))
        replay_of.append((c, key, rust))
        reqs3.append('subset %s (submap %s) (script %s) %d' % (sexp.dump(regex_sx), sm, script, SUBSET_FUEL))

    for c in cases:
        if c.regex is None:
            continue
        for rid, (sraw, smin) in (c.subraw or {}).items():
            if ('wsubset', rid) in c.req:
                tie_subset(c, ('wsubset', rid), c.pool[rid], {}, sraw)
        if c.accepted and 'subset' in c.req:
            tie_subset(c, 'subset', c.regex, c.submap, c.raw)
    outs3 = model.run(reqs3)
    res.notes.append('phase 3: %d model requests, %.0fs elapsed' % (len(reqs3), time.time() - t0))
    for (c, key, rust), mo in zip(replay_of, outs3):
        try:
            msx = sexp.parse(mo)
            ok = msx[0] == 'ok' and dfa_plain(D(msx[1])) == dfa_plain(rust)
        except Exception:
            ok = False
        if not ok:
            c.tie_fail.append(('raw', '%s: replay of Rust\'s pop order does not reproduce Rust\'s automaton exactly: %s'
                               % (key, mo[:600])))

    # ---- verdicts
    def verdict(c, key, what):
        mo = outs2[c.req[key]]
        if mo == '(equal)':
            return True
        if mo.startswith('(differ '):
            c.fail.append('%s: distinguishing item word %s' % (what, mo[8:-1]))
        else:
            c.tie_fail.append(('judge', '%s: %s' % (what, mo[:300])))
        return False

    res.rule = ('every expression tree with <= N nodes over {a, b, a "d"} (N=5 quick, 6 thorough; N+1 over {a, b}) with at most '
                'one ||, as a one-statement grammar; hand-made shapes; random grammars (depth <= 5, up to 6 definitions in '
                'shuffled order, @shell definitions, sub-words, commands, [], ..., ||, descriptions); x 4 shells (exhaustive '
                'family: bash + 10% sample of the others). Per case a complete language-equivalence decision by the proved judge '
                'on Rust\'s RAW and MIN and on every within-word raw/minimised automaton. non-trivial = accepted grammar '
                'whose raw automaton has >= 3 states')
    res.exhaustive = True
    nontrivial = set()
    judged = 0
    rejected = 0
    for c in cases:
        res.evaluations += 1
        if c.regex is not None:
            for rid in (c.subraw or {}):
                if ('wequiv-raw', rid) in c.req:
                    verdict(c, ('wequiv-raw', rid), 'raw automaton of within-word regex %d' % rid)
                    verdict(c, ('wequiv-min', rid), 'minimised automaton of within-word regex %d' % rid)
        if c.accepted:
            judged += 1
            ok = verdict(c, 'equiv-raw', 'RAW automaton')
            if c.min is not None:
                ok = verdict(c, 'equiv-min', 'MIN automaton') and ok
            if len(c.raw.states()) >= 3:
                nontrivial.add(c.text)
        else:
            rejected += 1
        replay = dict(grammar=c.text.decode('latin-1'), shell=c.sh,
                      impl={k: v[:3000] for k, v in c.st.items()})
        if c.merged:
            replay.update(kind='spec-judgement', failures=c.fail, merged=c.merged,
                          note='within-word automaton replaced by one with permuted inputs (nondeterministic)')
            res.violations.append(report.Violation(
                'C02: within-word regex %d got the automaton of another one (inputs permuted)%s'
                % (c.merged[0][0], '; ' + c.fail[0][:200] if c.fail else ''), replay, cls=KNOWN_MERGE))
        elif c.fail:
            replay.update(kind='spec-judgement', failures=c.fail, ties=[t[0] for t in c.tie_fail])
            res.violations.append(report.Violation('C02: ' + c.fail[0][:300], replay))
        elif c.tie_fail:
            stage, detail = c.tie_fail[0]
            replay.update(kind='tie-T1', stage=stage, detail=[str(t[1])[:3000] for t in c.tie_fail])
            res.violations.append(report.Violation(
                'tie T1 broken at stage %s: model and implementation disagree' % stage, replay, found_input=False))
        else:
            if c.regex is not None or 'REGEX' in c.st:
                res.traces_validated += 1
        if c.accepted and not c.fail and len(res.samples) < 6 and c.kind != 'exh' and len(c.raw.states()) >= 4:
            res.samples.append(dict(grammar=c.text.decode('latin-1'), shell=c.sh,
                                    raw_states=len(c.raw.states()),
                                    judge_raw=outs2[c.req['equiv-raw']],
                                    judge_min=outs2[c.req['equiv-min']] if 'equiv-min' in c.req else None))
    probe_merge(exe, res, 1500 if ctx['tier'] == 'quick' else 6000)
    res.nontrivial = len(nontrivial)
    res.extra['stage'] = 'regex (Regex::from_valid_grammar), raw (DFA::from_regex_raw), min, within-word automata'
    res.extra['judged_accepted'] = judged
    res.extra['rejected_or_not_compiled'] = rejected
    res.notes.append('%d (grammar, shell) cases, %d accepted and judged, %.0fs' % (len(cases), judged, time.time() - t0))
