"""C03 -- minimisation preserves the language and yields the trim minimal automaton.

Theorem side: Props/C03.v.
Tie T1: Model.Minimize.minimize (extracted) applied to Rust's own RAW automaton (the main one and
every within-word one) must give Rust's MIN automaton exactly (numbering, transition order).
Direct judgement: the verified validator Spec.DfaEquiv (equiv_dec / trim_dec / distinct_dec,
extracted) runs on Rust's (raw, minimised) pairs."""
from .. import build, gen, impl, model, report, sexp

MANIFEST = dict(
    text=('Theorem C03_total / C03_minimise (Props/C03.v), proved in Coq 8.16 without axioms for the faithful Gallina model of '
          'do_minimize (Hopcroft loop with the dead state 0, make_transitions_image, the find_bounds window, SetInternPool, the '
          'work-list rule with the smaller half, block minima as representatives, keep_only_states_with_input_transitions, '
          'eliminate_nonaccepting_states_without_output_transitions, renumber_states, hashmap_transitions_from_vec): for every '
          'well-formed trim automaton d (what dfa_from_regex produces; both hypotheses are re-checked executably on every raw '
          'automaton Rust produces), minimize d returns some m (no panic site reachable, fuel linear in the number of states), '
          'm accepts exactly the word sequences d accepts, every state of m is reachable and co-reachable, any two states of m '
          'are told apart by some continuation, and no automaton of the same language has fewer states (Myhill-Nerode). '
          'C03_partition: the loop ends in the Nerode partition; C03_order_independent: every order of the three hash iterations '
          'gives the same partition and the model is one such run. The model is tied to src/dfa.rs by running the extracted model '
          'on Rust\'s own RAW automata (main and every within-word one) and comparing with Rust\'s MIN exactly (numbering and '
          'transition order). Independently, the implementation is judged directly: a validator proved sound and complete in Coq '
          '(product exploration equiv_dec with distinguishing word, trim_dec, Moore refinement distinct_dec; '
          'C03_validator_sound/_complete) is run, extracted, on every (raw, minimised) pair Rust produces.'),
    design='6 C03, Appendix A.1',
    technique='Coq theorem about the faithful model (total correctness of minimisation) + extracted-model/implementation exact '
              'correspondence on Rust\'s raw automata + Coq-verified translation validator on every Rust minimisation run '
              '(exhaustive small grammars + biased random)')

LEAVES = [('lit', 'a', None), ('lit', 'b', None)]
SUBLEAVES = [('lit', 'x', None), ('lit', 'y', None)]


# ---------------------------------------------------------------------------------------------
# generators

def shared_suffix_loop(r, alpha):
    """( ... )... around alternations sharing suffixes, followed by a tail that re-enters the
    loop's letters: the shape of `cmd [((b | a | b))... (b | a a) b];`"""
    def word(n):
        return [('lit', r.choice(alpha), None) for _ in range(n)]

    def alts():
        suffix = word(r.choice([0, 1, 1, 2]))
        out = []
        for _ in range(r.choice([2, 2, 3])):
            w = word(r.choice([1, 1, 2])) + suffix
            out.append(('seq', w) if len(w) > 1 else w[0])
        return ('alt', out)

    parts = [('many', alts())]
    for _ in range(r.choice([1, 1, 2])):
        x = r.random()
        if x < 0.5:
            parts.append(alts())
        elif x < 0.7:
            parts.append(('opt', alts()))
        elif x < 0.85:
            parts.append(('many', alts()))
        else:
            parts += word(1)
    if r.random() < 0.6:
        parts += word(r.choice([1, 2]))
    e = ('seq', parts)
    x = r.random()
    if x < 0.4:
        e = ('opt', e)
    elif x < 0.55:
        e = ('many', e)
    return e


def all_accepting(r, alpha):
    """[a | a a]... and relatives: every state of the raw automaton is accepting."""
    def w():
        n = r.choice([1, 2, 2, 3])
        ws = [('lit', r.choice(alpha), None) for _ in range(n)]
        e = ws[-1]
        for x in reversed(ws[:-1]):
            e = ('seq', [x, ('opt', e)])       # every prefix accepted
        return e
    x = r.random()
    if x < 0.5:
        return ('many', ('opt', ('alt', [('seq', [('lit', r.choice(alpha), None) for _ in range(r.choice([1, 2, 3]))])
                                         if r.random() < 0.7 else ('lit', r.choice(alpha), None)
                                         for _ in range(r.choice([2, 3]))])))
    if x < 0.8:
        return ('opt', ('alt', [w() for _ in range(r.choice([2, 3]))]))
    return ('many', ('opt', ('alt', [w() for _ in range(2)])))


def rexpr(r, depth, alpha, sub_ok=True):
    x = r.random()
    if depth <= 0 or x < 0.22:
        if sub_ok and r.random() < 0.2:
            return subword(r, 2)
        return ('lit', r.choice(alpha), None)
    if x < 0.45:
        return ('seq', [rexpr(r, depth - 1, alpha, sub_ok) for _ in range(r.choice([2, 2, 3]))])
    if x < 0.68:
        return ('alt', [rexpr(r, depth - 1, alpha, sub_ok) for _ in range(r.choice([2, 2, 3]))])
    if x < 0.72:
        return ('fb', [rexpr(r, depth - 1, alpha, sub_ok) for _ in range(2)])
    if x < 0.84:
        return ('opt', rexpr(r, depth - 1, alpha, sub_ok))
    c = rexpr(r, depth - 1, alpha, sub_ok)
    return c if c[0] == 'many' else ('many', c)


SUBALPHA = ['x', 'y', 'z', '=', 'xz']


def wfactor(r, depth):
    """one factor of a within-word expression (never two literals side by side)"""
    x = r.random()
    if depth <= 0 or x < 0.3:
        return ('lit', r.choice(SUBALPHA), None)
    if x < 0.65:
        return ('alt', [wexpr(r, depth - 1) for _ in range(r.choice([2, 2, 3]))])
    if x < 0.8:
        return ('opt', wexpr(r, depth - 1))
    c = wexpr(r, depth - 1)
    return c if c[0] == 'many' else ('many', c)


def wexpr(r, depth):
    x = r.random()
    if depth <= 0 or x < 0.45:
        return ('lit', r.choice(SUBALPHA), None)
    if x < 0.75:
        return subword(r, depth)
    return wfactor(r, depth)


def subword(r, depth):
    fs = []
    for _ in range(r.choice([2, 2, 3])):
        f = wfactor(r, depth - 1)
        if fs and fs[-1][0] == 'lit' and f[0] == 'lit':
            f = ('alt', [f, ('lit', r.choice(SUBALPHA), None)])
        fs.append(f)
    return ('sub', fs)


def word_loop(r):
    """within-word loops around alternatives sharing a suffix: --k=(x(z|w) | y(z|w))... and the like"""
    def lit():
        return ('lit', r.choice(['x', 'y', 'z', 'w']), None)

    def tail():
        k = r.random()
        if k < 0.5:
            return ('alt', [lit(), lit()])
        if k < 0.75:
            return ('opt', lit())
        return ('many', ('alt', [lit(), lit()]))

    t = tail()
    alts = []
    for _ in range(r.choice([2, 2, 3])):
        if r.random() < 0.7:
            alts.append(('sub', [lit(), t]))
        else:
            alts.append(('sub', [lit(), tail()]))
    body = ('alt', alts)
    if r.random() < 0.7:
        body = ('many', body)
    fs = [('lit', r.choice(['--k=', '-', 'p:']), None), body]
    if r.random() < 0.4:
        fs.append(('alt', [('lit', '.', None), ('lit', ',', None)]))
        fs.append(tail())
    return ('sub', fs)


def grammars(ctx):
    """-> list of (family, text bytes)"""
    if ctx.get('replay'):
        import json
        rp = json.load(open(ctx['replay']))
        return [('replay', rp['grammar'].encode('latin-1'))]
    r = ctx['rng']
    thorough = ctx['tier'] == 'thorough'
    out = []
    n_main = 8 if thorough else 6
    for t in gen.trees_upto(n_main, LEAVES):
        out.append(('exhaustive', gen.show_grammar([('call', 'cmd', t)]).encode()))
    n_sub = 8 if thorough else 6
    for t in gen.trees_upto(n_sub, SUBLEAVES, ops=('alt', 'opt', 'many'), allow_sub=True):
        if t[0] == 'sub':
            out.append(('exhaustive-word', gen.show_grammar([('call', 'cmd', t)]).encode()))
    # the two historical witnesses and the example of the task text
    for text in ('cmd [((b | a | b))... (b | a a) b];\n', 'cmd [a | a a]...;\n',
                 'cmd --o=(x|y|xz)... [a | a a]...;\n', 'cmd;\n', 'cmd a;\n'):
        out.append(('witness', text.encode()))
    nrand = 250000 if thorough else 3000
    g = gen.Gen(r, lits=['a', 'b', 'c', '--opt'], sub_lits=['x', 'y', 'zz', '--k='], p_descr=0.05, p_nt=0.1, p_cmd=0.05)
    for k in range(nrand):
        x = r.random()
        alpha = ['a', 'b'] if r.random() < 0.6 else ['a', 'b', 'c']
        if x < 0.35:
            e = shared_suffix_loop(r, alpha)
            fam = 'loop'
        elif x < 0.45:
            e = all_accepting(r, alpha)
            fam = 'all-accepting'
        elif x < 0.75:
            e = rexpr(r, r.choice([2, 3, 3, 4]), alpha)
            fam = 'random'
        elif x < 0.83:
            e = ('seq', [('lit', r.choice(alpha), None), subword(r, r.choice([2, 3]))])
            if r.random() < 0.5:
                e = ('seq', [e, ('many', subword(r, 2))])
            fam = 'word'
        elif x < 0.9:
            e = word_loop(r)
            if r.random() < 0.3:
                e = ('seq', [('lit', r.choice(alpha), None), ('opt', e)])
            fam = 'word-loop'
        else:
            out.append(('general', gen.show_grammar(g.grammar()).encode()))
            continue
        try:
            text = gen.show_grammar([('call', 'cmd', gen.normalize(e))])
        except ValueError:
            continue
        out.append((fam, text.encode()))
    return out


# ---------------------------------------------------------------------------------------------

def nstates(dfa_sx):
    """number of states of a (dfa ...) s-expression: start + sources + targets + accepting"""
    s = {dfa_sx[1][1]}
    for row in dfa_sx[2][1:]:
        s.add(row[0])
        for it in row[1:]:
            s.add(it[1])
    s.update(dfa_sx[3][1:])
    return len(s)


def strip_ok(payload):
    """'(ok <dfa>)' -> '<dfa>' ; None when the stage reported an error"""
    if payload.startswith('(ok ') and payload.endswith(')'):
        return payload[4:-1]
    return None


def split_top(payload):
    """top-level items of '(a b c)' as strings, without building trees"""
    items = []
    depth = 0
    start = None
    instr = False
    i = 1
    n = len(payload) - 1
    while i < n:
        c = payload[i]
        if instr:
            if c == '\\':
                i += 1
            elif c == '"':
                instr = False
        elif c == '"':
            instr = True
            if depth == 0 and start is None:
                start = i
        elif c == '(':
            if depth == 0 and start is None:
                start = i
            depth += 1
        elif c == ')':
            depth -= 1
            if depth == 0:
                items.append(payload[start:i + 1])
                start = None
        elif c == ' ':
            if depth == 0 and start is not None:
                items.append(payload[start:i])
                start = None
        elif depth == 0 and start is None:
            start = i
        i += 1
    if start is not None:
        items.append(payload[start:n])
    return items


def run(ctx, res):
    with build.Lock():
        exe = build.harness()
    cases = grammars(ctx)
    texts = [c[1] for c in cases]
    dumps = impl.dump(exe, texts, ['subraw', 'raw', 'min'], ['bash'])

    # ---- collect Rust's (raw, min) pairs, deduplicated by the raw automaton
    pairs = {}          # raw text -> dict(min=, where=[(case idx, which)], fam=)
    order = []
    rejected = 0
    for i, d in enumerate(dumps):
        st = d['bash']
        res.evaluations += 1
        replay = dict(grammar=texts[i].decode('latin-1'), family=cases[i][0], impl={k: v[:3000] for k, v in st.items()})
        if 'CRASH' in st or 'PANIC' in st:
            res.violations.append(report.Violation('the library crashed on a generated grammar (stage %s)' % st.get('PANIC', st.get('CRASH')),
                                                   dict(replay, kind='crash')))
            continue
        found = []
        if 'SUBRAW' in st:
            for item in split_top(st['SUBRAW']):
                parts = split_top(item)
                if len(parts) == 3:
                    found.append(('sub%s' % parts[0], parts[1], parts[2]))
        if 'RAW' in st and 'MIN' in st:
            raw, mn = strip_ok(st['RAW']), strip_ok(st['MIN'])
            if raw is not None and mn is not None:
                found.append(('main', raw, mn))
        if not found:
            rejected += 1
            continue
        for which, raw, mn in found:
            p = pairs.get(raw)
            if p is None:
                pairs[raw] = dict(min=mn, where=[(i, which)], fam=cases[i][0])
                order.append(raw)
            elif p['min'] != mn:
                # the same raw automaton minimised to two different results within one run
                res.violations.append(report.Violation(
                    'C03: minimize() is not a function of the raw automaton',
                    dict(replay, kind='spec-judgement', raw=raw, min_a=p['min'], min_b=mn)))
            elif len(p['where']) < 3:
                p['where'].append((i, which))

    # ---- model and validator on every distinct pair
    reqs = []
    for raw in order:
        reqs.append('minimize ' + raw)
        reqs.append('validate %s %s' % (raw, pairs[raw]['min']))
        reqs.append('rawok ' + raw)
    outs = model.run(reqs)
    nontrivial = 0
    hyps_ok = 0
    sub_pairs = 0
    fams = {}
    for k, raw in enumerate(order):
        p = pairs[raw]
        mod = outs[3 * k]
        val = outs[3 * k + 1]
        hyp = outs[3 * k + 2]
        i, which = p['where'][0]
        replay = dict(grammar=texts[i].decode('latin-1'), automaton=which, family=p['fam'], raw=raw, rust_min=p['min'],
                      model_min=mod, validator=val)
        res.evaluations += 1
        if which != 'main':
            sub_pairs += 1
        raw_sx = sexp.parse(raw)
        min_sx = sexp.parse(p['min'])
        n_raw, n_min = nstates(raw_sx), nstates(min_sx)
        if n_raw >= 3 and n_min < n_raw:
            nontrivial += 1
            fams[p['fam']] = fams.get(p['fam'], 0) + 1
        # --- direct judgement: the verified validator on Rust's pair
        ok = False
        why = ''
        try:
            v = sexp.parse(val)
            ok = v[0] == 'validate' and v[1] == 'true'
            if not ok:
                eq, tr, di = v[2][1], v[3][1], v[4][1]
                if eq != 'yes':
                    if isinstance(eq, list):
                        why = 'the minimised automaton and the raw one disagree on the input-id word %s' % ' '.join(eq[1:])
                    else:
                        why = 'validator ran out of fuel deciding language equality'
                elif tr != 'true':
                    why = 'the minimised automaton has an unreachable state or a state from which acceptance is impossible'
                elif di != 'true':
                    why = 'the minimised automaton has two states that accept the same continuations (not minimal)'
        except Exception as e:     # drivererror etc.
            why = 'validator failed: %s (%s)' % (val[:200], e)
        # --- T1
        t1_ok = False
        try:
            m = sexp.parse(mod)
            t1_ok = m[0] == 'ok' and m[1] == min_sx
        except Exception:
            t1_ok = False
        if t1_ok:
            res.traces_validated += 1
        if hyp == '(rawok true true)':
            hyps_ok += 1
        if not ok:
            res.violations.append(report.Violation('C03: ' + why, dict(replay, kind='spec-judgement', why=why)))
        elif hyp != '(rawok true true)':
            # theorem C03_minimise_checked does not apply to this raw automaton
            res.violations.append(report.Violation(
                'hypotheses of C03_minimise_checked (wfb, trim_dec) fail on a raw automaton: ' + hyp,
                dict(replay, kind='theorem-hypotheses', rawok=hyp), found_input=False))
        elif not t1_ok:
            res.violations.append(report.Violation(
                'tie T1 broken at stage min: model minimize(RAW) differs from Rust MIN',
                dict(replay, kind='tie-T1', stage='min'), found_input=False))
        if len(res.samples) < 6 and n_raw >= 4 and n_min < n_raw and (which != 'main' or len(res.samples) < 3):
            res.samples.append(dict(grammar=texts[i].decode('latin-1'), automaton=which, raw=raw[:400], rust_min=p['min'][:400],
                                    model_min=mod[:400], validator=val))
    res.nontrivial = nontrivial
    res.exhaustive = True
    res.rule = ('every expression tree with <= %d nodes over the literals {a,b} (sequence, |, ||, [..], ...) and every within-word '
                'tree with <= %d nodes over {x,y} (exhaustive), plus %s random grammars: ( .. )... loops around alternatives sharing '
                'suffixes followed by tails re-entering the loop letters, [a | a a]...-like all-accepting shapes, random trees over '
                '2-3 literals, within-word expressions, general grammars; each distinct raw automaton (main and within-word) counted '
                'once; non-trivial = raw automaton with >= 3 states that minimisation makes strictly smaller'
                % ((8, 8, 250000) if ctx['tier'] == 'thorough' else (6, 6, 3000)))
    res.extra['stage'] = 'DFA::minimize on DFA::from_regex_raw (main automaton and every within-word automaton)'
    res.extra['grammars'] = len(cases)
    res.extra['grammars_rejected_before_minimisation'] = rejected
    res.extra['distinct_raw_automata'] = len(order)
    res.extra['distinct_within_word_automata'] = sub_pairs
    res.extra['nontrivial_by_family'] = fams
    res.extra['raw_automata_satisfying_theorem_hypotheses'] = hyps_ok
