"""Tie of Model/Main.v (`run`: the observable behaviour of the complgen command as a trace of effects) to the real
binary.  Not a property check of its own: `tie(ctx, res)` is called by c06.py.

Matrix: command lines (shell options 0/1/2 of them, destination a new file / `-` / an existing file with sentinel
content, --regex / --dfa to a file, to `-`, or to the very path of the script, usage file present / missing / stdin /
no positional argument, --version) x inputs (clean, with warnings, rejected at each stage: parse, check -- located and
not located --, regex, within-word ambiguity inside from_regex_raw, final ambiguity check).

Observed per run: exit status, stdout, stderr split into messages, every file of the scratch directory afterwards.
Expected = the model trace replayed on a copy of the initial directory: `write (file p) k` truncates and writes p
(content: the bash script text of the model; for the other shells and for the two Graphviz files the text the same
library code produces in cg-dump), `write (stdout) k` and `(stdout s)` append to stdout, `(stderr m)` is one message.
The oracles of compile_bash come from cg-dump and the script the binary wrote, as in e2e.py."""
import os
import re
import time
import shutil
import subprocess
import tempfile
from concurrent.futures import ThreadPoolExecutor

from .. import build, emitlib, impl, model, paths, report, sexp, snippet
from . import e2e

SENTINEL = b'SENTINEL: an existing file that must survive a failed run\n'
STAGES = ['parse', 'check', 'regex', 'subraw', 'raw', 'min', 'amb', 'tables', 'script', 'dfadot', 'regexdot']

INPUTS = [
    ('clean', b'cmd (add <FILE> | rm --force [x]...) --o=(p|q);\n<FILE> ::= {{{ ls }}};\n'),
    ('clean_word', b'mytool sub --color=(always|never) <PATH>;\n'),
    ('warnings', b'cmd a\\.b <UNDEF>\n  <_> <U2>;\n<UNUSED> ::= y;\n<SPEC@SHELL> ::= {{{ echo s }}};\n'),
    ('parse_error', b'cmd a (b | ;\n'),
    ('parse_error_line3', b'cmd a;\n# c\ncmd b | | c;'),
    ('check_located', b'cmd a;\n<A> ::= x;\n<A> ::= y;\n'),
    ('check_varying', b'cmd a;\nother b;\n'),
    ('check_missing', b'<A> ::= x;\n'),
    ('check_spaces', b'cmd --o=(a b);\n'),
    ('regex_unbounded', b'cmd <A>b<C>;\n'),
    ('amb_subword', b'cmd --o=(a "p"|a "q");\n'),
    ('amb_final', b'cmd (a "d1" | a "d2") <UND>;\n'),
    ('empty', b''),
    ('invalid_utf8', b'cmd a \xff\xfe;\n'),
    ('non_ascii_error', 'cmd \u00e9\u00e9 "\u017c" (b | ;\n'.encode('utf-8')),
    # multi-byte characters before the construct: the underline is shifted / taken for a multi-line start / dropped
    ('non_ascii_shifted', 'cmd x "\u00e9\u00e9" <A>b<C>;\n'.encode('utf-8')),
    ('non_ascii_multiline', 'cmd x "\u00e9\u00e9\u00e9\u00e9\u00e9\u00e9\u00e9\u00e9" <A>b<C>;\n'.encode('utf-8')),
    ('non_ascii_dropped', ('cmd x "' + '\u00e9' * 12 + '" <UNDEF>;\n<A> ::= p;\n<A> ::= q;\n').encode('utf-8')),
    ('tab_ff_cr', b'cmd\ta\x0c<UNDEF>\r\n\t --o=(a\tb) ;\n'),
]


def command_lines(r, quick):
    """-> list of dict(argv=[...], usage='file'|'stdin'|'missing'|None, existing=bool)"""
    out = []
    shells = [[], ['bash'], ['fish'], ['zsh'], ['pwsh'], ['bash', 'fish'], ['zsh', 'pwsh', 'bash']]
    dests = ['out.script', '-', 'existing.script', '_cmd', 'd/_mytool']
    dots = [(None, None), ('r.dot', None), (None, 'd.dot'), ('r.dot', 'd.dot'), ('SAME', None), (None, 'SAME'), ('-', None),
            ('x.dot', 'x.dot')]
    for sh in shells:
        for dest in dests:
            for rg, df in dots:
                out.append(dict(shells=sh, dest=dest, regex=rg, dfa=df, usage='file', version=False))
    for usage in ('stdin', 'missing', None):
        for sh in ([], ['bash'], ['zsh']):
            out.append(dict(shells=sh, dest='out.script', regex='r.dot', dfa=None, usage=usage, version=False))
    out.append(dict(shells=[], dest='-', regex=None, dfa=None, usage=None, version=True))
    out.append(dict(shells=['bash'], dest='out.script', regex='r.dot', dfa=None, usage='file', version=True))
    # the witnesses of the known finding (Graphviz output aliased with the script destination) on every run
    out.append(dict(shells=['bash'], dest='existing.script', regex='SAME', dfa=None, usage='file', version=False, pin=True))
    out.append(dict(shells=['zsh'], dest='-', regex=None, dfa='SAME', usage='file', version=False, pin=True))
    if quick:
        keep = [c for c in out if c['usage'] != 'file' or c['version'] or c.get('pin')]
        rest = [c for c in out if c not in keep]
        one = [c for c in rest if len(c['shells']) == 1]
        alias = [c for c in one if 'SAME' in (c['regex'], c['dfa'])]
        out = keep + r.sample(one, 36) + r.sample(alias, 6) + r.sample([c for c in rest if len(c['shells']) != 1], 8)
    return out


def build_case(cl, text):
    """-> (argv after the program name, stdin bytes or None, initial files {name: bytes}, model args text, model input text)"""
    files = {'existing.script': SENTINEL, 'd': None}
    argv = []
    margs = dict(version='1' if cl['version'] else '0', usage='-', bash='-', fish='-', zsh='-', pwsh='-', regex='-', dfa='-')
    if cl['version']:
        argv.append('--version')
    for sh in cl['shells']:
        argv += ['--' + sh, cl['dest']]
        margs[sh] = sexp.quote(cl['dest'])
    for key, val in (('regex', cl['regex']), ('dfa', cl['dfa'])):
        if val is not None:
            p = cl['dest'] if val == 'SAME' else val
            argv += ['--' + key, p]
            margs[key] = sexp.quote(p)
    stdin = None
    minput = sexp.quote(text.decode('latin-1'))
    try:
        text.decode('utf-8')
    except UnicodeDecodeError:
        minput = '-'          # read_to_string fails: the model's input is None, as for a file that is not there
    if cl['usage'] == 'file':
        files['g.usage'] = text
        argv.append('g.usage')
        margs['usage'] = sexp.quote('g.usage')
    elif cl['usage'] == 'stdin':
        stdin = text
        argv.append('-')
        margs['usage'] = sexp.quote('-')
    elif cl['usage'] == 'missing':
        argv.append('nope.usage')
        margs['usage'] = sexp.quote('nope.usage')
        minput = '-'
    order = ['version', 'usage', 'bash', 'fish', 'zsh', 'pwsh', 'regex', 'dfa']
    return argv, stdin, files, '(args %s)' % ' '.join('(%s %s)' % (k, margs[k]) for k in order), minput


def run_one(binary, argv, stdin, files):
    d = tempfile.mkdtemp(prefix='vfmain', dir=paths.CACHE)
    try:
        for name, content in files.items():
            if content is None:
                os.makedirs(os.path.join(d, name))
            else:
                open(os.path.join(d, name), 'wb').write(content)
        try:
            # CPU-time limit instead of a short wall-clock one: a loaded machine must not look like a hang
            p = subprocess.run(['bash', '-c', 'ulimit -t 30; exec "$@"', 'x', binary] + argv, cwd=d,
                               input=stdin if stdin is not None else b'', stdout=subprocess.PIPE,
                               stderr=subprocess.PIPE, timeout=900, env={'PATH': os.environ['PATH'], 'RUST_BACKTRACE': '0'})
            rc, out, err = p.returncode, p.stdout, p.stderr
        except subprocess.TimeoutExpired:
            rc, out, err = -9, b'', b''
        after = {}
        for dp, dn, fn in os.walk(d):
            for f in fn:
                fp = os.path.join(dp, f)
                after[os.path.relpath(fp, d)] = open(fp, 'rb').read()
        return dict(rc=rc, stdout=out, stderr=err, files=after)
    finally:
        shutil.rmtree(d, ignore_errors=True)


LOCATED = snippet.BLOCK


def stderr_messages(err):
    """the binary's stderr as a list of comparable messages"""
    out = []
    pos = 0
    n = len(err)
    while pos < n:
        m = LOCATED.match(err, pos)
        if m:
            bl = snippet.block_of(m)
            out.append(('located', 'w' if bl['warning'] else 'e', bl['label'], bl['help'], bl['header'], bl['no'], bl['src'], bl['ann']))
            pos = m.end()
            continue
        eol = err.find(b'\n', pos)
        eol = n if eol < 0 else eol
        line = err[pos:eol].decode('latin-1')
        pos = eol + 1
        if line == 'Missing usage file path argument':
            out.append(('missingusage',))
        elif line == 'Please specify exactly one of: --bash, --fish, --zsh, --pwsh':
            out.append(('exactlyone',))
        elif line.startswith('Error: '):
            out.append(('cannotread', line[len('Error: '):]))
            pos = n          # the cause chain of anyhow follows
        elif line == 'error: DFA Ambiguity:':
            out.append(('ambiguity', 'AmbiguousDFA'))
            while pos < n and err[pos:pos + 2] == b'  ':
                pos = err.find(b'\n', pos) + 1 or n
        elif line == 'error: Conflicting descriptions:':
            out.append(('ambiguity', 'ConflictingDescriptions'))
            pos = n          # the block runs to the end (handle_error exits)
        elif line.startswith('warning: ZSH requires the output script to be named '):
            out.append(('zshname', line[len('warning: ZSH requires the output script to be named '):].split(' for autoloading')[0]))
        else:
            out.append(('plain', line))
    return out


def model_messages(tr):
    out = []
    for e in tr:
        if e[0] != 'stderr':
            continue
        m = e[1]
        k = m[0]
        if k == 'located':
            line, cs, ce = str(m[7]), int(m[8]), int(m[9])
            out.append(('located', m[1], str(m[2]), None if m[4] == '-' else str(m[4]), str(m[5]), int(m[6]), line,
                        snippet.annotation(line, cs, ce, m[1] == 'w', str(m[3]))))
        elif k == 'ambiguity':
            out.append(('ambiguity', m[1][0]))
        elif k == 'zshname':
            out.append(('zshname', '"%s"' % str(m[1])))
        elif k in ('cannotread', 'plain'):
            out.append((k, str(m[1])))
        else:
            out.append((k,))
    return out


CYCLE = 'Nonterminal definitions cycle'


def same_messages(a, b):
    def cyc(x):
        return [m for m in x if m[0] == 'located' and m[2] == CYCLE]
    if cyc(a) and cyc(b) and len(cyc(a)) == len(a) and len(cyc(b)) == len(b):
        # which nonterminal of which cycle the report starts from follows the iteration order of a hash map in check.rs
        # (get_nonterminals_resolution_order); the model takes the first in source order: any non-empty report is accepted
        return True
    if len(a) != len(b):
        return False
    for x, y in zip(a, b):
        if x[0] != y[0]:
            return False
        if x[0] == 'located':
            # header, label, help, gutter number; the quoted line verbatim; the annotation line drawn from the model's columns
            if x[1:6] != y[1:6] or x[6].rstrip(' ') != y[6].rstrip(' ') or not snippet.same_annotation(x[7], y[7]):
                return False
        elif x != y:
            return False
    return True


ALIAS_CLASS = 'debug_output_aliases_script_destination'


def property_c06(c, b, run):
    """the sentence of C06 about what the caller sees, judged on the binary's run alone (no model involved):
    status 0 or 1; 1 -> something on stderr and the script destination as it was before; -> [(what, known class or None)]"""
    cl = c['cl']
    out = []
    if run['rc'] not in (0, 1):
        return [('C06: exit status %s (stderr %r)' % (run['rc'], run['stderr'][-200:]), None)]
    if run['rc'] == 1:
        if not run['stderr'].strip():
            out.append(('C06: exit status 1 without a diagnostic', None))
        if cl['shells'] and cl['dest'] != '-':
            before = b[2].get(cl['dest'])
            after = run['files'].get(cl['dest'])
            if before != after:
                # the mechanism: the Graphviz text the user sent to that very path (and nothing else) is what the file holds
                aliased = 'SAME' in (cl['regex'], cl['dfa']) and (after or b'').startswith(b'digraph') and (after or b'').rstrip().endswith(b'}')
                out.append(('C06: exit status 1 but the script destination %s was %s' % (
                    cl['dest'], 'created' if before is None else 'overwritten'), ALIAS_CLASS if aliased else None))
        if cl['shells'] and cl['dest'] == '-' and run['stdout'] and not cl['version']:
            aliased = ('SAME' in (cl['regex'], cl['dfa']) or '-' in (cl['regex'], cl['dfa'])) and run['stdout'].startswith(b'digraph') \
                and run['stdout'].rstrip().endswith(b'}')
            out.append(('C06: exit status 1 but %d bytes were written to the script destination (stdout)' % len(run['stdout']),
                        ALIAS_CLASS if aliased else None))
    return out


GENERATED = re.compile(rb'(generated by https://github.com/adaszko/complgen) [^\n]*')


def unversion(data):
    """the harness and the binary are two cargo builds: their version stamps may differ (-dirty suffix)"""
    return GENERATED.sub(rb'\1', data)


def tie(ctx, res, extra=(), label='main_run_tie'):
    r = ctx['rng']
    t0 = time.time()
    quick = ctx.get('tier') != 'thorough'
    with build.Lock():
        exe = build.harness()
        binary = build.complgen(False)
    version = subprocess.run([binary, '--version'], stdout=subprocess.PIPE).stdout.decode().rstrip('\n')
    cls = command_lines(r, quick)
    cases = []
    for name, text in INPUTS:
        for cl in (cls if not quick else [c for c in cls if r.random() < 0.4 or c['usage'] != 'file' or c.get('pin')]):
            shell = cl['shells'][0] if len(cl['shells']) == 1 else 'bash'
            t = text.replace(b'@SHELL>', ('@%s>' % shell).encode())
            cases.append(dict(name=name, cl=cl, text=t, shell=shell))
    # the random inputs of the caller (C06's generators), each under one random command line with one shell option
    one = [c for c in command_lines(r, False) if len(c['shells']) == 1 and not c['version']]
    extra = [(k, t) for k, t in extra if len(t) < 4000 and b'\0' not in t]     # cg-dump separates its inputs by NUL
    for name, text in r.sample(extra, min(len(extra), 60 if quick else 2500)):
        cl = r.choice(one)
        cases.append(dict(name='random:' + name, cl=cl, text=text, shell=cl['shells'][0]))
    texts = sorted(set(c['text'] for c in cases))
    dumps = {}
    for sh in ('bash', 'fish', 'zsh', 'pwsh'):
        for t, d in zip(texts, impl.dump(exe, texts, STAGES, [sh])):
            dumps[(t, sh)] = d[sh]
    built = [build_case(c['cl'], c['text']) for c in cases]
    with ThreadPoolExecutor(max_workers=paths.NCPU) as ex:
        runs = list(ex.map(lambda b: run_one(binary, b[0], b[1], b[2]), built))
    reqs = []
    for c, b, run in zip(cases, built, runs):
        st = dumps[(c['text'], c['shell'])]
        script = None
        if run['rc'] == 0 and c['cl']['shells'] == ['bash'] and not c['cl']['version']:
            script = (run['stdout'] if c['cl']['dest'] == '-' else run['files'].get(c['cl']['dest'], b'')).decode('latin-1')
            for key, stage in (('regex', 'REGEXDOT'), ('dfa', 'DFADOT')):
                # the Graphviz text precedes the script when both go to stdout
                if c['cl']['dest'] == '-' and c['cl'][key] in ('-', 'SAME') and script is not None:
                    dot = emitlib.script_of(st.get(stage)) or ''
                    script = script[len(dot):] if script.startswith(dot) else None
        command = 'cmd'
        if st.get('CHECK', '').startswith('(ok '):
            command = str(sexp.parse(st['CHECK'])[1])
        try:
            o = e2e.oracles(st, script, command)
        except Exception:
            o = '(oracles (pops) (fuel %d) (mainlits) (sublits) (groups) (sig ""))' % e2e.FUEL
        o = o[:-1] + ' (version %s))' % sexp.quote(version)
        reqs.append('mainrun %s %s %s' % (o, b[3], b[4]))
    outs = model.run(reqs)
    stats = dict(runs=0, agree=0, exit0=0, exit1=0, inconclusive=0)
    kinds = {}
    for c, b, run, o, rq in zip(cases, built, runs, outs, reqs):
        stats['runs'] += 1
        res.evaluations += 1
        st = dumps[(c['text'], c['shell'])]
        replay = dict(kind='tie-main', input=c['name'], argv=b[0], text=c['text'].decode('latin-1'), rc=run['rc'],
                      stdout=run['stdout'][:600].decode('latin-1'), stderr=run['stderr'][:1500].decode('latin-1'),
                      files={k: v[:80].decode('latin-1') for k, v in run['files'].items()}, model=o[:2500], request=rq[:2500])
        try:
            m = sexp.parse(o)
        except Exception:
            m = ['drivererror', o[:200]]
        if m[0] == 'oracle-conflict':
            stats['inconclusive'] += 1
            continue
        if m[0] == 'err':
            # BadOracle: the literal orders / shape groups are read from the bash script of the binary
            what = ('the binary exits %s without a bash script where Driver.compile accepts the grammar' % run['rc'] if run['rc'] != 0
                    else 'the oracles read from the binary\'s bash script are rejected by the model')
            res.violations.append(report.Violation('tie broken (Main.run vs the complgen command): ' + what, replay, found_input=False))
            continue
        if m[0] != 'ok':
            res.violations.append(report.Violation('Main.run answers %s (its totality is claimed by Props/C06c.v)' % o[:160],
                                                   replay, found_input=False))
            continue
        tr = m[1]
        problems = []
        known = False
        # ---- exit status
        code = [int(e[1]) for e in tr if e[0] == 'exit']
        if len(code) != 1 or tr[-1][0] != 'exit':
            problems.append('model trace does not end with one exit')
        elif code[0] != run['rc']:
            problems.append('exit status %s, model %s' % (run['rc'], code[0]))
        # ---- files and stdout
        files = {k: v for k, v in b[2].items() if v is not None}
        stdout = b''
        unknown = False

        def content_of(k):
            if k == 'regexdot':
                return emitlib.script_of(st.get('REGEXDOT'))
            if k == 'dfadot':
                return emitlib.script_of(st.get('DFADOT'))
            if k[1] == 'bash':
                return str(k[2])
            other = dumps[(c['text'], k[2])]
            return emitlib.script_of(other.get('SCRIPT'))
        for e in tr:
            if e[0] == 'stdout':
                stdout += str(e[1]).encode('latin-1') + b'\n'
            elif e[0] == 'write':
                txt = content_of(e[2])
                if txt is None:
                    unknown = True
                    continue
                data = txt.encode('latin-1')
                if e[1][0] == 'stdout':
                    stdout += data
                else:
                    files[str(e[1][1])] = data
        if not unknown:
            stdout = unversion(stdout)
            files = {k: unversion(v) for k, v in files.items()}
            run = dict(run, stdout=unversion(run['stdout']), files={k: unversion(v) for k, v in run['files'].items()})
            if stdout != run['stdout']:
                problems.append('stdout differs (%d bytes, model %d)' % (len(run['stdout']), len(stdout)))
            if files != run['files']:
                diff = sorted(set(files) ^ set(run['files'])) + [k for k in files if k in run['files'] and files[k] != run['files'][k]]
                problems.append('files differ: %s' % diff[:4])
        # ---- stderr
        got = stderr_messages(run['stderr'])
        want = model_messages(tr)
        if not same_messages(got, want):
            problems.append('stderr messages %s, model %s' % ([g[:3] for g in got][:5], [w[:3] for w in want][:5]))
        for what, cls in property_c06(c, b, run):
            res.violations.append(report.Violation(what, dict(replay, kind='main-property'), cls=cls))
            known = known or cls is not None
        key = (c['name'].split(':')[0], 'exit%s' % run['rc'])
        kinds[key] = kinds.get(key, 0) + 1
        if problems:
            res.violations.append(report.Violation('tie broken (Main.run vs the complgen command): ' + '; '.join(problems[:3]),
                                                   dict(replay, problems=problems), found_input=False))
        else:
            stats['agree'] += 1
            res.traces_validated += 1
            stats['exit%d' % run['rc']] = stats.get('exit%d' % run['rc'], 0) + 1
    stats['wall_s'] = round(time.time() - t0, 1)
    res.extra[label] = dict(stats, per_input={'%s/%s' % k: v for k, v in sorted(kinds.items())})
    return stats
