"""C04 -- every emitted script (bash/fish/zsh/pwsh) embeds exactly the compiled automaton.

Theorem side: Props/C04.v (the lookup tables give exactly the labelled transition relation and the per-level
candidate relation of the automaton, for every valid literal order; shape sharing is sound up to the zsh
compadd gap; reading the emitted bash script gives back the tables).
Ties: Model.Tables.all_tables (extracted, fed Rust's minimised automaton and Rust's literal order) == Rust's
TABLES dump exactly, main and every within-word automaton, 4 shells; Model.EmitBash.script == Rust's bash
script byte for byte.
Direct judgement: the extracted ScriptRead reader applied to RUST's script text must describe the automaton
of Rust's MIN dump (labels through the literal list read from the script, states through the shell's base)."""
import os
import time

from .. import build, emitlib, gen, impl, model, report, sexp
from ..emitlib import SHELLS, ARRAY_START
from ..sexp import Q

MANIFEST = dict(
    text=('Theorems C04_* (Props/C04.v, 21 statements): for the Gallina model of tables.rs get_lookup_tables and the dfa.rs getters, '
          'and for EVERY duplicate-free literal order, the literal list numbers the literals consecutively from the shell\'s array base; the '
          'match tables hold exactly the automaton\'s transitions on literals / commands / compadd commands / any-word / within-word automata '
          '(sound always; complete unless two transitions of one state share a table key -- witness C04_refuted_same_text_two_levels); the '
          'completion tables list for (level, state) exactly the inputs of that level leaving that state; one table set per within-word '
          'automaton, computed from that automaton, with consecutive script ids; isomorphic_to = true implies identical tables except literal '
          'texts and the completion-side compadd table (C04_refuted_zsh_compadd_levels is the machine-checked witness of that gap). '
          'Model tied to the code per run: extracted all_tables fed Rust\'s minimised automaton and literal order == Rust\'s TABLES dump '
          'exactly (main + every within-word automaton, 4 shells); extracted EmitBash.script (templates regenerated from bash.rs by T3) == '
          'Rust\'s bash script byte for byte. Direct judgement: the extracted Spec.ScriptRead reader (shell syntax of the data statements + '
          'ShellDQ for every constant) is applied to RUST\'s script for all four shells and the embedded automaton (states/ids minus the '
          'shell\'s base, labels through the literal list, descriptions, command function bodies, shape sharing resolved, start state, '
          'registration) must equal the automaton of Rust\'s MIN dump, main and within-word.'),
    design='6 C04',
    technique='Coq theorems (tables = automaton; codec round trip of the bash script) + extracted-model/implementation '
              'correspondence (tables exact, bash script byte for byte) + direct judgement by extracted script reader')

VALS = ['v', 'w', 'xy', 'q', 'on', 'off', 'auto', 'z$', 'b`c', 'x"y', "it's", 'a\\b']
TOPLITS = ['a', 'b', 'c', 'add', 'rm', '--opt', '-x', 'foo', 'bar', 'q$x', 'b`c', 'x"y', 'st*r', 'p?', '[k]', '~', 'a&b', 'hash#', '{x}', 'd!']
DESCRS = ['d1', 'd2', 'shared descr', 'with "quotes"', 'dollar $HOME', 'back`tick', 'tab\there', 'bs \\ here', "it's"]
CMDS = ['echo c1', 'echo c2 c3', 'printf "q\\n"', 'ls -1', 'echo $1']


class G:
    def __init__(self, r):
        self.r = r
        self.nsub = 0
        self.defs = {}

    def descr(self):
        return self.r.choice(DESCRS) if self.r.random() < 0.35 else None

    def nonterm(self, in_word=False):
        """an item that matches 'anything': undefined nonterminal, zsh-specialised nonterminal, PATH/DIRECTORY"""
        r = self.r
        k = r.random()
        if k < 0.4:
            return ('nt', r.choice(['U', 'V', '_']))
        if k < 0.7:
            n = r.choice(['ZA', 'ZB'])
            self.defs[n] = True
            return ('nt', n)
        if k < 0.85:
            return ('nt', r.choice(['PATH', 'DIRECTORY']))
        return ('cmd', r.choice(CMDS))

    def subword(self, shape=None):
        """prefix literal + tail; `shape` fixes the tail kind so that same-shaped words arise"""
        r = self.r
        self.nsub += 1
        pre = r.choice(['--k%d=', '-o%d', 'p%d:', '--long-option-%d=']) % self.nsub
        shape = shape or r.choice(['alt2', 'alt2', 'alt3', 'fb2', 'fb3', 'star', 'cmd', 'zsh', 'opt', 'altd', 'mix', 'altstar'])
        vals = r.sample(VALS, 3)
        if shape == 'alt2':
            tail = ('alt', [('lit', v, None) for v in vals[:2]])
        elif shape == 'alt3':
            tail = ('alt', [('lit', v, None) for v in vals])
        elif shape == 'altd':
            d = r.choice(DESCRS)
            tail = ('alt', [('lit', vals[0], d), ('lit', vals[1], d if r.random() < 0.5 else r.choice(DESCRS))])
        elif shape == 'fb2':
            tail = ('fb', [('lit', v, None) for v in vals[:2]])
        elif shape == 'fb3':
            tail = ('fb', [('lit', vals[0], None), ('alt', [('lit', vals[1], None), ('lit', vals[2], None)])])
        elif shape == 'star':
            tail = ('nt', r.choice(['U', 'V']))
        elif shape == 'cmd':
            tail = ('cmd', r.choice(CMDS))
        elif shape == 'zsh':
            a, b = r.sample(['ZA', 'ZB'], 2)
            self.defs['ZA'] = self.defs['ZB'] = True
            tail = ('fb', [('nt', a), ('nt', b)]) if r.random() < 0.6 else ('nt', a)
        elif shape == 'opt':
            tail = ('opt', ('lit', vals[0], None))
        elif shape == 'altstar':
            tail = ('alt', [('lit', vals[0], None), ('nt', 'U')])
        else:
            tail = ('fb', [('lit', vals[0], None), self.nonterm(True)])
        return ('sub', [('lit', pre, None), tail])

    def slot(self):
        r = self.r
        n = r.choice([1, 2, 2, 3, 4])
        items = []
        used_any = False
        lits = r.sample(TOPLITS, n)
        shapes = None
        if r.random() < 0.5:
            shapes = r.choice(['alt2', 'alt3', 'fb2', 'star', 'cmd', 'zsh', 'altd'])
        for i in range(n):
            k = r.random()
            if k < 0.45:
                items.append(('lit', lits[i], self.descr()))
            elif k < 0.8:
                items.append(self.subword(shapes if r.random() < 0.7 else None))
            elif not used_any:
                used_any = True
                items.append(self.nonterm())
            else:
                items.append(('lit', lits[i], self.descr()))
        k = r.random()
        if len(items) == 1:
            e = items[0]
        elif k < 0.6:
            e = ('alt', items)
        elif k < 0.85:
            # 1-3 levels of ||
            cut = r.randint(1, len(items) - 1)
            left = items[:cut]
            right = items[cut:]
            groups = [left, right]
            if len(right) > 1 and r.random() < 0.5:
                groups = [left, right[:1], right[1:]]
            e = ('fb', [g[0] if len(g) == 1 else ('alt', g) for g in groups])
        else:
            e = ('seq', items)
        k = r.random()
        if k < 0.2:
            e = ('opt', e)
        elif k < 0.3 and e[0] != 'many':
            e = ('many', e)
        return e

    def grammar(self):
        r = self.r
        slots = [self.slot() for _ in range(r.choice([1, 2, 2, 3]))]
        e = slots[0] if len(slots) == 1 else ('seq', slots)
        stmts = [('call', 'cmd', e)]
        for n in sorted(self.defs):
            stmts.append(('def', n, 'zsh', ('cmd', '_zsh_' + n.lower())))
            if r.random() < 0.7:
                stmts.append(('def', n, None, ('cmd', 'echo plain_' + n.lower())))
        return stmts


FIXED = [
    # the zsh completion-side compadd gap of isomorphic_to
    'cmd --p1=(<ZA> || <ZB>) | --p2=(<ZB> || <ZA>);\n<ZA@zsh> ::= {{{ _za }}};\n<ZB@zsh> ::= {{{ _zb }}};\n'
    '<ZA> ::= {{{ echo za }}};\n<ZB> ::= {{{ echo zb }}};\n',
    'cmd (a || <PATH>) <U>;\n',
    'cmd --k=(x || y || z) | -o<U> | p:{{{ echo 1 }}};\n',
    'cmd --a=(x|y) --b=(u|v) --c=(s|t|r) --d=(m|n);\n',
    'cmd (a "same" | b "same" | c "other" | d);\n',
    'cmd a "";\n',
    'cmd {{{ }}} | x;\n',
    'cmd <U>;\n',
    'cmd -o1(v|<U>) | -o2[w];\n',
    'cmd (a x || a y);\n',
    'cmd ({{{ echo c }}} x || {{{ echo c }}} y);\n',
    'cmd a;\n',
    'cmd [--x=(1|2)]... <DIRECTORY>;\n',
]


def make_texts(ctx):
    r = ctx['rng']
    n = 8000 if ctx['tier'] == 'thorough' else 1500
    out = [t.encode() for t in FIXED]
    for _ in range(n):
        g = G(r)
        out.append(gen.show_grammar(g.grammar()).encode('latin-1'))
    return out


def first_diff(a, b):
    la, lb = a.split('\n'), b.split('\n')
    for k, (x, y) in enumerate(zip(la, lb)):
        if x != y:
            return 'line %d: model %r, implementation %r' % (k + 1, x[:120], y[:120])
    return 'length differs: model %d lines, implementation %d lines' % (len(la), len(lb))


def strip_hash(t):
    """drop (shapehash N) from a parsed <tables>"""
    return [x for x in t if not (isinstance(x, list) and x and x[0] == 'shapehash')]


def norm_alltables(a):
    out = []
    for x in a:
        if isinstance(x, list) and x and x[0] == 'subaccepting':
            continue            # not in Rust's TABLES dump; judged against the MIN dump (see judge)
        if isinstance(x, list) and x and x[0] == 'main':
            out.append(['main', strip_hash(x[1])])
        elif isinstance(x, list) and x and x[0] == 'subwords':
            out.append(['subwords'] + [[s[0], s[1], strip_hash(s[2])] for s in x[1:]])
        else:
            out.append(x)
    return out


def field(t, name):
    for x in t[1:]:
        if isinstance(x, list) and x and x[0] == name:
            return x
    raise KeyError(name)


def literal_orders(tabs):
    """oracle: the literal order of main and of every within-word automaton, from Rust's TABLES"""
    main = field(field(tabs, 'main')[1], 'literals')[1:]
    om = [[l[1], l[2]] for l in main]
    osub = []
    for s in field(tabs, 'subwords')[1:]:
        osub.append([s[0]] + [[l[1], l[2]] for l in field(s[2], 'literals')[1:]])
    return om, osub


def shape_groups(script, command='cmd'):
    """oracle: the order of the shape groups, read from the function names of Rust's script:
    a _<cmd>_subword_shape_N function opens group N, each following wrapper that calls it joins it;
    a wrapper that calls _<cmd>_subword directly is a group of its own."""
    import re
    groups = []
    rx = re.compile(r'^(?:function )?_%s_subword_(shape_)?(\d+)(?: \(\) \{| \{)?$' % re.escape(command), re.M)
    pos = [(m.start(), m.group(1) is not None, int(m.group(2))) for m in rx.finditer(script)]
    for k, (at, is_shape, n) in enumerate(pos):
        if is_shape:
            groups.append(('shape', n, []))
            continue
        end = pos[k + 1][0] if k + 1 < len(pos) else len(script)
        body = script[at:end]
        m = re.search(r'_%s_subword_shape_(\d+) ' % re.escape(command), body.split('\n}', 1)[0].split('\nend', 1)[0])
        if m and groups and groups[-1][0] == 'shape' and groups[-1][1] == int(m.group(1)):
            groups[-1][2].append(n)
        else:
            groups.append(('single', None, [n]))
    return [g[2] for g in groups]


def fix_unreferenced(dfa_text):
    return dfa_text.replace('(unreferenced)', '(dfa (start 0) (trans) (acc) (inputs) (subdfas))')


def shared_compadd_gap(d, shell, stmts):
    """zsh: two within-word automata that share a shape function although their completion-side compadd
    relations differ (isomorphic_to ignores them)"""
    if shell != 'zsh':
        return False
    funcs, order, reg = emitlib.split_functions(shell, stmts)
    groups = {}
    for name in order:
        for st in funcs[name]:
            if st[0] == 'call' and '_subword_shape_' in str(st[1]):
                groups.setdefault(str(st[1]), []).append(name)
    def compadd_comp(sd):
        return frozenset((x[2], s, x[1]) for s, i, to in sd['trans'] for x in [sd['inputs'][i]] if x[0] == 'compadd')
    # script ids of sub-words are 1-based first-occurrence ranks over the main transitions
    ids = {}
    for s, i, to in d['trans']:
        x = d['inputs'][i]
        if x[0] == 'sub' and x[1] not in ids:
            ids[x[1]] = 1 + len(ids)
    by_name = {'_cmd_subword_%d' % w: d['subs'][pi] for pi, w in ids.items()}
    for g in groups.values():
        cs = {compadd_comp(by_name[n]) for n in g if n in by_name}
        if len(cs) > 1:
            return True
    return False


_SKELETON = {}


def skeleton_patterns(sh):
    """the lines of the regenerated templates of the emitter, as regular expressions: the command name and
    MATCH_FN_NAME are substituted, every other hole must be a number"""
    if sh in _SKELETON:
        return _SKELETON[sh]
    import importlib.util
    import re
    from .. import paths
    spec = importlib.util.spec_from_file_location('rs2v', os.path.join(paths.ROOT, 'translator', 'rs2v.py'))
    rs2v = importlib.util.module_from_spec(spec)
    spec.loader.exec_module(rs2v)
    src = open(os.path.join(paths.REPO, 'src', sh + '.rs'), encoding='utf-8').read()
    pats = set()
    for key, segs in rs2v.templates(src, sh + '.rs'):
        rx = ''
        for k, x in segs:
            if k == 'T':
                rx += re.escape(x)
            elif x == 'command':
                rx += 'cmd'
            elif x == 'MATCH_FN_NAME':
                rx += '__complgen_match'
            else:
                rx += r'\d+'
        for line in rx.split(re.escape('\n')):
            pats.add(line)
    compiled = [re.compile(p) for p in pats]
    _SKELETON[sh] = compiled
    return compiled


def data_tie(sh, script, out):
    """the model's data blocks occur byte for byte, in order, in Rust's script; every other line is a line of the
    regenerated skeleton templates.  -> None or a description of the first difference"""
    mo = sexp.parse(out)
    if mo[0] != 'ok':
        return 'model says %s' % sexp.dump(mo)[:120]
    pos = 0
    residual = []
    for kind, text in mo[1:]:
        text = str(text)
        at = script.find(text, pos)
        if at < 0:
            # show where it stops matching
            k = 0
            lines = text.split('\n')
            here = script[pos:]
            for ln in lines:
                if ln and ln not in here:
                    return 'block %s: line %r is not in the script (after offset %d)' % (kind, ln[:100], pos)
            return 'block %s is not contiguous in the script' % kind
        residual.append(script[pos:at])
        pos = at + len(text)
    residual.append(script[pos:])
    pats = skeleton_patterns(sh)
    for chunk in residual:
        for ln in chunk.split('\n'):
            if ln == '' or ln.startswith('# cmd completion script generated by '):
                continue
            if not any(p.fullmatch(ln) for p in pats):
                return 'line outside the data blocks that is not a skeleton line: %r' % ln[:120]
    return None


def judge(sh, st, read_out):
    """-> None when the script embeds the automaton, else (why, known-finding class or None)"""
    if read_out is None:
        return ('no script', None)
    stmts = sexp.parse(read_out)
    d = emitlib.parse_dfa(sexp.parse(fix_unreferenced(st['MIN'][4:-1])))
    with_descr = sh != 'bash'
    want = emitlib.canon_expected(d, d['subs'], sh, with_descr)
    cls = None
    if emitlib.key_clash(d):
        cls = 'same_text_two_levels'
    elif shared_compadd_gap(d, sh, stmts):
        cls = 'zsh_compadd_shape_sharing'
    try:
        got = emitlib.embedded(sh, stmts, 'cmd', with_descr)
    except emitlib.ReadError as e:
        return ('the data of the script cannot be read: %s' % e, cls)
    if got['main'][0] != want[0]:
        return ('start state: script says %r, automaton says %d' % (got['main'][0], want[0]), cls)
    if got['main'][1] != want[1]:
        a, b = got['main'][1], want[1]
        return ('next-state data differs: only in script %s; only in automaton %s'
                % (short(a - b), short(b - a)), cls)
    if got['main'][2] != want[2]:
        a, b = got['main'][2], want[2]
        return ('candidates per state and level differ: only in script %s; only in automaton %s'
                % (short(a - b), short(b - a)), cls)
    # the literal list: every literal of a transition is listed, nothing foreign is listed
    pool = set((x[1], x[2]) if with_descr else (x[1],) for x in d['inputs'] if x[0] == 'lit')
    B = ARRAY_START[sh]
    listed = [((t, got['descr'].get(k + B, '')) if with_descr else (t,)) for k, t in enumerate(got['literals'])]
    if set(listed) != pool:
        return ('literal list differs from the automaton\'s literals: %r vs %r' % (sorted(listed)[:6], sorted(pool)[:6]), cls)
    regs = got['registered']
    okreg = {'bash': [['_cmd', 'cmd']], 'fish': [['_cmd', 'cmd']], 'zsh': [['cmd'], ['_cmd', 'cmd']], 'pwsh': [['cmd']]}[sh]
    if regs != okreg:
        return ('registration: %r' % regs, None)
    maxl = max([k for k, _, _ in want[2]] + [0])
    if got['maxlevel'] is not None and got['maxlevel'] < maxl:
        return ('max_fallback_level %d below the highest level %d' % (got['maxlevel'], maxl), cls)
    return None


def short(xs, n=3):
    xs = sorted(xs, key=repr)
    return '[' + '; '.join(repr(x)[:160] for x in xs[:n]) + (' ...]' if len(xs) > n else ']')


def run(ctx, res):
    with build.Lock():
        exe = build.harness()
    timing = {}
    t0 = time.time()
    texts = make_texts(ctx)
    dumps = impl.dump(exe, texts, ['min', 'amb', 'tables', 'script'], SHELLS)
    timing['harness_s'] = round(time.time() - t0, 1)
    t0 = time.time()
    reqs = []
    keys = []
    accepted = 0
    for i, d in enumerate(dumps):
        for sh in SHELLS:
            st = d[sh]
            if 'TABLES' not in st or not st.get('MIN', '').startswith('(ok '):
                continue
            tabs = sexp.parse(st['TABLES'])
            om, osub = literal_orders(tabs)
            reqs.append('tables %s %s %s %s' % (sh, fix_unreferenced(st['MIN'][4:-1]), sexp.dump(om), sexp.dump(osub)))
            keys.append((i, sh))
            text = emitlib.script_of(st.get('SCRIPT'))
            if text is not None:
                reqs.append('readscript %s "cmd" %s' % (sh, sexp.quote(text)))
                keys.append((i, sh, 'read'))
            if sh != 'bash' and text is not None:
                reqs.append('emitdata %s "cmd" %s %s %s %s' % (sh, fix_unreferenced(st['MIN'][4:-1]), sexp.dump(om), sexp.dump(osub),
                                                             sexp.dump(shape_groups(text))))
                keys.append((i, sh, 'data'))
            if sh == 'bash':
                if text is not None:
                    first = text.split('\n', 1)[0]
                    reqs.append('emitbash "cmd" %s %s %s %s %s' % (sexp.quote(first[2:]), fix_unreferenced(st['MIN'][4:-1]),
                                                                  sexp.dump(om), sexp.dump(osub), sexp.dump(shape_groups(text))))
                    keys.append((i, 'bash-script'))
    outs = model.run(reqs)
    by = dict(zip(keys, outs))
    timing['model_s'] = round(time.time() - t0, 1)
    res.rule = 'random grammars (see generator G) x 4 shells; non-trivial = accepted grammars with at least one within-word automaton or command'
    nontrivial = set()
    script_ties = 0
    data_ties = 0
    for i, d in enumerate(dumps):
        for sh in SHELLS:
            st = d[sh]
            replay = dict(grammar=texts[i].decode('latin-1'), shell=sh)
            if 'CRASH' in st or 'PANIC' in st:
                res.violations.append(report.Violation('implementation crashed', dict(replay, kind='crash', impl=str(st)[:600])))
                continue
            if (i, sh) not in by:
                continue
            accepted += 1
            res.evaluations += 1
            rust = norm_alltables(sexp.parse(st['TABLES']))
            mo = sexp.parse(by[(i, sh)])
            tie = None
            if mo[0] != 'ok':
                tie = report.Violation('tie T1 broken at stage tables: model says %s' % sexp.dump(mo)[:200],
                                       dict(replay, kind='tie-T1', stage='tables', model=by[(i, sh)][:2000]), found_input=False)
            else:
                mine = norm_alltables(mo[1])
                valid = mo[2][1] == '1'
                if mine != rust or not valid:
                    diff = [a[0] for a, b in zip(mine[1:], rust[1:]) if a != b]
                    tie = report.Violation(
                        'tie T1 broken at stage tables (%s; literal order valid=%s)' % (diff, valid),
                        dict(replay, kind='tie-T1', stage='tables', model=sexp.dump(mine)[:3000], impl=sexp.dump(rust)[:3000]),
                        found_input=False)
            if sh == 'bash' and (i, 'bash-script') in by:
                mo = sexp.parse(by[(i, 'bash-script')])
                text = emitlib.script_of(st.get('SCRIPT'))
                if mo[0] != 'ok' or str(mo[1]) != text or mo[2] != '1':
                    why = 'model says %s' % sexp.dump(mo)[:100] if mo[0] != 'ok' else (
                        'orders/grouping not valid' if mo[2] != '1' else first_diff(str(mo[1]), text))
                    tie = tie or report.Violation(
                        'tie T1 broken at stage script (bash): ' + why,
                        dict(replay, kind='tie-T1', stage='script', why=why), found_input=False)
                else:
                    script_ties += 1
            if sh != 'bash' and (i, sh, 'data') in by:
                why = data_tie(sh, emitlib.script_of(st.get('SCRIPT')), by[(i, sh, 'data')])
                if why is not None:
                    tie = tie or report.Violation('tie T1 broken at stage script (%s data sections): %s' % (sh, why),
                                                  dict(replay, kind='tie-T1', stage='script-data', why=why), found_input=False)
                else:
                    data_ties += 1
            if tie is None:
                res.traces_validated += 1
            # ---- direct judgement: what the script embeds (read by the extracted Spec.ScriptRead with the shell's
            # own quoting rules and index base) against the automaton of Rust's MIN dump
            verdict = judge(sh, st, by.get((i, sh, 'read')))
            if verdict is not None:
                why, cls = verdict
                res.violations.append(report.Violation('C04: ' + why, dict(replay, kind='spec-judgement', why=why,
                                                                          script=(emitlib.script_of(st.get('SCRIPT')) or '')[:6000]), cls=cls))
            elif tie is not None:
                res.violations.append(tie)
            elif len(res.samples) < 6 and (i * 7 + SHELLS.index(sh)) % 11 == 0 and len(field(rust, 'subwords')) > 1:
                res.samples.append(dict(grammar=texts[i].decode('latin-1')[:300], shell=sh,
                                        read_statements=(by.get((i, sh, 'read')) or '')[:400]))
            if len(field(rust, 'subwords')) > 1 or len(field(rust, 'commands')) > 1:
                nontrivial.add((i, sh))
    res.nontrivial = len(nontrivial)
    res.extra['accepted'] = accepted
    res.extra['bash_scripts_byte_identical'] = script_ties
    res.extra['fish_zsh_pwsh_data_sections_byte_identical'] = data_ties
    res.extra['grammars'] = len(texts)
    res.extra['timing'] = timing
    # capstone: Model/Compiler.v compile_bash on the SOURCE TEXT == the script of the real binary, byte for byte
    from . import e2e
    e2e.tie(ctx, res, e2e.corpus(ctx, texts))
