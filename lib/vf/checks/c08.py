"""C08 -- grammar mistakes are rejected with the right diagnostic; clean grammars pass.

Theorems: Props/C08.v (verdict of the Gallina model of check.rs against Spec/Mistakes.v).
Tie T1: Model.Check.from_grammar (extracted) vs ValidGrammar::from_grammar on Rust's parse trees.
Direct judgement: clean-by-construction grammars with at most one planted mistake of a known
class; the verdict + diagnostic class of the library AND of the complgen binary are compared with
the planted class, and with Spec.Mistakes.present (extracted) evaluated on Rust's parse tree."""
from .. import build, coqcheck, impl, model, planted, report, sexp
from .c11 import norm_check

SHELLS = planted.SHELLS

MANIFEST = dict(
    text=('Props/C08.v: theorems about the Gallina model of ValidGrammar::from_grammar against Spec/Mistakes.v (decidable mistake '
          'classes written from the property text): the statement-level mistakes (no call variant, varying names, "/" in the '
          'name, duplicate plain definition) are rejected with exactly the matching error, in the order the code checks them; '
          'remaining classes are stated and partially proved (see evidence.coverage.theorems). The model is tied to src/check.rs '
          'by exact comparison with the library on the same parse trees (T1); the implementation (library pipeline and the '
          'complgen binary: exit status + first diagnostic line) is judged directly on clean-by-construction grammars with at '
          'most one planted mistake of each class, placed at any depth and behind chains of definitions, for all four shells; '
          'Spec.Mistakes.present (extracted) must agree with the planted class as well, so the specification is tested too.'),
    design='6 C08',
    technique='Coq theorems on the check.rs model + extracted-model/implementation correspondence + planted-mistake judgement of library and binary')

# error variant of the library -> spec class(es) it may answer to
VARIANT_CLASSES = {
    'MissingCallVariants': {'MNoCallVariant'},
    'VaryingCommandNames': {'MVaryingNames'},
    'InvalidCommandName': {'MSlashInName'},
    'DuplicateNonterminalDefinition': {'MDuplicatePlain', 'MDuplicateForShell'},
    'UnknownShell': {'MUnknownShell'},
    'NonCommandSpecialization': {'MNonCommandForShell'},
    'NonterminalDefinitionsCycle': {'MCycle'},
    'SubwordSpaces': {'MSubwordSpaces'},
    'UnboundedMatchable': {'MPlaceholderNotLast'},
}


def library_verdict(st):
    """-> ('ok', None) | ('err', Variant) | ('crash', what)"""
    if 'CRASH' in st:
        return 'crash', 'rc ' + st['CRASH']
    if 'PANIC' in st:
        return 'crash', 'panic ' + st['PANIC'][:200]
    for stage in ('PARSE', 'CHECK', 'REGEX', 'RAW', 'AMB'):
        if stage in st and st[stage].startswith('(err '):
            return 'err', sexp.parse(st[stage])[1][0]
    if 'AMB' in st and st['AMB'].startswith('(ok'):
        return 'ok', None
    return 'crash', 'incomplete dump: ' + ','.join(sorted(st))


def first_error_line(stderr):
    """First line of stderr that is not part of a warning (warnings precede late errors)."""
    for l in stderr.decode('latin-1').split('\n'):
        if 'error' in l or l.startswith('Grammar needs'):
            return l
    return stderr.decode('latin-1').split('\n')[0] if stderr else ''


def cases(ctx):
    r = ctx['rng']
    n = 10 if ctx['tier'] == 'quick' else 200
    out = []
    for kind in ['clean'] * 4 + planted.MISTAKES:
        for _ in range(n):
            stmts, cls, marker = planted.plant(r, kind)
            text = planted.relayout(stmts, r) if r.random() < 0.5 else '\n'.join(stmts) + '\n'
            out.append(dict(kind=kind, cls=cls, marker=marker, text=text.encode('latin-1')))
    return out


def run(ctx, res):
    with build.Lock():
        exe = build.harness()
        binary = build.complgen()
        # the end-to-end theorems (the checker classes lifted to the source text through Driver.compile) live in Props/C08b.v
        extra = coqcheck.check_property('C08b')
    if not extra['ok']:
        res.violations.append(report.Violation('proof obligations of C08b no longer check',
                                               dict(kind='proof-obligation', errors=extra['errors'][:5]), found_input=False))
    res.extra['theorems_C08b'] = extra['theorems']
    cs = cases(ctx)
    texts = [c['text'] for c in cs]
    dumps = impl.dump(exe, texts, ['parse', 'check', 'regex', 'raw', 'min', 'amb'], SHELLS)
    jobs = []
    for c in cs:
        for sh in SHELLS:
            jobs.append(dict(text=c['text'], shell=sh))
    bins = impl.run_binary_many(binary, jobs)
    reqs, index = [], []
    for i, d in enumerate(dumps):
        for sh in SHELLS:
            st = d[sh]
            if st.get('PARSE', '').startswith('(ok '):
                tree = st['PARSE'][4:-1]
                reqs.append('check %s %s' % (sh, tree)); index.append((i, sh, 'check'))
                reqs.append('mistakes %s %s' % (sh, tree)); index.append((i, sh, 'mistakes'))
            if st.get('MIN', '').startswith('(ok ') and 'AMB' in st:
                reqs.append('amb %s' % st['MIN'][4:-1]); index.append((i, sh, 'amb'))
    outs = dict(zip(index, model.run(reqs)))
    res.rule = ('clean-by-construction random grammar (fresh literal per leaf, guarded placeholders) + at most one planted mistake '
                'of classes %s, placed in the call variant or behind 0-2 definitions, random layout; x 4 shells; '
                'non-trivial = distinct (kind, shell, text) with a planted mistake or with >= 1 definition' % ', '.join(planted.MISTAKES))
    seen = set()
    per_kind = {}
    for i, c in enumerate(cs):
        for si, sh in enumerate(SHELLS):
            st = dumps[i][sh]
            b = bins[i * len(SHELLS) + si]
            res.evaluations += 1
            want = planted.expected_class(c['cls'], sh)
            either = c['kind'] == 'non_command_plain_of_spec'   # outside the converse's side condition
            if either:
                want = None
            kind, variant = library_verdict(st)
            first = first_error_line(b['stderr'])
            replay = dict(grammar=c['text'].decode('latin-1'), shell=sh, planted=c['kind'], expected=want,
                          library=[kind, variant], binary_rc=b['rc'], binary_stderr_first=first,
                          impl={k: v[:1500] for k, v in st.items()})
            key = (c['kind'], sh, c['text'])
            if key not in seen and (c['kind'] != 'clean' or b'::=' in c['text'] or b' = ' in c['text']):
                seen.add(key)
            per_kind[c['kind']] = per_kind.get(c['kind'], 0) + 1
            problems = []
            # --- the implementation against the planted oracle
            if kind == 'crash':
                problems.append('library crashed: %s' % variant)
            elif want is None:
                if either:
                    if not (kind == 'ok' and b['rc'] == 0 or variant == 'NonCommandSpecialization' and b['rc'] == 1):
                        problems.append('plain non-command definition of a specialised name: library %s/%s, binary rc %s' % (kind, variant, b['rc']))
                elif kind != 'ok':
                    problems.append('clean grammar rejected by the library with %s' % variant)
                elif b['rc'] != 0:
                    problems.append('clean grammar: binary exit status %s (%s)' % (b['rc'], first))
            else:
                if kind != 'err':
                    problems.append('planted %s accepted by the library' % want)
                elif variant != want:
                    problems.append('planted %s, library reports %s' % (want, variant))
                if b['rc'] != 1:
                    problems.append('planted %s: binary exit status %s' % (want, b['rc']))
                elif planted.DIAG[want] not in first:
                    problems.append('planted %s: first diagnostic line is %r' % (want, first))
                if b['stdout']:
                    problems.append('rejected grammar but something was written to stdout')
            # --- the specification against the planted oracle (tests the spec itself)
            mi = outs.get((i, sh, 'mistakes'))
            if mi is not None and not either and c['kind'] not in ('parse_error', 'conflicting_descriptions'):
                msx = sexp.parse(mi)
                present = set(msx[0][1:])
                if want is None and present:
                    problems.append('SPEC: Mistakes.present = %s on a clean grammar' % sorted(present))
                if want is not None and not (VARIANT_CLASSES.get(want, set()) & present):
                    problems.append('SPEC: planted %s but Mistakes.present = %s' % (want, sorted(present)))
                replay['spec_present'] = sorted(present)
            # --- T1
            mo = outs.get((i, sh, 'check'))
            t1_ok = True
            if mo is not None and 'CHECK' in st:
                t1_ok = norm_check(sexp.parse(st['CHECK'])) == norm_check(sexp.parse(mo))
                if t1_ok:
                    res.traces_validated += 1
                replay['model_check'] = mo[:1500]
                if not t1_ok and variant == 'NonterminalDefinitionsCycle' and mo.startswith('(err (NonterminalDefinitionsCycle'):
                    t1_ok = True      # which cycle is reported depends on hash order (oracle of DESIGN 4.3)
                    res.traces_validated += 1
            # --- T1 for the last check of the pipeline (DFA::check_ambiguity_best_effort on the minimised automaton)
            ma = outs.get((i, sh, 'amb'))
            if ma is not None:
                if sexp.parse(ma) == sexp.parse(st['AMB']):
                    res.traces_validated += 1
                else:
                    t1_ok = False
                    replay['model_amb'] = ma[:1500]
            if problems:
                res.violations.append(report.Violation('C08: ' + '; '.join(problems), dict(replay, kind='spec-judgement', problems=problems)))
            elif not t1_ok:
                res.violations.append(report.Violation('tie T1 broken at stage check', dict(replay, kind='tie-T1'), found_input=False))
            if len(res.samples) < 6 and si == 0 and i % 97 == 0:
                res.samples.append(dict(planted=c['kind'], grammar=c['text'].decode('latin-1')[:400], shell=sh,
                                        library=[kind, variant], binary_rc=b['rc'], first_diagnostic=first))
    res.nontrivial = len(seen)
    res.extra['cases_per_kind'] = per_kind
