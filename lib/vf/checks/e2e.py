"""End-to-end tie of the capstone model Model/Compiler.v: compile_bash.

`compile_bash oracles builtins text` is the whole of `complgen --bash` as ONE Gallina function from the source
text to the script text (Driver.compile ; Tables.all_tables Bash ; EmitBash.script).  For generated grammars the
oracles -- exactly the choices the Rust code leaves to hash tables and to an unstable sort -- are read off Rust's
dumps:
  * pop order of every run of the subset construction = row order of Rust's raw automata (SUBRAW for the within-word
    regexes in order of first use, RAW for the main regex);
  * literal tie orders = the literal lists of Rust's TABLES dump (main and every within-word automaton);
  * shape-group order = function names of the script (as lib/vf/checks/c04.py does);
  * signature = first line of the script;
then the extracted compile_bash runs on the SOURCE TEXT and must return, byte for byte, the script the real
`complgen --bash` binary writes; for rejected grammars it must reject at the same stage with the same error variant
(and the binary must exit 1).  Not a property check of its own: `tie(ctx, res, texts)` is called by c04.py (and can
be called by c06.py); `python3 -m vf.checks.e2e` style use goes through bin/check C04."""
import time

from .. import build, emitlib, impl, model, report, sexp

FUEL = 200000
STAGES = ['parse', 'check', 'regex', 'subraw', 'raw', 'min', 'amb', 'tables', 'script']
STAGE_OF = {'PARSE': 'parse', 'CHECK': 'check', 'REGEX': 'regex', 'RAW': 'subset', 'AMB': 'amb'}


def field(t, name):
    for x in t[1:]:
        if isinstance(x, list) and x and x[0] == name:
            return x
    raise KeyError(name)


HYPS = dict(seen=0, lits_nodup=0, sub_lits_nonempty=0, listed_twice_without_empty_description=[])

# a literal both without a description and with the empty one: Rust lists it twice (Props/Capstone.v, C01 hypotheses)
WITNESS_TWICE = [b'cmd (x a | y a "") z;', b'cmd (x a | y a "");', b'cmd (x a "" | y a) z;', b'cmd a "" b;', b'cmd (a | b) "";',
                 b'cmd --k=(a | b a "") --k=(a "" | c);', b'cmd (a "" || a) z;']


def row_ids(dfa_sx):
    """state ids of the rows of a (dfa ...) in row order = the order in which Rust popped the states"""
    return [row[0] for row in field(dfa_sx, 'trans')[1:]]


def oracles(st, script, command, text=None):
    """-> text of the (oracles ...) argument, from the bash dump `st` of one grammar and the binary's script (or None)"""
    pops = []
    if st.get('REGEX', '').startswith('(ok '):
        rg = sexp.parse(st['REGEX'])
        rids = []
        for i in field(rg[1], 'inputs')[1:]:
            if i[0] == 'sub' and int(i[1]) not in rids:
                rids.append(int(i[1]))
        subraw = {}
        if 'SUBRAW' in st:
            for ent in sexp.parse(st['SUBRAW']):
                if len(ent) == 3:
                    subraw[int(ent[0])] = ent[1]
        for rid in rids:
            if rid not in subraw:
                break
            pops.append(row_ids(subraw[rid]))
        if st.get('RAW', '').startswith('(ok '):
            pops.append(row_ids(sexp.parse(st['RAW'])[1]))
    om, osub, groups, sig = [], [], [], ''
    if script is not None and 'TABLES' in st:
        from .c04 import literal_orders, shape_groups
        om, osub = literal_orders(sexp.parse(st['TABLES']))
        groups = shape_groups(script, command)
        first = script.split('\n', 1)[0]
        sig = first[2:] if first.startswith('# ') else first
    # the decidable side conditions of the source-level corollaries (Props/Capstone.v), evaluated on Rust's oracles
    pairs = lambda l: [(str(x[0]), str(x[1])) for x in l]
    HYPS['seen'] += 1
    if len(set(pairs(om))) == len(om) and all(len(set(pairs(e[1:]))) == len(e) - 1 for e in osub):
        HYPS['lits_nodup'] += 1
    elif text is not None and b'""' not in text:
        # CapstoneLits.compiled_orders_nodup: impossible when no description of the text is empty
        HYPS['listed_twice_without_empty_description'].append(text.decode('latin-1')[:200])
    if all(str(x[0]) != '' for e in osub for x in e[1:]):
        HYPS['sub_lits_nonempty'] += 1
    return '(oracles (pops %s) (fuel %d) (mainlits %s) (sublits %s) (groups %s) (sig %s))' % (
        ' '.join('(%s)' % ' '.join(p) for p in pops), FUEL,
        ' '.join(sexp.dump(x) for x in om), ' '.join(sexp.dump(x) for x in osub),
        ' '.join(sexp.dump(g) for g in groups), sexp.quote(sig))


def first_diff(a, b):
    la, lb = a.split('\n'), b.split('\n')
    for k, (x, y) in enumerate(zip(la, lb)):
        if x != y:
            return 'line %d: model %r, binary %r' % (k + 1, x[:120], y[:120])
    return 'length differs: model %d lines, binary %d lines' % (len(la), len(lb))


def usable(t):
    return all(32 <= c < 127 or c in (9, 10, 12, 13) for c in t)


def corpus(ctx, texts):
    """the grammars of the calling check + the automaton shapes of c03 (loops around alternatives sharing suffixes,
    all-accepting, within-word loops) + the accepted/rejected/mutated texts of c06"""
    from . import c03, c06
    import random
    sub = dict(ctx, rng=random.Random(ctx.get('seed', 0) + 7919))
    quick = ctx.get('tier') != 'thorough'
    out = list(texts[: (200 if quick else len(texts))])
    out += [t for _, t in c03.grammars(dict(sub, tier='quick'))][:: (20 if quick else 1)]
    out += [t for k, t in c06.cases(dict(sub, tier='quick')) if not k.startswith('probe')]
    out += WITNESS_TWICE
    return list(dict.fromkeys(out))


def _coq_tree_key():
    import hashlib
    import os
    from .. import paths
    h = hashlib.sha1()
    for root in ('theories', 'gen'):
        for dp, _, fs in sorted(os.walk(os.path.join(paths.COQ, root))):
            for f in sorted(fs):
                if f.endswith('.v'):
                    st = os.stat(os.path.join(dp, f))
                    h.update(('%s/%s %d %d\n' % (dp, f, st.st_mtime_ns, st.st_size)).encode())
    st = os.stat(os.path.join(paths.COQ, '_CoqProject'))
    h.update(('proj %d %d' % (st.st_mtime_ns, st.st_size)).encode())
    return h.hexdigest()


def capstone_obligations(res, prefix):
    """proof obligations of Props/Capstone.v (source-level corollaries of compile_bash); `prefix` selects the
    theorem names the calling check reports (e.g. 'C14_'): one-liner for the check of the property they serve.
    Four checks call this; the verdict for one state of the Coq sources (paths, sizes, mtimes of every .v and of
    _CoqProject) is computed once and kept in .cache/capstone-obligations.json."""
    import json
    import os
    from .. import coqcheck, paths
    cache = os.path.join(paths.CACHE, 'capstone-obligations.json')
    key = _coq_tree_key()
    extra = None
    try:
        c = json.load(open(cache))
        if c.get('key') == key and c['result'].get('ok'):
            extra = c['result']
    except Exception:
        extra = None
    if extra is None:
        extra = coqcheck.check_property('Capstone')
        if _coq_tree_key() == key:
            json.dump(dict(key=key, result=extra), open(cache, 'w'), default=str)
    if not extra['ok']:
        res.violations.append(report.Violation('proof obligations of Props/Capstone.v (source-level corollaries of compile_bash) no longer check',
                                               dict(kind='proof-obligation', property='Capstone', errors=extra['errors'][:5]), found_input=False))
    res.extra['theorems_Capstone'] = [t for t in extra['theorems'] if t.startswith(prefix)]


def tie(ctx, res, texts, label='end_to_end_bash', binary_max=None):
    """texts: list of bytes (grammar sources).  Appends violations to res, fills res.extra[label]; returns the number
    of scripts reproduced byte for byte.  The first `binary_max` texts (default: 250 quick / 4000 thorough) are
    compared with what the real `complgen --bash` binary writes (one process per grammar: slow), the others with
    the script the same library code returns inside cg-dump."""
    if binary_max is None:
        binary_max = 40 if ctx.get('tier') != 'thorough' else 3000
    t0 = time.time()
    texts = [t for t in texts if usable(t)]
    with build.Lock():
        exe = build.harness()
        binary = build.complgen(False)
    dumps = impl.dump(exe, texts, STAGES, ['bash'])
    t_dump = time.time() - t0
    runs = impl.run_binary_many(binary, [dict(text=t, shell='bash', to_file=False) for t in texts[:binary_max]], timeout=20)
    for t, d in list(zip(texts, dumps))[binary_max:]:
        # stand-in with the library's own script (same code, run in the harness process)
        st = d['bash']
        lib = emitlib.script_of(st.get('SCRIPT'))
        rejected = any(st.get(k, '').startswith('(err') for k in ('PARSE', 'CHECK', 'REGEX', 'RAW', 'AMB'))
        runs.append(dict(rc=0 if lib is not None else (1 if rejected else -1), stdout=(lib or '').encode('latin-1'),
                         stderr=b'', timed_out=False, library=True))
    t_bin = time.time() - t0 - t_dump
    reqs = []
    for t, d, b in zip(texts, dumps, runs):
        st = d['bash']
        script = b['stdout'].decode('latin-1') if b['rc'] == 0 and b['stdout'] else None
        command = 'cmd'
        if st.get('CHECK', '').startswith('(ok '):
            command = str(sexp.parse(st['CHECK'])[1])
        try:
            o = oracles(st, script, command, t)
        except Exception as e:      # malformed dump: let the comparison below report it
            o = '(oracles (pops) (fuel %d) (mainlits) (sublits) (groups) (sig ""))' % FUEL
        reqs.append('compilebash %s %s' % (o, sexp.quote(t.decode('latin-1'))))
    t1 = time.time()
    outs = model.run(reqs)
    t_model = time.time() - t1
    agree = dict(script=0, reject=0, conflict=0, binary=0)
    with_words = 0
    for t, d, b, o in zip(texts, dumps, runs, outs):
        st = d['bash']
        res.evaluations += 1
        replay = dict(kind='tie-compile-bash', grammar=t.decode('latin-1'), model=o[:1500], binary_rc=b['rc'],
                      binary_stderr=b['stderr'][-400:].decode('latin-1'), impl={k: v[:600] for k, v in st.items()})
        if 'CRASH' in st or 'PANIC' in st or b['timed_out'] or b['rc'] not in (0, 1):
            # a crash of the implementation (also C06's business) must not let the tie pass for lack of cases
            res.violations.append(report.Violation('the implementation crashed on a corpus grammar (%s, binary rc %s)'
                                                   % ((st.get('PANIC') or st.get('CRASH') or 'binary')[:120], b['rc']),
                                                   dict(replay, kind='crash')))
            continue
        try:
            m = sexp.parse(o)
        except Exception:
            m = ['drivererror', o[:200]]
        if m[0] in ('panic', 'outoffuel', 'drivererror'):
            res.violations.append(report.Violation('compile_bash answers %s (its totality is claimed by Props/C04c.v)' % o[:200],
                                                   replay, found_input=False))
            continue
        if m[0] == 'oracle-conflict':
            agree['conflict'] += 1      # no pure choice function replays Rust's pops on this input: inconclusive
            continue
        err = [(STAGE_OF[s], sexp.parse(st[s])) for s in ('PARSE', 'CHECK', 'REGEX', 'RAW', 'AMB') if s in st and st[s].startswith('(err')]
        if err:
            stage, e = err[0]
            variant = e[1][0]
            if variant in ('AmbiguousDFA', 'ConflictingDescriptions'):
                stage = 'amb'          # the ambiguity check of a within-word automaton runs inside from_regex
            ok = m[0] == 'err' and m[1] == stage and isinstance(m[2], list) and m[2][0] == variant and b['rc'] == 1
            if ok and variant != 'NonterminalDefinitionsCycle' and stage in ('parse', 'check'):
                ok = m[2] == e[1]
            if ok:
                agree['reject'] += 1
                res.traces_validated += 1
            else:
                res.violations.append(report.Violation(
                    'tie broken (compile_bash): library rejects at %s with %s (binary rc %s), model says %s' % (stage, variant, b['rc'], o[:120]),
                    replay, found_input=False))
            continue
        script = b['stdout'].decode('latin-1') if b['rc'] == 0 else None
        if script is None:
            res.violations.append(report.Violation('tie broken (compile_bash): the library accepts, the binary exits %s' % b['rc'],
                                                   replay, found_input=False))
            continue
        if m[0] == 'ok' and str(m[1]) == script:
            agree['script'] += 1
            if not b.get('library'):
                agree['binary'] += 1
            res.traces_validated += 1
            if '_subword' in script:
                with_words += 1
        else:
            why = ('model says %s' % o[:160]) if m[0] != 'ok' else first_diff(str(m[1]), script)
            res.violations.append(report.Violation('tie broken (compile_bash): script differs from the binary\'s: ' + why,
                                                   dict(replay, why=why), found_input=False))
    if label == 'end_to_end_bash':
        # the theorems about compile_bash (totality, rejections, what the script embeds) live in Props/C04c.v
        from .. import coqcheck
        extra = coqcheck.check_property('C04c')
        if not extra['ok']:
            res.violations.append(report.Violation('proof obligations of C04c (compile_bash: totality / embedding) no longer check',
                                                   dict(kind='proof-obligation', property='C04c', errors=extra['errors']), found_input=False))
        res.extra['theorems_C04c'] = extra['theorems']
    for w in HYPS['listed_twice_without_empty_description']:
        res.violations.append(report.Violation('Rust lists a literal twice although no description of the text is empty '
                                               '(CapstoneLits.compiled_orders_nodup proves the model cannot)', dict(kind='tie-compile-bash', grammar=w)))
    res.extra['capstone_side_conditions_on_rust_oracles'] = dict(HYPS, listed_twice_without_empty_description=len(HYPS['listed_twice_without_empty_description']))
    res.extra[label] = dict(texts=len(texts), scripts_byte_identical=agree['script'], of_which_against_the_binary=agree['binary'], with_within_word_automata=with_words,
                            rejections_agree=agree['reject'], oracle_conflicts=agree['conflict'],
                            seconds=round(time.time() - t0, 1), harness_s=round(t_dump, 1), binary_s=round(t_bin, 1), model_s=round(t_model, 1))
    return agree['script']


def tie_data(ctx, res, texts, label='end_to_end_data', binary_max=None):
    """The same for fish, zsh and pwsh, as far as the emitter models go (Model/Compiler.v compile_data = Driver.compile ;
    Tables.all_tables sh ; EmitData sections): on the SOURCE TEXT, with the oracles of the run for that shell, the data
    blocks must occur byte for byte, in order, in the script (of the real binary for the first `binary_max` texts per
    shell, of the same library code inside cg-dump for the rest) and every other line must be a line of the regenerated
    skeleton templates (c04.data_tie); rejections must agree on stage and variant."""
    from .c04 import data_tie
    t0 = time.time()
    shells = ['fish', 'zsh', 'pwsh']
    if binary_max is None:
        binary_max = 15 if ctx.get('tier') != 'thorough' else 800
    texts = [t for t in texts if usable(t)]
    with build.Lock():
        exe = build.harness()
        binary = build.complgen(False)
    dumps = impl.dump(exe, texts, STAGES, shells)
    jobs = [dict(text=t, shell=sh, to_file=False) for t in texts[:binary_max] for sh in shells]
    runs = impl.run_binary_many(binary, jobs, timeout=20)
    byrun = {}
    for j, b in zip(jobs, runs):
        byrun[(j['text'], j['shell'])] = b
    reqs, keys = [], []
    for t, d in zip(texts, dumps):
        for sh in shells:
            st = d[sh]
            b = byrun.get((t, sh))
            if b is not None and b['rc'] == 0 and b['stdout']:
                script = b['stdout'].decode('latin-1')
            elif b is None:
                script = emitlib.script_of(st.get('SCRIPT'))
            else:
                script = None
            command = 'cmd'
            if st.get('CHECK', '').startswith('(ok '):
                command = str(sexp.parse(st['CHECK'])[1])
            try:
                o = oracles(st, script, command)
            except Exception:
                o = '(oracles (pops) (fuel %d) (mainlits) (sublits) (groups) (sig ""))' % FUEL
            reqs.append('compiledata %s %s %s' % (sh, o, sexp.quote(t.decode('latin-1'))))
            keys.append((t, sh, st, script, command, b))
    outs = model.run(reqs)
    agree = dict(data=0, reject=0, conflict=0, binary=0, other_command=0)
    for (t, sh, st, script, command, b), o in zip(keys, outs):
        res.evaluations += 1
        replay = dict(kind='tie-compile-data', grammar=t.decode('latin-1'), shell=sh, model=o[:1500],
                      impl={k: v[:600] for k, v in st.items()})
        if 'CRASH' in st or 'PANIC' in st or (b is not None and (b['timed_out'] or b['rc'] not in (0, 1))):
            continue
        try:
            m = sexp.parse(o)
        except Exception:
            m = ['drivererror', o[:200]]
        if m[0] in ('panic', 'outoffuel', 'drivererror'):
            res.violations.append(report.Violation('compile_data answers %s (its totality is claimed by Props/C04c.v)' % o[:200],
                                                   replay, found_input=False))
            continue
        if m[0] == 'oracle-conflict':
            agree['conflict'] += 1
            continue
        err = [(STAGE_OF[s], sexp.parse(st[s])) for s in ('PARSE', 'CHECK', 'REGEX', 'RAW', 'AMB') if s in st and st[s].startswith('(err')]
        if err:
            stage, e = err[0]
            variant = e[1][0]
            if variant in ('AmbiguousDFA', 'ConflictingDescriptions'):
                stage = 'amb'
            ok = m[0] == 'err' and m[1] == stage and isinstance(m[2], list) and m[2][0] == variant and (b is None or b['rc'] == 1)
            if ok and variant != 'NonterminalDefinitionsCycle' and stage in ('parse', 'check'):
                ok = m[2] == e[1]
            if ok:
                agree['reject'] += 1
                res.traces_validated += 1
            else:
                res.violations.append(report.Violation(
                    'tie broken (compile_data %s): library rejects at %s with %s, model says %s' % (sh, stage, variant, o[:120]),
                    replay, found_input=False))
            continue
        if script is None:
            res.violations.append(report.Violation('tie broken (compile_data %s): the library accepts, no script' % sh, replay, found_input=False))
            continue
        if command != 'cmd':
            agree['other_command'] += 1     # the skeleton patterns of c04.data_tie are instantiated for the command "cmd"
            continue
        why = data_tie(sh, script, o)
        if why is None:
            agree['data'] += 1
            if b is not None:
                agree['binary'] += 1
            res.traces_validated += 1
        else:
            res.violations.append(report.Violation('tie broken (compile_data %s): %s' % (sh, why), dict(replay, why=why), found_input=False))
    res.extra[label] = dict(texts=len(texts), shells=shells, data_sections_byte_identical=agree['data'],
                            of_which_against_the_binary=agree['binary'], rejections_agree=agree['reject'],
                            oracle_conflicts=agree['conflict'], skipped_other_command_name=agree['other_command'],
                            seconds=round(time.time() - t0, 1))
    return agree['data']
