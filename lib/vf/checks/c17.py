"""C17 -- external commands run only when expected, with the documented arguments and output handling.

Theorem side: Props/C17.v (on Model/BashSem.v: argument shape of every invocation, log and candidates equal to the
specification on the clean domain, refutation witnesses for the deviating mechanisms).
Tie T2: real bash on the emitted script vs the extracted BashSem on Rust's TABLES: COMPREPLY, rc and the probes'
invocation log, exactly.
Direct judgement: real bash (rc, COMPREPLY as a set, invocation log as a sequence) against lib/vf/c17ref.py, the
executable reading of the property computed from the tables; a deviation is attributed to a listed mechanism iff
switching that mechanism (and nothing else than listed mechanisms) on in the reference reproduces bash exactly."""
import random
import time

from .. import build, impl, model, report, sexp, t2, t2gen, bashrun
from .c12 import strip_tables
from ..c17ref import Ref, explain, QUIRKS

CLASS = {
    'space': 'c17_candidate_cut_at_space',
    'echo': 'c17_candidate_swallowed_by_echo',
    'escape': 'c17_last_word_escape',
    'glob': 'c17_text_used_as_glob_pattern',
    'stoptest': 'c17_within_word_stop_test',
    'subaccept': 'c17_within_word_acceptance_anywhere',
    'emptycand': 'c17_empty_candidate_loop',
    'stale': 'c17_stale_candidates',
}
PRIORITY = ['emptycand', 'space', 'echo', 'escape', 'stoptest', 'glob', 'subaccept', 'stale']

MANIFEST = dict(
    text=('Theorems of Props/C17.v on Model/BashSem.v (interpreter of the emitted bash skeleton over the emitted tables; variant Repaired '
          'mirrors /repo HEAD): C17_invocation_shapes -- for all tables, environments and command lines every logged invocation is ("","") '
          'while walking, (prefix,"") at the cursor, or (rest of the word, matched part) inside a word, and names an existing command; '
          'C17_repaired_subword_spec -- for all tables (within-word expressions included; literal arrays non-empty and in decreasing '
          'length), every environment and command line, return code, COMPREPLY and the whole invocation log equal '
          'Spec/InvocationsSub.v (inside a word: longest expected literal / candidate consumed, commands run with (rest, matched part), '
          'stop in front of a partially typed piece, accepting state required); C17_repaired_total -- never out of fuel, never a panic, '
          'rc 0 or 1; '
          'C17_repaired_toplevel_spec -- for every environment and command line over tables without within-word expressions, return code, '
          'COMPREPLY and the whole invocation log equal Spec/Invocations.v, the specification written from the property (exactly the expected '
          'commands at the expected places with the expected arguments, candidates = text before the first tab, a word accepted iff it '
          'equals a candidate), with no known-class hypothesis; C17_toplevel_spec -- the same for the templates before the repair on the '
          'clean domain only; C17_refuted_* -- witnesses computed inside Coq for what those templates did with spaces, -n/-e, the last-word '
          'escape, glob words, the empty candidate inside a word (non-termination) and candidate prefix chains; C17_repaired_witnesses -- '
          'HEAD on the same inputs. BashSem is tied to real bash by T2 (rc, COMPREPLY, probe log compared exactly on generated grammars with '
          'probes at top level, inside words, under [], ..., |, ||, through definitions and <X@bash> definitions), and real bash is judged '
          'directly against an executable reading of the property computed from the tables (tied to the extracted Coq specification); '
          'deviations are attributed to listed mechanisms only when switching exactly those on in the reference reproduces bash.'),
    design='6 C17',
    technique='Coq theorems on the bash-skeleton interpreter + real-bash/extracted-model correspondence (T2) + direct judgement of real bash against an executable specification with mechanism attribution')


def witnesses():
    """hand-made grammars that exercise every listed mechanism (so that the known findings are re-observed on every run)"""
    P = bashrun.probe
    W = []
    W.append(('cmd {{{ %s }}} x;\n' % P(1, ['my file', 'plain']), {1: ['my file', 'plain']},
              [([], ''), ([], 'my'), (['my file'], ''), (['my'], ''), (['plain'], '')]))
    W.append(('cmd {{{ %s }}} x;\n' % P(1, ['-n', 'a', '-e', 'b']), {1: ['-n', 'a', '-e', 'b']},
              [([], ''), ([], '-'), (['-n'], ''), (['a'], '')]))
    W.append(('cmd ({{{ %s }}} x | {{{ %s }}} y);\n' % (P(1, ['ca']), P(2, ['cb'])), {1: ['ca'], 2: ['cb']},
              [(['zz'], ''), (['cb'], ''), (['ca'], ''), (['zz', 'x'], '')]))
    W.append(('cmd {{{ %s }}} x;\n' % P(1, ['ca', 'cb']), {1: ['ca', 'cb']},
              [(['*'], ''), (['c?'], ''), (['ca'], ''), (['zz', 'x'], '')]))
    W.append(('cmd p:{{{ %s }}} next;\n' % P(1, ['x', 'xy']), {1: ['x', 'xy']},
              [(['p:x'], ''), (['p:xy'], ''), ([], 'p:x'), ([], 'p:')]))
    W.append(('cmd p:({{{ %s }}})... next;\n' % P(1, ['x', '', 'xy']), {1: ['x', '', 'xy']},
              [(['p:q'], ''), (['p:xy'], ''), ([], 'p:q')]))
    W.append(('cmd p:{{{ %s }}} next;\n' % P(1, ['a\tdescription', 'b c\td']), {1: ['a\tdescription', 'b c\td']},
              [([], 'p:'), (['p:a'], ''), ([], '')]))
    W.append(('cmd --k=({{{ %s }}} || wy);\n' % P(1, ['--k=wx', 'zz']), {1: ['--k=wx', 'zz']},
              [([], '--k=w'), ([], '--k='), ([], '--k=z')]))
    # words of the same shape with DIFFERENT commands (same-shaped within-word automata share one table function in the
    # script: what is specific to one word -- its command -- must not be shared), two and three words, | and sequence
    W.append(('cmd (--user={{{ %s }}} | --host={{{ %s }}}) end;\n' % (P(1, ['alice', 'bob']), P(2, ['h1', 'h2x'])),
              {1: ['alice', 'bob'], 2: ['h1', 'h2x']},
              [([], '--user='), ([], '--host='), ([], '--user=a'), ([], '--host=h'), (['--user=bob'], ''), (['--host=h1'], ''),
               (['--user=h1'], ''), (['--host=alice'], '')]))
    W.append(('cmd --a={{{ %s }}} --b={{{ %s }}} --c={{{ %s }}} end;\n' % (P(1, ['x1']), P(2, ['y2', 'y3']), P(3, ['z'])),
              {1: ['x1'], 2: ['y2', 'y3'], 3: ['z']},
              [([], '--a='), (['--a=x1'], '--b='), (['--a=x1', '--b=y3'], '--c='), (['--a=x1', '--b=y2', '--c=z'], ''),
               (['--a=y2'], ''), (['--a=x1', '--b=z'], '')]))
    return W


WITNESS_GRAMMARS = {'w1': 'cmd ({{{ c1 }}} x | {{{ c2 }}} y);\n', 'w2': 'cmd p:({{{ c1 }}})... next;\n'}


def witness_tables_tie(exe, res):
    """the tables used by the refutation theorems of Props/C17.v are what the pipeline emits for their grammars"""
    names = sorted(WITNESS_GRAMMARS)
    dumps = impl.dump(exe, [WITNESS_GRAMMARS[n].encode() for n in names], ['min', 'tables'], ['bash'])
    outs = model.run(['c17witness %s' % n for n in names])
    ok = 0
    for n, d, o in zip(names, dumps, outs):
        rust = d['bash'].get('TABLES')
        if rust is not None:
            rust = t2.with_subaccepting(rust, d['bash'].get('MIN'))
        if rust is not None and strip_tables(sexp.parse(rust)) == strip_tables(sexp.parse(o)):
            ok += 1
        else:
            res.violations.append(report.Violation(
                'tie broken: Model/C17Witness.v %s is not what the pipeline emits for %s' % (n, WITNESS_GRAMMARS[n].strip()),
                dict(kind='tie-witness-tables', rust=rust, model=o), found_input=False))
    res.extra['witness_tables_agree'] = ok


def coq_spec_tie(case, ref, res, counters):
    """Spec/InvocationsSub.v (extracted; the specification C17_repaired_subword_spec is about) against the Python
    reference without quirks, on every generated grammar (within-word expressions included): the two readings of the
    property must coincide (rc, COMPREPLY, log)."""
    if not case.queries:
        return
    wb = t2.DEFAULT_WORDBREAKS if case.wordbreaks is None else case.wordbreaks
    outs = '(outputs %s)' % ' '.join('(%d %s)' % (cid, sexp.quote(t)) for cid, t in sorted(case.model_outputs().items()))
    qs = ' '.join('(q %s 0 %s (words %s) %s)' % (sexp.quote(wb), outs, ' '.join(sexp.quote(w) for w in ws), sexp.quote(p))
                  for ws, p in case.queries)
    out = model.run(['specrunsw %d %s (queries %s)' % (case.start, case.tables, qs)], shard=1)[0]
    try:
        sx = sexp.parse(out)
    except Exception:
        sx = None
    if not isinstance(sx, list) or (sx and sx[0] == 'drivererror'):
        res.violations.append(report.Violation('extracted specification failed', dict(kind='spec-driver', output=out[:500]),
                                               found_input=False))
        return
    for (ws, p), m in zip(case.queries, sx):
        if m[0] != 'ok':
            continue
        coq = (int(m[1]), [str(x) for x in m[2][1:]], [(int(x[0]), str(x[1]), str(x[2])) for x in m[3][1:]])
        py = ref.run(ws, p)
        counters['spec_compared'] = counters.get('spec_compared', 0) + 1
        if ref.subs:
            counters['spec_compared_sub'] = counters.get('spec_compared_sub', 0) + 1
        if py in ('hang', 'unsupported') or (py[0], py[1], py[2]) != coq:
            res.violations.append(report.Violation(
                'the two executable readings of C17 disagree (Spec/InvocationsSub.v vs lib/vf/c17ref.py)',
                dict(kind='spec-vs-spec', words=ws, prefix=p, coq=coq, python=py), found_input=False))


def run(ctx, res):
    with build.Lock():
        exe = build.harness()
    from . import e2e
    e2e.capstone_obligations(res, 'C17_')      # from the grammar TEXT: the script's functions terminate (Props/Capstone.v)
    witness_tables_tie(exe, res)
    counters = {}
    rng = ctx['rng']
    budget = 120 if ctx['tier'] == 'quick' else 1500
    ngr = 120 if ctx['tier'] == 'quick' else 1500
    items = []          # (text, probes, queries, wordbreaks, label)
    for text, probes, qs in witnesses():
        items.append((text, probes, qs, None, 'witness'))
    gs = []
    while len(gs) < ngr:
        nasty = len(gs) % 2 == 1
        g = t2gen.GrammarGen(rng, nasty=nasty).make()
        if g is None or not g.probes:
            continue
        gs.append(g)
        wb = None if len(gs) % 3 else ''
        items.append((g.text, g.probes, t2gen.queries(rng, g, 8 if ctx['tier'] == 'quick' else 14), wb, 'nasty' if nasty else 'plain'))
    dumps = impl.dump(exe, [it[0].encode() for it in items], ['min', 'tables', 'script'], ['bash'])
    res.rule = ('hand-made witnesses of every listed mechanism, then seeded random grammars with probe commands at top level, inside words '
                '(after a literal piece; alone, in | and || with literals, repeated), under [], ..., |, ||, through nested definitions and '
                '<X@bash> definitions (with decoys for other shells); probe outputs: plain words, and in every second grammar also words with '
                'spaces, tab-separated descriptions, -n/-e, empty lines, glob characters, numbers; command lines: sentences sampled from the '
                'grammar cut at every position with every prefix of the cut word, plus foreign/swapped/dropped words; COMP_WORDBREAKS '
                'default or empty. non-trivial = queries in which at least one command ran (real bash)')
    ts = t2.template_status()
    res.extra['bash_templates'] = ts
    if ts['variant'] != 'repaired':
        # the theorems are about `run_from Repaired`: a script of the older (pinned / partly repaired) templates is not what they describe
        res.violations.append(report.Violation(
            'tie T3 broken: the templates of src/bash.rs are not the ones Model/BashSem.v (variant Repaired) mirrors: variant %s, %s'
            % (ts['variant'], ts['changed'] + ts['missing'] + ts['extra']),
            dict(kind='tie-T3', status=ts), found_input=False))
    nontrivial = 0
    rejected = 0
    attributed = {}
    unjudged = 0
    chunk = 16
    done = 0
    for lo in range(0, len(items), chunk):
        # the first three chunks run whatever the clock says (the coverage floor of report.py must not depend on load)
        if time.time() - ctx['t0'] > budget and lo >= 3 * chunk:
            break
        part = items[lo:lo + chunk]
        cases = [t2.Case(dumps[lo + j]['bash'], it[2], wordbreaks=it[3], probes=it[1]) for j, it in enumerate(part)]
        t2.run_cases(cases)
        for j, (it, c) in enumerate(zip(part, cases)):
            done += 1
            text, probes, qs, wb, label = it
            if not c.ok:
                rejected += 1
                if label == 'witness':
                    res.violations.append(report.Violation('C17: witness grammar rejected', dict(kind='generator', grammar=text,
                                                           impl={k: v[:500] for k, v in dumps[lo + j]['bash'].items()})))
                continue
            st = dumps[lo + j]['bash']
            ref = Ref(sexp.parse(c.tables), sexp.parse(st['MIN']) if 'MIN' in st else None, c.model_outputs(),
                      t2.DEFAULT_WORDBREAKS if wb is None else wb, start=c.start)
            inv = {k: cid for cid, k in c.cid_to_probe.items()}
            if any(l == '' for T in ref.subs.values() for l in T.literals) or \
               any(len(a) < len(b) for T in ref.subs.values() for a, b in zip(T.literals, T.literals[1:])):
                res.violations.append(report.Violation(
                    'hypothesis wf_subwords of C17_repaired_total / C17_repaired_subword_spec broken: a within-word literal array '
                    'with an empty text or not in decreasing length',
                    dict(kind='theorem-hypothesis', grammar=text), found_input=False))
            coq_spec_tie(c, ref, res, counters)
            for q, r in zip(c.queries, c.results):
                res.evaluations += 1
                replay = dict(grammar=text, words=q[0], prefix=q[1], wordbreaks=wb, probes={str(k): v for k, v in probes.items()},
                              bash=r.bash, model=list(r.model), variant=c.variant)
                # --- tie T2
                if r.status in ('agree', 'hang-agree'):
                    res.traces_validated += 1
                elif r.status == 'mismatch':
                    res.violations.append(report.Violation('tie T2 broken: real bash and BashSem disagree',
                                                           dict(replay, kind='tie-T2'), found_input=False))
                # --- direct judgement
                if r.bash is None:
                    observed = 'hang'
                else:
                    try:
                        observed = (r.bash['rc'], r.bash['reply'], [(inv[int(k)], a1, a2) for k, a1, a2 in r.bash['log']])
                    except (KeyError, ValueError):
                        res.violations.append(report.Violation('C17: the log names a command the tables do not list',
                                                               dict(replay, kind='spec-judgement')))
                        continue
                    if r.bash['log']:
                        nontrivial += 1
                spec = ref.run(q[0], q[1])
                replay['spec'] = spec if spec in ('hang', 'unsupported') else dict(rc=spec[0], reply=spec[1], log=spec[2])
                same = (spec not in ('hang', 'unsupported') and observed != 'hang' and spec[0] == observed[0]
                        and set(spec[1]) == set(observed[1]) and spec[2] == observed[2])
                if same:
                    if len(res.samples) < 6 and r.bash and r.bash['log'] and res.evaluations % 11 == 0:
                        res.samples.append(dict(grammar=text.strip()[:300], words=q[0], prefix=q[1], wordbreaks=wb,
                                                bash_rc=r.bash['rc'], bash_reply=r.bash['reply'], bash_log=r.bash['log'],
                                                spec_log=[list(x) for x in spec[2]]))
                    continue
                qs_ = explain(ref, q[0], q[1], observed)
                if qs_ is None:
                    res.violations.append(report.Violation(
                        'C17: real bash deviates from the specification and no listed mechanism explains it: bash %s, specification %s'
                        % (observed if observed == 'hang' else (observed[0], observed[1], observed[2]), replay['spec']),
                        dict(replay, kind='spec-judgement')))
                    continue
                first = [x for x in PRIORITY if x in qs_][0]
                attributed[first] = attributed.get(first, 0) + 1
                replay['mechanisms'] = sorted(qs_)
                res.violations.append(report.Violation(
                    'C17: deviation explained by %s' % sorted(qs_), dict(replay, kind='spec-judgement'), cls=CLASS[first]))
    res.nontrivial = nontrivial
    res.extra['grammars_run'] = done
    res.extra['grammars_generated'] = len(items)
    res.extra['grammars_rejected_by_complgen'] = rejected
    res.extra['deviations_by_mechanism'] = attributed
    res.extra['coq_spec_vs_python_reference_compared'] = counters.get('spec_compared', 0)
    res.extra['coq_spec_vs_python_reference_compared_with_subwords'] = counters.get('spec_compared_sub', 0)
    if done < len(items):
        res.notes.append('time budget reached after %d of %d grammars (loaded machine)' % (done, len(items)))
