"""C15 -- warnings are complete, precise and harmless.

Theorems: Props/C15.v.  Tie T1: the three warning maps of the extracted Check model vs
ValidGrammar's.  Direct judgement: the `warning:` lines of the complgen binary (kind, position)
against Spec/Warnings.v (extracted) evaluated on Rust's parse tree: exactly one line per name, at
an occurrence of that name; exit status 0; deleting the unused definitions does not change the
script (metamorphic)."""
import re

from .. import build, coqcheck, impl, model, planted, report, sexp
from .c11 import norm_check

SHELLS = planted.SHELLS

MANIFEST = dict(
    text=('Props/C15.v: on the Gallina model of ValidGrammar::from_grammar the reported "unused" sets coincide with '
          'Spec/Warnings.v (plain definitions / target-shell definitions that no statement refers to), and the validated '
          'expression does not depend on the warning bookkeeping; the "undefined" set is tied and judged, with the theorem '
          'stated (see evidence.coverage.theorems for what is proved). Tie: extracted model vs library on the same parse trees '
          '(exact maps). Direct judgement: warning lines of the real binary (kind + position + exactly once per name) against '
          'the extracted specification on generated grammars with used/unused/undefined names, specialisations for target and '
          'other shells, references inside words and through used/unused definitions; exit status 0; script unchanged when the '
          'unused definitions are deleted.'),
    design='6 C15',
    technique='Coq theorems on the check.rs model vs Spec.Warnings + extracted-model/implementation correspondence + judgement of the binary')

KIND = {'Undefined': 'undefined', 'Unused': 'unused', 'Unused specialization': 'unusedspecs'}


def name_at(text, line, col):
    lines = text.split(b'\n')
    if line - 1 >= len(lines):
        return None
    rest = lines[line - 1][col - 1:]
    m = re.match(rb'<([^>@]+)(?:@[^>]*)?>', rest)
    return m.group(1).decode('latin-1') if m else None


def run(ctx, res):
    with build.Lock():
        exe = build.harness()
        binary = build.complgen()
        # the end-to-end theorems (warning messages = rendered Spec.Warnings sets, automata independent of unused definitions) live in Props/C15b.v
        extra = coqcheck.check_property('C15b')
    if not extra['ok']:
        res.violations.append(report.Violation('proof obligations of C15b no longer check',
                                               dict(kind='proof-obligation', errors=extra['errors'][:5]), found_input=False))
    res.extra['theorems_C15b'] = extra['theorems']
    r = ctx['rng']
    n = 60 if ctx['tier'] == 'quick' else 4000
    cases = []
    for _ in range(n):
        stmts = planted.warn_case(r)
        text = (planted.relayout(stmts, r) if r.random() < 0.5 else '\n'.join(stmts) + '\n').encode('latin-1')
        cases.append((stmts, text))
    texts = [c[1] for c in cases]
    dumps = impl.dump(exe, texts, ['parse', 'check'], SHELLS)
    jobs = [dict(text=t, shell=sh) for t in texts for sh in SHELLS]
    bins = impl.run_binary_many(binary, jobs)
    reqs, index = [], []
    for i, d in enumerate(dumps):
        for sh in SHELLS:
            st = d[sh]
            if st.get('PARSE', '').startswith('(ok '):
                tree = st['PARSE'][4:-1]
                reqs.append('check %s %s' % (sh, tree)); index.append((i, sh, 'check'))
                reqs.append('warnings %s %s' % (sh, tree)); index.append((i, sh, 'warnings'))
    outs = dict(zip(index, model.run(reqs)))
    # metamorphic: delete what the specification calls unused, the script must not change
    meta_jobs, meta_index = [], []
    for i, (stmts, text) in enumerate(cases):
        for si, sh in enumerate(SHELLS):
            w = outs.get((i, sh, 'warnings'))
            if not w or bins[i * 4 + si]['rc'] != 0:
                continue
            ws = sexp.parse(w)
            unused = set(str(x) for x in ws[1][1:])
            unused_specs = set(str(x) for x in ws[2][1:])
            if not unused and not unused_specs:
                continue
            kept = []
            for s in stmts:
                m = re.match(r'<([^>@]+)(?:@([^>]*))?>', s)
                if m and ((m.group(2) is None and m.group(1) in unused) or (m.group(2) == sh and m.group(1) in unused_specs)):
                    continue
                kept.append(s)
            meta_jobs.append(dict(text=('\n'.join(kept) + '\n').encode('latin-1'), shell=sh))
            meta_index.append((i, si))
    meta = dict(zip(meta_index, impl.run_binary_many(binary, meta_jobs))) if meta_jobs else {}
    res.rule = ('random clean grammars enriched with unused plain definitions, unused/foreign-shell specialisations, undefined names '
                '(direct, inside words, through used and unused definitions, twice), <_>, PATH/DIRECTORY with and without definitions; '
                'random layout; x 4 shells; non-trivial = distinct (text, shell) with at least one expected warning')
    nontriv = set()
    for i, (stmts, text) in enumerate(cases):
        for si, sh in enumerate(SHELLS):
            st = dumps[i][sh]
            b = bins[i * 4 + si]
            res.evaluations += 1
            replay = dict(grammar=text.decode('latin-1'), shell=sh, binary_rc=b['rc'], stderr=b['stderr'].decode('latin-1')[:3000])
            problems = []
            w = outs.get((i, sh, 'warnings'))
            if 'CRASH' in st or 'PANIC' in st or b['rc'] not in (0, 1):
                problems.append('implementation crashed (rc %s)' % b['rc'])
            elif b['rc'] != 0 or not st.get('CHECK', '').startswith('(ok'):
                problems.append('generated grammar rejected: %s' % b['stderr'][:200].decode('latin-1'))
            elif w:
                ws = sexp.parse(w)
                want = {k[0]: sorted(str(x) for x in k[1:]) for k in ws}
                got = {'undefined': [], 'unused': [], 'unusedspecs': []}
                for line, col, kind, label in planted.diagnostics(b['stderr']):
                    if kind != 'warning':
                        problems.append('unexpected error line on an accepted grammar')
                        continue
                    nm = name_at(text, line, col)
                    if label not in KIND:
                        problems.append('unknown warning kind %r' % label)
                    elif nm is None:
                        problems.append('%s warning at %d:%d does not point at a nonterminal' % (label, line, col))
                    else:
                        got[KIND[label]].append(nm)
                for k in got:
                    if sorted(got[k]) != want[k]:
                        problems.append('%s: binary warns about %s, specification says %s' % (k, sorted(got[k]), want[k]))
                replay['spec_warnings'] = want
                if any(want.values()):
                    nontriv.add((text, sh))
                m = meta.get((i, si))
                if m is not None and (m['rc'] != 0 or m['stdout'] != b['stdout']):
                    problems.append('deleting the unused definitions changed the output (rc %s)' % m['rc'])
            # T1
            mo = outs.get((i, sh, 'check'))
            t1_ok = True
            if mo is not None and 'CHECK' in st:
                t1_ok = norm_check(sexp.parse(st['CHECK'])) == norm_check(sexp.parse(mo))
                if t1_ok:
                    res.traces_validated += 1
                else:
                    replay['impl_check'] = st['CHECK'][:2000]
                    replay['model_check'] = mo[:2000]
            if problems:
                res.violations.append(report.Violation('C15: ' + '; '.join(problems[:4]), dict(replay, kind='spec-judgement', problems=problems)))
            elif not t1_ok:
                res.violations.append(report.Violation('tie T1 broken at stage check (warning maps / tree)', dict(replay, kind='tie-T1'), found_input=False))
            if len(res.samples) < 5 and si == 0 and i % 13 == 0:
                res.samples.append(dict(grammar=text.decode('latin-1')[:500], shell=sh, spec=outs.get((i, sh, 'warnings')),
                                        binary_stderr=b['stderr'].decode('latin-1')[:300]))
    res.nontrivial = len(nontriv)
    res.extra['metamorphic_runs'] = len(meta_jobs)
