"""C16 -- the --dfa and --regex Graphviz dumps are well-formed and show the real automaton.

Theorem side: Props/C16.v (C16_dfa_dot, C16_regex_dot: for the code as it is now -- after commit 0e66d33 --
reading back what the model of DFA::to_dot / Regex::to_dot prints gives the prescribed graph, no exception
on the automata/arenas Rust produces; the label codec; witnesses that the code before the fix failed).
Tie T1: Model.Dot.of_dfa / of_regex (extracted, variant `current`) on Rust's own MIN automaton / REGEX arena
must give byte-for-byte the DFADOT / REGEXDOT texts, 4 shells.  The model is one definition with a flag per
hunk of the fix: a text equal to another instance (the code before the fix, the code with the optional
hunk, a partially patched tree) also ties and is counted under its name (evidence: model_variant_matched).
Direct judgement: Spec.DotRead.read (extracted; the only judge: there is no `dot` here) on *Rust's* two
texts must succeed; the graph read from the --dfa text must be the one Spec.DotSpec.graph_of_dfa prescribes
for Rust's MIN automaton (node set, shapes, labels that render back to the item's text, edge multiset,
clusters numbered as the TABLES stage numbers the within-word automata); every input of the regex must
label a node of the graph read from the --regex text (inside the right cluster); the hypotheses of the
theorems (wf_cdfa, starts_at_zero, rx_total_b, rx_wf_b) must hold on Rust's data.  The three findings of
this property are fixed: nothing is suppressed; the replay of a violation records which of the old
mechanisms, if any, explains it."""
import collections
import os
import tempfile

from .. import build, gen, impl, model, report, sexp

SHELLS = ['bash', 'fish', 'zsh', 'pwsh']
BASE = {'bash': 0, 'pwsh': 0, 'fish': 1, 'zsh': 1}

MANIFEST = dict(
    text=('Theorems (Props/C16.v): C16_dfa_dot -- for every well-formed automaton whose start state is 0 (what minimize returns; '
          'wf_cdfa and starts_at_zero are run on Rust\'s MIN automaton on every run), Spec.DotRead.read of the exact text the '
          'Gallina model of DFA::to_dot (the code as it is now) writes succeeds and the graph read is, up to the order of nodes '
          'and edges, the one Spec.DotSpec.graph_of_dfa prescribes (one node per state numbered state+base, start/accepting '
          'shapes, one edge per transition whose label renders to the item text, one cluster per within-word automaton with '
          'dashed edges in and out); C16_regex_dot -- on a well-built arena (rx_total_b, rx_wf_b: run on Rust\'s REGEX stage on '
          'every run) the model of Regex::to_dot returns a text, it is valid DOT and every position of the regex and of each '
          'within-word regex it uses labels a node (inside cluster_R); C16_label_codec / C16_lines_codec -- the codec leaves; '
          'C16_dfa_dot_old / C16_regex_dot_old / C16_refuted_* -- the code before commit 0e66d33 was right exactly outside its '
          'three classes, with vm_compute witnesses inside them; C16_refuted_phantom_node -- the latent class left (state 0 not a '
          'state; empty on minimised automata). The model is tied to src/dfa.rs and src/regex.rs on every run by exact text '
          'comparison on Rust\'s own MIN automaton and regex arena (4 shells); Rust\'s files are judged directly by the extracted '
          'reader and specification.'),
    design='6 C16',
    technique='Coq theorem (reader o printer = prescribed graph; codec leaf) + extracted-model/implementation text equality (T1) '
              '+ extracted reader/specification judging the implementation\'s files + binary run')

# ------------------------------------------------------------------------------------------------
# generators

NASTY_LITS = ['a', 'b', 'foo', '--opt', '-x', 'a"b', '"', 'q\\', '\\', '\\"', '"\\', 'x\\n', '\\N', '\\G', '{b}', '}}}', '{{{',
              '[z]', 'a;b', 'p|q', '<k>', '--o="v"', "it's", 'a\\\\b', '(', ')', 'c\\"d', 'node', 'label=', '->', '//c', '/*c*/', '#']
NASTY_DESCRS = ['d1', 'some description', 'd"q', 'back\\slash', 'tab\there', 'nl\nline', '{x}', '\\"', 'ends\\', '"', '\\',
                'é ü →', "it's", '\x01ctl\x7f', '\\n', '"];', 'a\\\\"b', ' ', '', '\\l\\r', 'x" ]; }', '\r', '\x00' if False else 'nul']
NASTY_CMDS = ['echo x', 'echo "hi"', "printf '%s\\n' x", 'echo \\', 'echo {a,b}', 'echo "a\\"b"', 'echo \\\\"', 'ls | grep "x"',
              'echo \\N', 'awk "{print \\$1}"', 'echo "];}"']
NASTY_NAMES = ['A', 'B', 'C', 'D']
NASTY_UNDEF = ['UNDEF', '_', 'U"x', 'V\\y', 'W\\"', 'X Y', 'Z{1}']
SUB_LITS = ['--k=', 'x', 'y', 'zz', ':', '-', 'p', '"', '\\', 'a"b', 'q\\', '{', '=\\"']


class NastyGen(gen.Gen):
    def leaf(self, in_sub=False):
        r = self.r
        if r.random() < 0.08:
            return ('nt', r.choice(NASTY_UNDEF))
        return gen.Gen.leaf(self, in_sub)

    def subword(self):
        r = self.r
        if r.random() < 0.5:
            return gen.Gen.subword(self)
        # hand-made shapes: option with alternatives, prefix + nonterminal/command, literal with a description inside
        k = r.choice(['kv', 'kvnt', 'kvcmd', 'two', 'descr'])
        lit = lambda pool: ('lit', r.choice(pool), None)
        if k == 'kv':
            return ('sub', [lit(SUB_LITS), ('alt', [('lit', t, None) for t in r.sample(SUB_LITS, 2)])])
        if k == 'kvnt':
            return ('sub', [lit(SUB_LITS), ('nt', r.choice(NASTY_UNDEF + self.names))])
        if k == 'kvcmd':
            return ('sub', [lit(SUB_LITS), ('cmd', r.choice(self.cmds))])
        if k == 'two':
            return ('sub', [('alt', [('lit', t, None) for t in r.sample(SUB_LITS, 2)]),
                            ('alt', [('lit', t, None) for t in r.sample(SUB_LITS, 2)])])
        return ('sub', [lit(SUB_LITS), ('alt', [('lit', 'u', r.choice(self.descrs)), ('lit', 'v', None)])])


FIXED = [
    'cmd;',
    'cmd a;',
    'cmd a b;',
    'cmd [a]... (x | y "dd");',
    'cmd (a "d\\"q\\\\z" | --o=(x|y\\"z\\\\w) <F> | {{{ echo "hi\\n" }}}) [b]...;',
    'cmd a\\"b;',
    'cmd a "d\\"q";',
    'cmd a "e\\\\";',
    'cmd q\\\\\\" "z";',
    'cmd {{{ echo "a\\"b" \\\\ }}};',
    'cmd <U"x\\y> b;',
    'cmd --o=(x|y) | p(a|b);',
    'cmd --o=(x|y) <A> <A>;\n<A> ::= k(1|2);',
    'cmd (--o=(x|y) || --o=(x|y)) z;',
    'cmd --k=\\"(x|y"\\\\"<U>);',
    'cmd (a | b)... [c {{{ echo }}}];',
    'cmd <P>;\n<P@zsh> ::= {{{ compadd "x" }}};\n<P> ::= {{{ echo "p" }}};',
    'cmd a "x\ny" b "t\tz";',
    'cmd --a=(\\"|\\\\) --b=({{{ echo \\ }}});',
]


def grammars(ctx):
    r = ctx['rng']
    out = [t.encode() for t in FIXED]
    n = 900 if ctx['tier'] == 'quick' else 6000
    for k in range(n):
        g = NastyGen(r, lits=NASTY_LITS if k % 3 else None, descrs=NASTY_DESCRS if k % 4 else None,
                     cmds=NASTY_CMDS if k % 2 else None, names=NASTY_NAMES, sub_lits=SUB_LITS if k % 3 == 0 else None,
                     p_descr=0.35, p_sub=0.3, p_cmd=0.15, p_nt=0.12, max_depth=r.choice([2, 3, 3, 4]))
        try:
            text = gen.show_grammar(g.grammar())
        except ValueError:
            continue
        out.append(text.encode('utf-8'))
    # no duplicates (they would inflate the counts)
    seen = set()
    uniq = []
    for t in out:
        if t not in seen:
            seen.add(t)
            uniq.append(t)
    return uniq


# ------------------------------------------------------------------------------------------------

SPECIAL = set('"\\{}')


def interesting(min_payload):
    """non-trivial: the automaton has a within-word automaton, or an item text with a quote, backslash or brace"""
    if '(sub ' in min_payload:
        return True
    d = sexp.parse(min_payload)

    def texts(v):
        if isinstance(v, list):
            if v and v[0] in ('lit', 'cmd', 'compadd'):
                for x in v[1:]:
                    if isinstance(x, sexp.Q):
                        yield str(x)
            for x in v:
                yield from texts(x)
    return any(SPECIAL & set(t) for t in texts(d))


def cluster_ids_from_tables(tables_payload):
    t = sexp.parse(tables_payload)
    for f in t[1:]:
        if isinstance(f, list) and f and f[0] == 'subwords':
            return sorted((int(x[0]), int(x[1])) for x in f[1:])
    return None


def run(ctx, res):
    with build.Lock():
        exe = build.harness()
        binary = build.complgen()
    texts = grammars(ctx)
    dumps = impl.dump(exe, texts, ['regex', 'min', 'dfadot', 'regexdot', 'amb', 'tables'], SHELLS)
    reqs, index = [], []
    for i, d in enumerate(dumps):
        for sh in SHELLS:
            st = d[sh]
            if st.get('REGEX', '').startswith('(ok ') and 'REGEXDOT' in st:
                reqs.append('dotregex current %s' % st['REGEX']); index.append((i, sh, 'rx-model'))
                reqs.append('dotregex old %s' % st['REGEX']); index.append((i, sh, 'rx-model-old'))
                reqs.append('dotjudgeregex %s %s' % (st['REGEX'], st['REGEXDOT'])); index.append((i, sh, 'rx-judge'))
                if sh == 'bash':
                    reqs.append('dotrxwf %s' % st['REGEX']); index.append((i, sh, 'rx-wf'))
            if st.get('MIN', '').startswith('(ok ') and 'DFADOT' in st:
                mn = st['MIN'][4:-1]
                reqs.append('dotdfa current %d %s' % (BASE[sh], mn)); index.append((i, sh, 'dfa-model'))
                reqs.append('dotdfa patched %d %s' % (BASE[sh], mn)); index.append((i, sh, 'dfa-model-patched'))
                reqs.append('dotjudgedfa %d %s %s' % (BASE[sh], mn, st['DFADOT'])); index.append((i, sh, 'dfa-judge'))
                if sh == 'bash':
                    reqs.append('dotwf %s' % mn); index.append((i, sh, 'wf'))
                if 'TABLES' in st:
                    reqs.append('dotsubids %d %s' % (BASE[sh], mn)); index.append((i, sh, 'subids'))
    outs = model.run(reqs)
    by = dict(zip(index, outs))
    # second round: diagnosis of what failed; for texts that are neither the current nor the fully
    # patched model's, the model with each subset of the patches (a partially patched tree)
    creqs, cindex = [], []
    for (i, sh, k), o in list(by.items()):
        st = dumps[i][sh]
        if k == 'dfa-model' and o != '(ok %s)' % st['DFADOT'] and by[(i, sh, 'dfa-model-patched')] != '(ok %s)' % st['DFADOT']:
            for e in ('true', 'false'):
                for sa in ('true', 'false'):
                    for d0 in ('true', 'false'):
                        creqs.append('dotdfa (v %s %s %s false) %d %s' % (e, sa, d0, BASE[sh], st['MIN'][4:-1]))
                        cindex.append((i, sh, 'dfa-model-%s%s%s' % (e[0], sa[0], d0[0])))
    for (i, sh, k), o in by.items():
        st = dumps[i][sh]
        if k == 'dfa-judge' and o != '(ok)':
            creqs.append('dotclassdfa %d %s' % (BASE[sh], st['MIN'][4:-1])); cindex.append((i, sh, 'dfa-class'))
        if k == 'rx-judge' and o != '(ok)':
            creqs.append('dotclassregex %s' % st['REGEX']); cindex.append((i, sh, 'rx-class'))
    by.update(dict(zip(cindex, model.run(creqs))))

    res.rule = ('fixed corpus (witnesses of every mechanism found, shared/duplicated within-word automata, shell-specific '
                'definitions) + random grammars over literals, descriptions, commands and nonterminal names containing double '
                'quotes, backslashes (also at the end, before a quote, as \\n \\N \\l), braces, DOT punctuation and keywords, control '
                'and non-ASCII printable characters, with several within-word automata, x 4 shells; non-trivial = accepted grammar '
                'whose automaton has a within-word automaton or an item text containing a quote, backslash or brace')
    nontrivial = set()
    variants = collections.Counter()
    accepted = 0
    sample_budget = 6
    for i, text in enumerate(texts):
        for sh in SHELLS:
            st = dumps[i][sh]
            replay = dict(grammar=text.decode('utf-8', 'replace'), shell=sh, impl={k: v[:3000] for k, v in st.items()})
            if 'CRASH' in st or 'PANIC' in st:
                # not C16's subject unless the panic is in the printers (stage regex..min covers to_dot calls)
                stage = st.get('PANIC', '').split(' ')[0]
                res.evaluations += 1
                res.violations.append(report.Violation('implementation crashed while dumping (stage %s)' % stage,
                                                       dict(replay, kind='crash')))
                continue
            # ---------------- regex file
            if (i, sh, 'rx-model') in by:
                res.evaluations += 1
                mod = by[(i, sh, 'rx-model')]
                tie = mod == '(ok %s)' % st['REGEXDOT']
                variants['regex:current' if tie else 'regex:other'] += 1
                if not tie and by[(i, sh, 'rx-model-old')] == '(ok %s)' % st['REGEXDOT']:
                    tie = True
                    variants['regex:other'] -= 1
                    variants['regex:old'] += 1
                judge = by[(i, sh, 'rx-judge')]
                if tie:
                    res.traces_validated += 1
                if by.get((i, sh, 'rx-wf'), 'true') != 'true':
                    res.violations.append(report.Violation(
                        'C16: Rust\'s regex arena is not well-formed in the sense of the theorems (rx_wf_b && rx_total_b): ' + by[(i, sh, 'rx-wf')],
                        dict(replay, kind='theorem-hypothesis'), found_input=False))
                if judge != '(ok)':
                    # the findings of this property are fixed: nothing is suppressed; the diagnosis goes into the replay
                    c = sexp.parse(by[(i, sh, 'rx-class')])
                    old_mech = (by[(i, sh, 'rx-model-old')] == '(ok %s)' % st['REGEXDOT'] and str(c[0][1]) == 'true'
                                and str(c[1][1]) != 'ok' and str(c[2][1]) == 'ok')
                    what = ('--regex file is not valid DOT' if judge == '(readfail)'
                            else '--regex file lacks a labelled node for an item: ' + judge[:200])
                    if old_mech:
                        what += ' [the mechanism fixed by 0e66d33 (labels written verbatim) is back]'
                    res.violations.append(report.Violation('C16: ' + what, dict(replay, kind='spec-judgement', judge=judge,
                                                                               classification=by[(i, sh, 'rx-class')], model=mod[:3000])))
                elif not tie:
                    res.violations.append(report.Violation('tie T1 broken at Regex::to_dot: model text differs',
                                                           dict(replay, kind='tie-T1', stage='regexdot', model=mod[:3000]), found_input=False))
            # ---------------- dfa file
            if (i, sh, 'dfa-model') in by:
                res.evaluations += 1
                accepted += 1
                mod = by[(i, sh, 'dfa-model')]
                tie = mod == '(ok %s)' % st['DFADOT']
                if tie:
                    variants['dfa:current'] += 1
                elif by[(i, sh, 'dfa-model-patched')] == '(ok %s)' % st['DFADOT']:
                    tie = True
                    variants['dfa:patched'] += 1
                else:
                    for fl in ('ttt', 'ttf', 'tft', 'tff', 'ftt', 'ftf', 'fft', 'fff'):
                        if by.get((i, sh, 'dfa-model-' + fl)) == '(ok %s)' % st['DFADOT']:
                            tie = True
                            variants['dfa:partial-' + fl] += 1
                            break
                    else:
                        variants['dfa:other'] += 1
                judge = by[(i, sh, 'dfa-judge')]
                if tie:
                    res.traces_validated += 1
                if interesting(st['MIN']):
                    nontrivial.add((i, sh))
                ok = True
                if judge != '(ok)':
                    ok = False
                    # the findings of this property are fixed: nothing is suppressed; the diagnosis goes into the replay
                    c = sexp.parse(by[(i, sh, 'dfa-class')])
                    known = dict(labels=str(c[0][1]) == 'true', subacc=str(c[0][2]) == 'true')
                    fixes = {str(x[0]): str(x[1]) for x in c[1:]}
                    back = []
                    if fixes['old'] != 'ok' and not tie:
                        if known['labels'] and fixes['esc'] == 'ok':
                            back.append('label escaping')
                        if known['subacc'] and fixes['subacc'] == 'ok':
                            back.append('accepting states without base')
                    what = ('--dfa file is not valid DOT' if judge == '(readfail)'
                            else '--dfa file does not show the automaton: ' + judge[:300])
                    if back:
                        what += ' [mechanism fixed by 0e66d33 possibly back: %s]' % ', '.join(back)
                    rp = dict(replay, kind='spec-judgement', judge=judge, classification=by[(i, sh, 'dfa-class')], model=mod[:3000])
                    res.violations.append(report.Violation('C16: ' + what, rp))
                # the hypothesis of the theorems holds for the automaton Rust produced
                if by.get((i, sh, 'wf'), 'true') != 'true':
                    ok = False
                    res.violations.append(report.Violation(
                        'C16: Rust\'s minimised automaton is not well-formed in the sense of the theorems (wf_cdfa && starts_at_zero): ' + by[(i, sh, 'wf')],
                        dict(replay, kind='theorem-hypothesis'), found_input=False))
                # numbering of the clusters = numbering of the within-word automata in the script's tables
                if (i, sh, 'subids') in by and 'TABLES' in st:
                    want = cluster_ids_from_tables(st['TABLES'])
                    got = sorted((int(x[0]), int(x[1])) for x in sexp.parse(by[(i, sh, 'subids')]))
                    if want is not None and want != got:
                        ok = False
                        res.violations.append(report.Violation(
                            'C16: prescribed cluster numbering %s differs from the script tables %s' % (got, want),
                            dict(replay, kind='spec-vs-script-numbering')))
                if ok and not tie:
                    res.violations.append(report.Violation('tie T1 broken at DFA::to_dot: model text differs',
                                                           dict(replay, kind='tie-T1', stage='dfadot', model=mod[:3000]), found_input=False))
                if ok and tie and sample_budget and (i, sh) in nontrivial and sh in ('fish', 'bash') and i % 7 == 0:
                    sample_budget -= 1
                    res.samples.append(dict(grammar=text.decode('utf-8', 'replace'), shell=sh, dfadot=st['DFADOT'][:600], judge=judge))
    res.nontrivial = len(nontrivial)
    # replays are written for the first few violations: put first those on inputs outside the old classes
    res.violations.sort(key=lambda v: 0 if (v.cls is None and '(known true' not in str(v.replay.get('classification', ''))) else 1)
    res.extra['accepted_grammar_shell_pairs'] = accepted
    res.extra['model_variant_matched'] = dict(variants)
    res.extra['stage'] = 'DFA::to_dot on the minimised automaton, Regex::to_dot; files of the complgen binary'

    # ---------------- the binary writes what the library produced
    picks = [i for i in range(len(texts)) if dumps[i]['bash'].get('MIN', '').startswith('(ok ')]
    picks = picks[:6] + picks[len(FIXED):len(FIXED) + 6]
    with tempfile.TemporaryDirectory() as tmp:
        for n, i in enumerate(picks):
            for sh in SHELLS:
                st = dumps[i][sh]
                if 'DFADOT' not in st or 'REGEXDOT' not in st:
                    continue
                f, g = os.path.join(tmp, 'd%d%s.dot' % (n, sh)), os.path.join(tmp, 'r%d%s.dot' % (n, sh))
                rc, out, err, to = impl.run_binary(binary, texts[i], sh, '-', extra=['--dfa', f, '--regex', g])
                res.evaluations += 1
                got_d = open(f, 'rb').read().decode('latin-1') if os.path.exists(f) else None
                got_r = open(g, 'rb').read().decode('latin-1') if os.path.exists(g) else None
                want_d = str(sexp.parse(st['DFADOT']))
                want_r = str(sexp.parse(st['REGEXDOT']))
                if got_d != want_d or got_r != want_r:
                    res.violations.append(report.Violation(
                        'C16: files written by the binary differ from the library dump (rc=%d)' % rc,
                        dict(grammar=texts[i].decode('utf-8', 'replace'), shell=sh, kind='binary-vs-library',
                             dfa_file=got_d, regex_file=got_r, dfadot=want_d, regexdot=want_r, stderr=err.decode('utf-8', 'replace')[:500])))
                else:
                    res.traces_validated += 1
