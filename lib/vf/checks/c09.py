"""C09 -- a typed word never has two readings; `||` is transparent to matching.

Part 1 (exact decision on the compiled automaton, as the quantifier asks): the extracted, proved
sound Spec/Ambig.v `find` is run on **Rust's** minimised automaton (cg-dump MIN) of every generated
grammar.  A witness is attributed to its mechanism by the kinds of the two items:
  literal/literal         two_outgoing_literal_items_with_equal_text
  within-word/within-word two_outgoing_subword_items_with_intersecting_languages
  literal/within-word     literal_text_accepted_by_subword_item
Part 2 (execution): the script of the `||` grammar against the script of its `|` variant in real
bash on the same command lines: the same lines are matched (exit status), every candidate of the
`||` script is a candidate of the `|` script, the `||` script offers something whenever the `|`
script does, and every candidate of the `|` script that the `||` script does not offer is one that the
extracted Spec/Undercut.v lists as undercut by a strictly earlier level (Props/C09c.v proves exactly
this at the level of the specification and, through C01, of the script).  A difference is attributed to the mechanism Part 1 found in either automaton (or to
the same-text mechanism inside a within-word automaton) only on a command line that meets the ambiguity -- a complete word
read by two different items, the cursor at a point with two such items, or a within-word expression with two readings of a
piece: the extracted Spec/TwoReadings.v on either validated tree; anything else is a violation."""
import os
import time
from concurrent.futures import ThreadPoolExecutor

from .. import bashrun, build, canon, coqcheck, gen, impl, model, mspec, paths, report, sexp

MANIFEST = dict(
    text=('Spec/Ambig.v: `unambiguous d` (no state with two outgoing literal/within-word items that read a common word and differ '
          'in target) and the decision procedure Ambig.find (literal/literal by text, literal/within-word by running the within-word '
          'automaton, within-word/within-word by a checked product of the character-level expansions). Proved (Props/C09.v): '
          'C09_dec_correct_partial (find = None -> unambiguous), C09_dec_witness (an exhibited word is read by both items), '
          'C09_dec_complete / C09_dec_correct (on tables without duplicate keys find = None <-> unambiguous unless a product search '
          'ran out of its fuel), C09_fallback_transparent_check (Check.from_grammar of a grammar and of its | variant are matched by '
          'the same command lines), '
          'C09_unambiguous (outside the known mechanisms), C09_fallback_transparent_spec (for the specification Spec/Meaning.v and '
          'the model of the level pass, replacing every || by | changes neither the matched lines nor, up to levels, the expected '
          'items), C09_candidates_monotone_partial; Props/C09c.v: C09_fallback_transparent_complete and C09_candidates_monotone_spec '
          '(every required/allowed candidate of the | variant at a cursor position is one of the || grammar unless Spec/Undercut.v '
          'lists it as undercut by a strictly earlier level, on both tiers: || branches and pieces inside a word), '
          'C09_undercut_meaning, and C09_candidates_monotone_script (the same for run_from Repaired on the tables of the two '
          'grammars, by transfer through C01_bash_meaning_mixed). The implementation is decided directly: extracted Ambig.find on Rust\'s minimised '
          'automaton of every generated grammar (biased to || branches and call variants starting with the same literal, within-word '
          'expressions repeated with permuted alternatives or through definitions), and the || script against the | script in real '
          'bash (same matched lines, candidates monotone in both directions with the undercut exception computed by the extracted '
          'specification; a difference counts as an instance of a known class only on a command line that meets the ambiguity, '
          'decided per line by the extracted Spec/TwoReadings.v). Props/C09b.v, on the automata Driver.compile_valid builds: '
          'C09_fallback_transparent_compiled (the automaton of a grammar and of its | variant accept the same item words up to levels and '
          'descriptions, match the same typed command lines and expect the same items after them; outside the known mechanisms the walk is '
          'unique) and C09_unambiguous_compiled (grammar side: two readings of the same typed words have the same continuations); '
          'Rust\'s minimised automata of g and of bar(g), levels and descriptions erased, are both judged against the normal form of '
          'g\'s validated tree by the proved judge Spec.Lang.equiv_dfa_expr.'),
    design='6 C09',
    technique='Coq-proved decision procedure run on the implementation\'s automaton + differential execution of || vs | scripts in real bash')

CLASS_LL = 'two_outgoing_literal_items_with_equal_text'
CLASS_SS = 'two_outgoing_subword_items_with_intersecting_languages'
CLASS_LS = 'literal_text_accepted_by_subword_item'


def bar(e):
    k = e[0]
    if k in ('seq', 'alt', 'fb'):
        return ('alt' if k == 'fb' else k, [bar(c) for c in e[1]])
    if k in ('opt', 'many'):
        return (k, bar(e[1]))
    if k == 'dd':
        return ('dd', bar(e[1]), e[2])
    if k == 'sub':
        return ('sub', [bar(c) for c in e[1]])
    return e


def bar_grammar(stmts):
    out = []
    for s in stmts:
        if s[0] == 'call':
            out.append(('call', s[1], gen.normalize(bar(s[2]))))
        else:
            out.append(('def', s[1], s[2], gen.normalize(bar(s[3]))))
    return out


def L(t, d=None):
    return ('lit', t, d)


def nested_levels(rng):
    """|| nested inside a branch of another ||, inside |, behind a definition: the same literal reached
    along two nesting paths that give it the SAME level (the numbering of a nested || starts afresh), so the
    two occurrences are one expectation and the automaton must merge them."""
    a = rng.choice(mspec.TOP_LITS)
    others = [t for t in mspec.TOP_LITS if t != a]
    x, y, z, b, c = [L(t) for t in rng.sample(others, 5)]
    A = L(a)
    shapes = [
        ('fb', [x, ('seq', [A, b]), ('fb', [y, ('seq', [A, c])])]),
        ('fb', [('seq', [A, b]), ('fb', [('seq', [A, c]), z])]),
        ('alt', [('fb', [x, ('seq', [A, b])]), ('fb', [y, ('seq', [A, c])])]),
        ('fb', [x, ('alt', [('seq', [A, b]), ('fb', [y, ('seq', [A, c])])])]),
        ('seq', [('opt', z), ('fb', [x, ('seq', [A, b]), ('fb', [y, ('seq', [A, c])])])]),
    ]
    e = rng.choice(shapes)
    stmts = [('call', 'cmd', e)]
    if rng.random() < 0.4:
        # the nested || behind a definition
        stmts = [('call', 'cmd', ('fb', [x, ('seq', [A, b]), ('nt', 'N')])), ('def', 'N', None, ('fb', [y, ('seq', [A, c])]))]
    # not normalised: gen.normalize would flatten the nested || (the shapes above are otherwise in normal form)
    return stmts, mspec.Probes()


def biased(rng):
    """Grammars aimed at the property's corner: the same literal at the head of several || branches
    or call variants, within-word expressions repeated with permuted alternatives or reached
    through different definitions."""
    pr = mspec.Probes()
    x = rng.random()
    lits = rng.sample(mspec.TOP_LITS, 4)
    tails = [L(t) for t in rng.sample(['x', 'y', 'z', 'w'], 3)]
    vals = rng.sample(mspec.SUB_VALS, 3)
    head = rng.choice(mspec.SUB_HEADS)

    def word(vs, via=None):
        if via:
            return ('sub', [L(head), ('nt', via)])
        return ('sub', [L(head), ('alt', [L(v) for v in vs])])
    defs = []
    if x < 0.25:
        # same literal in two/three || branches, different continuations
        n = rng.choice([2, 2, 3])
        same = lits[0]
        branches = []
        for i in range(n):
            lead = L(same) if rng.random() < 0.8 else L(lits[1])
            branches.append(('seq', [lead, tails[i]]) if rng.random() < 0.85 else lead)
        e = ('fb', branches)
        if rng.random() < 0.4:
            e = ('seq', [('opt', L(lits[2])), e])
    elif x < 0.4:
        # call variants beginning with the same literal (merged by |: one item) + a || inside
        e = None
        stmts = [('call', 'cmd', ('seq', [L(lits[0]), tails[0]])),
                 ('call', 'cmd', ('seq', [L(lits[0]), ('fb', [tails[1], ('seq', [L(lits[0]), tails[2]])])]))]
        if rng.random() < 0.5:
            stmts.append(('call', 'cmd', ('fb', [L(lits[1]), ('seq', [L(lits[0]), L(lits[1])])])))
        return [mspec.normalize_stmt(s) for s in stmts], pr
    elif x < 0.65:
        # within-word expression twice: permuted / identical / overlapping / disjoint alternatives
        y = rng.random()
        a = vals[:2]
        if y < 0.35:
            b = [a[1], a[0]]
        elif y < 0.5:
            b = list(a)
        elif y < 0.75:
            b = [a[0], vals[2]]
        else:
            b = [vals[2], 'u']
        op = 'fb' if rng.random() < 0.4 else 'alt'
        e = (op, [('seq', [word(a), tails[0]]), ('seq', [word(b), tails[1]])])
    elif x < 0.8:
        # the same values through a definition and spelled out / through two definitions
        a = vals[:2]
        b = [a[1], a[0]] if rng.random() < 0.5 else list(a)
        defs = [('def', 'V', None, ('alt', [L(v) for v in a])), ('def', 'W', None, ('alt', [L(v) for v in b]))]
        second = word(None, 'W') if rng.random() < 0.5 else word(b)
        e = ('alt', [('seq', [word(None, 'V'), tails[0]]), ('seq', [second, tails[1]])])
    elif x < 0.9:
        # a literal that a within-word expression accepts as well
        a = vals[:2]
        e = ('alt', [('seq', [L(head + a[0]), tails[0]]), ('seq', [word(a), tails[1]])])
    else:
        g = mspec.RGen(rng, max_depth=3, p_fb=0.35)
        return g.grammar(), g.pr
    stmts = [('call', 'cmd', e)] + defs
    return [mspec.normalize_stmt(s) for s in stmts], pr


def witness_class(dfa_sx, wit, grammar_text):
    """dfa_sx: parsed (dfa ...); wit: parsed (some s i j w).  The literal/literal mechanism is "the same
    literal in different || branches gets different levels": it is only accepted as the explanation when
    the two items differ in level and the grammar has a || at all."""
    inputs = dfa_sx[4][1:]
    ki = inputs[int(wit[2])][0]
    kj = inputs[int(wit[3])][0]
    kinds = sorted([ki, kj])
    if kinds == ['lit', 'lit']:
        if '||' not in grammar_text or inputs[int(wit[2])][3] == inputs[int(wit[3])][3]:
            return None
        return CLASS_LL
    if kinds == ['sub', 'sub']:
        return CLASS_SS
    if kinds == ['lit', 'sub']:
        return CLASS_LS
    return None


def norm_expr(e):
    """CheckBar.norm on a CHECK tree: levels := 0, descriptions := none, || := |."""
    k = e[0]
    if k == 'lit':
        return ['lit', e[1], '-', '0', e[4]]
    if k == 'nt':
        return ['nt', e[1], '0', e[3]]
    if k == 'cmd':
        return ['cmd', e[1], e[2], '0', e[4]]
    if k in ('seq', 'alt', 'fb'):
        return ['alt' if k == 'fb' else k, e[1]] + [norm_expr(c) for c in e[2:]]
    if k in ('opt', 'many'):
        return [k, e[1], norm_expr(e[2])]
    if k == 'dd':
        return ['dd', e[1], e[2], norm_expr(e[3])]
    if k == 'sub':
        return ['sub', '0', e[2], norm_expr(e[3])]
    return e


def erase_dfa(d):
    """levels := 0, descriptions := none on the inputs of an automaton and of its within-word automata."""
    if d[0] != 'dfa':
        return d
    def ei(i):
        if i[0] == 'lit':
            return ['lit', i[1], '-', '0']
        if i[0] in ('sub', 'cmd', 'compadd'):
            return [i[0], i[1], '0']
        return i
    return d[:4] + [['inputs'] + [ei(i) for i in d[4][1:]], ['subdfas'] + [erase_dfa(x) for x in d[5][1:]]]


ERASED_FUEL = 400000


def subword_same_text(dfa_sx):
    """Mechanism predicate: some state of a within-word automaton has two outgoing literal items
    with equal text and different targets."""
    for sd in dfa_sx[5][1:]:
        if sd[0] != 'dfa':
            continue
        inputs = sd[4][1:]
        for row in sd[2][1:]:
            seen = {}
            for tr in row[1:]:
                i = inputs[int(tr[0])]
                if i[0] == 'lit':
                    t = str(i[1])
                    if t in seen and seen[t] != tr[1]:
                        return True
                    seen.setdefault(t, tr[1])
    return False


def nontrivial_dfa(dfa_sx):
    """Some state has >= 2 outgoing literal/within-word items."""
    inputs = dfa_sx[4][1:]
    for row in dfa_sx[2][1:]:
        n = sum(1 for tr in row[1:] if inputs[int(tr[0])][0] in ('lit', 'sub'))
        if n >= 2:
            return True
    return False


def undercut_request(expr_text, outs, wb, queries):
    """Spec/Undercut.v (extracted): per query, the candidates of the || grammar withheld because a strictly earlier level
    has a candidate extending the prefix"""
    return 'undercut %s %s %s %s' % (expr_text, sexp.quote(wb), mspec.env_sx(outs), mspec.q_sx(queries))


def tworeadings_request(expr_text, outs, wb, queries):
    """Spec/TwoReadings.v (extracted): per query, 1 iff the line meets a point where a typed word has two readings"""
    return 'tworeadings %s %s %s %s' % (expr_text, sexp.quote(wb), mspec.env_sx(outs), mspec.q_sx(queries))


def run(ctx, res):
    with build.Lock():
        exe = build.harness()
        # the second half of the property as theorems (specification level and script level): Props/C09c.v
        extra = coqcheck.check_property('C09c')
    if not extra['ok']:
        res.violations.append(report.Violation('proof obligations of C09c (candidates monotone, || transparent at the cursor) no longer check',
                                               dict(kind='proof-obligation', errors=extra['errors'][:5]), found_input=False))
    res.extra['theorems_C09c'] = extra['theorems']
    rng = ctx['rng']
    quick = ctx['tier'] == 'quick'
    budget = float(os.environ.get('VERIF_C09_BUDGET', 110 if quick else 1200))
    n_dec = 1000 if quick else 40000
    t0 = time.time()
    counters = dict(grammars=0, rejected=0, decided_none=0, decided_some=0, model_error=0, bash_grammars=0, bash_pairs=0,
                    skipped_c01_mechanism=0, skipped_ambiguous=0, unreferenced_subdfa=0, bar_variant_rejected=0,
                    bar_candidates_judged=0, bar_candidates_undercut=0, undercut_skipped_greedy_shadow=0, spec_monotone_checked=0,
                    differences_on_a_line_meeting_the_ambiguity=0, differences_off_the_ambiguity=0, lines_meeting_two_readings=0)
    found = {CLASS_LL: 0, CLASS_SS: 0, CLASS_LS: 0}
    # ---- Part 1: the decision on Rust's automaton
    witnesses = [
        ([('call', 'cmd', ('fb', [('seq', [L('a'), L('x')]), ('seq', [L('a'), L('y')])]))], mspec.Probes(), CLASS_LL),
        ([('call', 'cmd', ('alt', [('seq', [('sub', [L('--o='), ('alt', [L('a'), L('b')])]), L('x')]),
                                   ('seq', [('sub', [L('--o='), ('alt', [L('b'), L('a')])]), L('y')])]))], mspec.Probes(), CLASS_SS),
        ([('call', 'cmd', ('alt', [('seq', [L('ab'), L('x')]),
                                   ('seq', [('sub', [L('a'), ('alt', [L('b'), L('c')])]), L('y')])]))], mspec.Probes(), CLASS_LS),
    ]
    cases = [(w[0], w[1], w[2]) for w in witnesses]
    for _ in range(12 if quick else 200):
        st, pr = nested_levels(rng)
        cases.append((st, pr, None))
    # one literal with two descriptions out of one state, among 0-3 sibling literals sorting before/after it: such a grammar is
    # rejected (Conflicting descriptions); if it were accepted its automaton would have two readings of that literal
    for k in range(8 if quick else 60):
        sib = rng.sample(['--help', 'commit', 'Zed', 'aaa', 'zzz', '-x'], k % 4)
        d1, d2 = rng.choice([('add one', 'add two'), ('add one', None), (None, 'add two')])
        alts = [('seq', [L('add', d1), L('x')]), ('seq', [L('add', d2), L('y')])] + [L(t) for t in sib]
        rng.shuffle(alts)
        cases.append(([('call', 'cmd', ('alt', alts))], mspec.Probes(), None))
    for _ in range(n_dec):
        st, pr = biased(rng)
        cases.append((st, pr, None))
    texts = [gen.show_grammar(c[0]).encode('latin-1') for c in cases]
    dumps = impl.dump(exe, texts, ['check', 'min', 'amb'], ['bash'])
    reqs, idx = [], []
    for i, d in enumerate(dumps):
        st = d['bash']
        counters['grammars'] += 1
        m = st.get('MIN', '')
        if 'CRASH' in st or 'PANIC' in st:
            # C09 speaks about accepted grammars, but a run in which the library dies must not pass for "nothing to judge"
            counters['crashed'] = counters.get('crashed', 0) + 1
            res.violations.append(report.Violation('the library crashed while compiling a generated grammar: %s' % (st.get('PANIC') or st.get('CRASH'))[:200],
                                                   dict(grammar=texts[i].decode('latin-1'), kind='crash', impl={k: v[:500] for k, v in st.items()})))
            continue
        if not m.startswith('(ok ') or st.get('AMB', '(ok').startswith('(err'):
            counters['rejected'] += 1
            continue
        if '(unreferenced)' in m:
            counters['unreferenced_subdfa'] += 1
            continue
        reqs.append('ambig ' + m[4:-1])
        idx.append(i)
    outs = model.run(reqs)
    # A known mechanism explains an instance only if the model of the pinned code predicts it: the model pipeline
    # (Driver.compile on the same text) must give an automaton on which Ambig.find also reports an instance of that
    # class.  An ambiguity of Rust's automaton that the model's automaton does not have is a new violation.
    amb_idx = [i for i, o in zip(idx, outs) if o.startswith('(some')]
    mouts = model.run(['compile bash 200000 %s' % sexp.quote(texts[i].decode('latin-1')) for i in amb_idx])
    mreq, mreq_i = [], []
    model_says = {}
    for i, mo in zip(amb_idx, mouts):
        mm = sexp.parse(mo)
        if mm[0] == 'ok':
            mreq.append('ambig ' + sexp.dump(mm[2])); mreq_i.append(i)
            model_says[i] = ('dfa', mm[2])
        else:
            model_says[i] = ('other', mo[:200])
    for i, ao in zip(mreq_i, model.run(mreq)):
        model_says[i] = model_says[i] + (ao,)
    verdict = {}
    nontrivial = 0
    for i, o in zip(idx, outs):
        res.evaluations += 1
        if o.startswith('(drivererror'):
            counters['model_error'] += 1
            res.violations.append(report.Violation('Ambig.find failed on Rust\'s automaton: ' + o[:200],
                                                   dict(grammar=texts[i].decode('latin-1'), kind='harness-error', output=o),
                                                   found_input=False))
            continue
        dsx = sexp.parse(dumps[i]['bash']['MIN'])[1]
        if nontrivial_dfa(dsx):
            nontrivial += 1
        w = sexp.parse(o)
        if w[0] == 'none':
            counters['decided_none'] += 1
            verdict[i] = None
            if cases[i][2] is not None:
                res.notes.append('witness of known finding %s is no longer ambiguous (the finding may be stale)' % cases[i][2])
            continue
        counters['decided_some'] += 1
        cls = witness_class(dsx, w, texts[i].decode('latin-1'))
        ms = model_says.get(i)
        if cls is not None and (ms is None or ms[0] != 'dfa'):
            # the model pipeline does not accept the grammar the library accepted: nothing predicts the instance
            counters['known_class_not_predicted_by_model'] = counters.get('known_class_not_predicted_by_model', 0) + 1
            cls = None
        if cls is not None and ms is not None and ms[0] == 'dfa':
            mw = sexp.parse(ms[2]) if ms[2].startswith('(') else ['error']
            mcls = witness_class(ms[1], mw, texts[i].decode('latin-1')) if mw[0] == 'some' else None
            if mw[0] == 'none' or (mw[0] == 'some' and mcls != cls and canon.canon_dfa(ms[1]) != canon.canon_dfa(dsx)):
                counters['known_class_not_predicted_by_model'] = counters.get('known_class_not_predicted_by_model', 0) + 1
                cls = None
        verdict[i] = cls
        inputs = dsx[4][1:]
        replay = dict(grammar=texts[i].decode('latin-1'), kind='spec-judgement',
                      state=w[1], item1=sexp.dump(inputs[int(w[2])]), item2=sexp.dump(inputs[int(w[3])]),
                      common_word=None if w[4] == '-' else str(w[4]), minimised_dfa=dumps[i]['bash']['MIN'][:3000],
                      why='state %s has two outgoing items that read a common word and lead to different states' % w[1])
        if cls is not None:
            found[cls] += 1
        res.violations.append(report.Violation('C09: two readings of %r at state %s' % (replay['common_word'], w[1]), replay, cls=cls))
        if len(res.samples) < 3:
            res.samples.append(dict(grammar=replay['grammar'], ambig_find=o, item1=replay['item1'], item2=replay['item2']))
    # ---- Part 2: || script against | script in real bash
    order = [i for i in idx if i in verdict]
    # witnesses first, then grammars with a || somewhere, unambiguous ones before ambiguous ones
    def has_fb(i):
        return ' || ' in texts[i].decode('latin-1')
    order = [i for i in order if cases[i][2] is not None] + \
            [i for i in order if cases[i][2] is None and has_fb(i) and verdict[i] is None] + \
            [i for i in order if cases[i][2] is None and has_fb(i) and verdict[i] is not None]
    # ---- Part 3 (tie for C09_fallback_transparent_compiled): Rust's minimised automata of g and of
    # bar(g), levels and descriptions erased, both against the normal form of g's validated tree
    # (the proved judge Spec.Lang.equiv_dfa_expr; denotes (norm e) = erased language, C09_denotes_norm)
    sel3 = [i for i in order if has_fb(i)][:(300 if quick else 6000)]
    b3 = [gen.show_grammar(bar_grammar(cases[i][0])).encode('latin-1') for i in sel3]
    d3 = impl.dump(exe, b3, ['check', 'min'], ['bash'])
    ereq, eidx = [], []
    for i, bt, db in zip(sel3, b3, d3):
        a, b = dumps[i]['bash'], db['bash']
        if not b.get('MIN', '').startswith('(ok ') or '(unreferenced)' in b['MIN']:
            counters['bar_variant_rejected'] += 1
            continue
        ne = sexp.dump(norm_expr(mspec.check_expr(a['CHECK'])))
        for st in (a, b):
            ereq.append('equiv %s %s %d' % (sexp.dump(erase_dfa(sexp.parse(st['MIN'])[1])), ne, ERASED_FUEL))
        eidx.append((i, bt, a, b))
    eout = model.run(ereq)
    for n, (i, bt, a, b) in enumerate(eidx):
        for k, which in ((0, 'the || grammar'), (1, 'its | variant')):
            o = eout[2 * n + k]
            res.evaluations += 1
            counters['erased_equiv'] = counters.get('erased_equiv', 0) + 1
            if o == '(equal)':
                res.traces_validated += 1
                continue
            why = ('the minimised automaton of %s, levels and descriptions erased, does not accept the erased language of the '
                   '|| grammar: %s' % (which, o[:300]))
            res.violations.append(report.Violation(
                'C09: ' + why, dict(grammar=texts[i].decode('latin-1'), bar_variant=bt.decode('latin-1'), kind='spec-judgement',
                                    why=why, minimised_dfa=a['MIN'][:3000], minimised_dfa_bar_variant=b['MIN'][:3000]),
                found_input=o.startswith('(differ')))
    pos = 0
    chunk = 24 if quick else 64
    longest = 0.0
    pairs_nontrivial = 0
    first = True
    # the first two chunks run whatever the clock says (the coverage floor of report.py must not depend on load)
    while pos < len(order) and (first or pos < 2 * chunk or time.time() - t0 + longest < budget):
        first = False
        tc = time.time()
        sel = order[pos:pos + chunk]
        pos += chunk
        btexts = [gen.show_grammar(bar_grammar(cases[i][0])).encode('latin-1') for i in sel]
        d1 = impl.dump(exe, [texts[i] for i in sel], ['check', 'min', 'script'], ['bash'])
        d2 = impl.dump(exe, btexts, ['check', 'min', 'script'], ['bash'])
        prep = []
        for i, bt, a, b in zip(sel, btexts, d1, d2):
            a, b = a['bash'], b['bash']
            if 'SCRIPT' not in a:
                continue
            if 'SCRIPT' not in b or not b.get('MIN', '').startswith('(ok '):
                counters['bar_variant_rejected'] += 1
                continue
            prep.append((i, bt, a, b))
        if not prep:
            continue
        exprs = [(sexp.dump(mspec.check_expr(a['CHECK'])), sexp.dump(mspec.check_expr(b['CHECK']))) for _, _, a, b in prep]
        vocs = [mspec.vocabulary(mspec.check_expr(a['CHECK']), cases[i][1].outs) for (i, _, a, _) in prep]
        pl = model.run([mspec.paths_request(e[0], cases[p[0]][1].outs, 3, 40, v) for p, e, v in zip(prep, exprs, vocs)])
        amb2 = model.run(['ambig ' + b['MIN'][4:-1] for _, _, _, b in prep])
        queries = []
        for line, v in zip(pl, vocs):
            pathlist = [] if line.startswith('(drivererror') else [[str(w) for w in p] for p in sexp.parse(line)]
            from .c01 import make_queries
            queries.append(make_queries(rng, pathlist, v, 7 if quick else 16))
        # C01's mechanisms (decided on either validated tree) are not C09's business
        fl = model.run([mspec.meaning_request(e[k], cases[p[0]][1].outs, mspec.DEFAULT_WB, q)
                        for p, e, q in zip(prep, exprs, queries) for k in (0, 1)])

        # the exception of the second half, computed by the extracted specification on the || grammar's validated tree
        ul = model.run([undercut_request(e[0], cases[p[0]][1].outs, mspec.DEFAULT_WB, q) for p, e, q in zip(prep, exprs, queries)])

        # which lines meet an ambiguity at all (either tree): only there can a known class of C09 explain a difference
        tl = model.run([tworeadings_request(e[k], cases[p[0]][1].outs, mspec.DEFAULT_WB, q)
                        for p, e, q in zip(prep, exprs, queries) for k in (0, 1)])

        def work(j):
            (i, bt, a, b), q = j
            r1, _ = bashrun.run_queries(str(sexp.parse(a['SCRIPT'])), q, timeout=600)
            r2, _ = bashrun.run_queries(str(sexp.parse(b['SCRIPT'])), q, timeout=600)
            return r1, r2
        with ThreadPoolExecutor(max_workers=paths.NCPU) as ex:
            answers = list(ex.map(work, zip(prep, queries)))
        for n, ((i, bt, a, b), q, (r1, r2)) in enumerate(zip(prep, queries, answers)):
            counters['bash_grammars'] += 1
            f1 = mspec.parse_meaning(fl[2 * n]) if not fl[2 * n].startswith('(drivererror') else None
            f2 = mspec.parse_meaning(fl[2 * n + 1]) if not fl[2 * n + 1].startswith('(drivererror') else None
            w2 = sexp.parse(amb2[n]) if not amb2[n].startswith('(drivererror') else ['none']
            und = None if ul[n].startswith('(drivererror') else [set(str(c) for c in r) for r in sexp.parse(ul[n])]
            t1 = None if tl[2 * n].startswith('(drivererror') else [str(x) == '1' for x in sexp.parse(tl[2 * n])]
            t2 = None if tl[2 * n + 1].startswith('(drivererror') else [str(x) == '1' for x in sexp.parse(tl[2 * n + 1])]
            cls = verdict[i]
            if cls is None and w2[0] == 'some':
                cls = witness_class(sexp.parse(b['MIN'])[1], w2, bt.decode('latin-1'))
            if cls is None and (subword_same_text(sexp.parse(a['MIN'])[1]) or subword_same_text(sexp.parse(b['MIN'])[1])):
                cls = CLASS_LL
            for k, (ws, pre) in enumerate(q):
                x, y = r1[k], r2[k]
                res.evaluations += 1
                counters['bash_pairs'] += 1
                if f1 is None or f2 is None:
                    continue
                fa, fb_ = f1[k][1], f2[k][1]
                if fa['ambiguous'] or fb_['ambiguous']:
                    counters['skipped_ambiguous'] += 1
                    continue
                if ws or pre:
                    pairs_nontrivial += 1
                if (t1 is not None and t1[k]) or (t2 is not None and t2[k]):
                    counters['lines_meeting_two_readings'] += 1
                why = ''
                if x is None or y is None:
                    why = 'bash produced no answer'
                elif x['rc'] != y['rc']:
                    why = 'the || script returns status %d, the | script %d: different lines are matched' % (x['rc'], y['rc'])
                elif not set(x['reply']) <= set(y['reply']):
                    why = 'the || script offers %r which the | script does not offer' % sorted(set(x['reply']) - set(y['reply']))
                elif y['reply'] and not x['reply']:
                    why = 'the | script offers %r, the || script offers nothing although no earlier branch has a candidate' % sorted(set(y['reply']))
                elif und is not None:
                    # second half of the property: what the | script offers and the || script does not must be undercut by an
                    # earlier level (Spec/Undercut.v); also the specification itself is re-judged (C09_candidates_monotone_spec)
                    if f1[k][0] is not None and f2[k][0] is not None:
                        counters['spec_monotone_checked'] += 1
                        if not (f2[k][0][0] <= (f1[k][0][0] | und[k])):
                            why = ('specification-level monotonicity fails (theorem C09_candidates_monotone_spec contradicted by the '
                                   'extracted functions): %r' % sorted(f2[k][0][0] - f1[k][0][0] - und[k]))
                    missing = set(y['reply']) - set(x['reply'])
                    counters['bar_candidates_judged'] += len(set(y['reply']))
                    counters['bar_candidates_undercut'] += len(missing & und[k])
                    if not why and missing - und[k]:
                        why = ('the | script offers %r which the || script does not offer although no candidate of an earlier '
                               'level extends the typed prefix (undercut = %r)' % (sorted(missing - und[k]), sorted(und[k])))
                if not why:
                    res.traces_validated += 1
                    continue
                replay = dict(grammar=texts[i].decode('latin-1'), bar_variant=bt.decode('latin-1'), words=ws, prefix=pre,
                              barbar_script=x, bar_script=y, why=why, kind='spec-judgement',
                              minimised_dfa=a['MIN'][:3000], minimised_dfa_bar_variant=b['MIN'][:3000])
                # the known mechanisms (two readings of one word in one of the two automata) explain a different matched set or
                # different candidates, nothing else: no answer from bash or a contradicted theorem is never a known instance
                explained = not (why.startswith('bash produced no answer') or why.startswith('specification-level'))
                # ... and only on a line that meets the ambiguity: a complete word read by two different items, the cursor at a
                # point with two such items, or a within-word expression with two readings of a piece (Spec/TwoReadings.v on
                # either validated tree).  A grammar that contains an ambiguity elsewhere explains nothing.
                touched = t1 is not None and t2 is not None and (t1[k] or t2[k])
                if cls is not None and explained:
                    counters['differences_on_a_line_meeting_the_ambiguity' if touched else 'differences_off_the_ambiguity'] += 1
                    replay['meets_two_readings'] = bool(touched)
                res.violations.append(report.Violation('C09: ' + why, replay, cls=cls if explained and touched else None))
        longest = max(longest, time.time() - tc)
    res.nontrivial = nontrivial + pairs_nontrivial
    res.rule = ('evaluations = automata decided by the extracted Ambig.find (Rust\'s minimised automaton of a generated grammar) + '
                '(|| script, | script) query pairs executed in bash; non-trivial = automaton with a state that has >= 2 outgoing '
                'literal/within-word items, or a query pair with at least one complete word or a non-empty prefix that is outside '
                'C01\'s script mechanisms; generator: same literal in several || branches / call variants, within-word expressions '
                'repeated with permuted, identical, overlapping or disjoint alternatives, directly or through definitions, a literal '
                'that a within-word expression also accepts, and general random grammars with many ||')
    res.extra['counters'] = counters
    res.extra['ambiguities_by_mechanism'] = found
    res.extra['bash_budget_s'] = budget
