"""C12 -- inside a word, overlapping alternatives are told apart.

Theorem side: Props/C12.v (on Model/BashSem.v's within-word matcher: the repaired loop recognises every fully typed
value of a prefix chain and offers exactly the extending values for a partial one; the loop pinned in /repo is refuted
for a shorter value: C12_refuted_shorter_value).
Tie T2: real bash on the emitted script vs the extracted BashSem on Rust's TABLES (COMPREPLY, rc, probe log, exact).
Direct judgement: real bash against the property text on
  - the exhaustive family  cmd --opt=(vs) next;  for every vs <= {a, ab, abc, abcd, b, ba, abd}, 2 <= |vs| <= 4,
    every value and every prefix of a value as the typed word, as a complete word followed by the cursor
    (must be recognised: rc 0 and `next` offered, iff it is a value) and as the word under the cursor (must offer
    exactly the values extending it; a fully typed value that nothing extends may also offer nothing);
  - random chains: other prefixes, alphabets, value sets through a definition, a second word expression with longer
    literals that are NOT allowed at that place (they must not interfere)."""
import itertools
import time

from .. import build, impl, model, report, sexp, t2

UNIVERSE = ['a', 'ab', 'abc', 'abcd', 'b', 'ba', 'abd']
KNOWN_CLASS = 'shorter_value_not_recognised'

MANIFEST = dict(
    text=('Theorems of Props/C12.v on Model/BashSem.v (an interpreter of the emitted bash skeleton over the emitted tables; variant Repaired '
          'mirrors /repo HEAD): C12_values_recognised / C12_partial_stops / C12_partial_offers -- on ANY within-word tables with the literal '
          'array in decreasing length the matcher consumes a fully typed value exactly and ends matched whatever longer or shorter literals '
          'exist (expected at that point or not), stays in front of a partially typed value and offers exactly the level-0 literals extending '
          'the typed word; C12_chain_value_recognised / C12_chain_partial_offers -- end to end (run_from Repaired: rc, COMPREPLY, log) on the '
          'tables the pipeline emits for cmd pre(v1|..|vn) next; with arbitrary prefix chains and arbitrary characters (Model/ChainTables.v, '
          'compared with Rust\'s TABLES for every grammar of the family); C12_pinned_known_class / C12_pinned_outside_known / '
          'C12_refuted_shorter_value -- the template before commit ac67eca refused `--opt=a` with --opt=(a|abc|abcd), exactly when some '
          'literal of the array properly extends the value. '
          'BashSem is tied to the real script by T2 (real bash 5.2 vs extracted model on Rust\'s own tables: COMPREPLY, return code and '
          'probe log compared exactly), its bash primitives (glob matching, printf %q, read/echo filtering, sort, associative-array key '
          'order) are compared with real bash on generated inputs, the skeleton templates are hash-locked (T3), and real bash is judged '
          'directly against the property on the exhaustive family of value sets over {a,ab,abc,abcd,b,ba,abd} (size 2..4) x every '
          'value and prefix x with/without a following word, plus random chains.'),
    design='6 C12',
    technique='Coq theorem on the bash-skeleton interpreter + real-bash/extracted-model correspondence (T2) + direct judgement of real bash')


def prefixes_of(vs):
    out = set()
    for v in vs:
        for i in range(len(v) + 1):
            out.add(v[:i])
    return sorted(out)


class Fam:
    """one grammar of the family with its queries and expectations"""

    def __init__(self, text, pre, vs, wordbreaks, label, tail='next'):
        self.text = text
        self.pre = pre
        self.vs = list(vs)
        self.wordbreaks = wordbreaks
        self.label = label
        self.tail = tail
        self.longer = []
        self.queries = []
        self.meta = []
        for t in prefixes_of(vs):
            self.queries.append(([pre + t], ''))
            self.meta.append(('complete-word', t))
            self.queries.append(([], pre + t))
            self.meta.append(('under-cursor', t))

    def strip(self, typed_word, cands):
        """bash's own stripping of the typed prefix up to its last word-break character"""
        wb = t2.DEFAULT_WORDBREAKS if self.wordbreaks is None else self.wordbreaks
        cut = max([typed_word.rfind(ch) for ch in wb] + [-1]) + 1
        return [c[cut:] if c.startswith(typed_word[:cut]) else c for c in cands]

    def expect(self, kind, t):
        """-> (set of acceptable (rc, sorted reply) pairs)"""
        vs = self.vs
        if kind == 'complete-word':
            if t in vs:
                return [(0, [self.tail + ' '])]
            return 'unjudged'           # the property says nothing about words that are not values (that is C01)
        ext = [v for v in vs if v.startswith(t)]
        full = sorted(self.strip(self.pre + t, [self.pre + v for v in ext]))
        ok = [(0, full)]
        if ext == [t]:
            ok.append((0, []))          # a fully typed value that nothing extends: "partially typed" does not apply
            if self.longer:
                return None             # ... and the word goes on after the value: whatever continues it is legitimate
        return ok


def family(ctx):
    fams = []
    sets = [vs for k in (2, 3, 4) for vs in itertools.combinations(UNIVERSE, k)]
    for i, vs in enumerate(sets):
        for wb in ((None, '') if ctx['tier'] == 'thorough' else ((None,) if i % 2 == 0 else ('',))):
            text = 'cmd --opt=(%s) next;\n' % ' | '.join(vs)
            fams.append(Fam(text, '--opt=', vs, wb, 'exhaustive'))
    return fams


def random_chains(ctx, n):
    r = ctx['rng']
    fams = []
    for wb in (None, ''):
        fams.append(Fam('cmd --level=(v "verbose" | vv "very verbose" | vvv "debug") next;\n', '--level=', ['v', 'vv', 'vvv'], wb, 'random-described'))
        fams.append(Fam('cmd --level=(a "zz" | ab | abc "a") next;\n', '--level=', ['a', 'ab', 'abc'], wb, 'random-described'))
    for _ in range(n):
        alpha = r.choice(['ab', 'xy', 'abc', '01'])
        k = r.randint(2, 5)
        vs = set()
        base = ''
        while len(vs) < k:
            if r.random() < 0.6 and vs:
                base = r.choice(sorted(vs))
            v = (base + ''.join(r.choice(alpha) for _ in range(r.randint(1, 2))))[:6]
            vs.add(v)
        vs = sorted(vs, key=lambda x: r.random())
        pre = r.choice(['--k=', 'p:', '-o', 'k='])
        wb = r.choice([None, ''])
        shape = r.random()
        if shape < 0.4 and r.random() < 0.4:
            # values with descriptions (some, all, repeated texts): the order in which the script tries the values must stay
            # longest first whatever the descriptions are
            ds = ['verbose', 'very verbose', 'debug', 'a', 'zz', 'Z first']
            shown = ['%s "%s"' % (v, r.choice(ds)) if r.random() < 0.7 else v for v in vs]
            text = 'cmd %s(%s) next;\n' % (pre, ' | '.join(shown))
            fams.append(Fam(text, pre, vs, wb, 'random-described'))
        elif shape < 0.4:
            text = 'cmd %s(%s) next;\n' % (pre, ' | '.join(vs))
            fams.append(Fam(text, pre, vs, wb, 'random'))
        elif shape < 0.6:
            text = 'cmd %s<V> next;\n<V> ::= %s;\n' % (pre, ' | '.join(vs))
            fams.append(Fam(text, pre, vs, wb, 'random-definition'))
        elif shape < 0.8:
            # a second, optional word with the same prefix piece shape but other (longer) values elsewhere in the grammar
            other = [v + r.choice(alpha) for v in vs[:2]]
            text = 'cmd %s(%s) next [q:(%s)];\n' % (pre, ' | '.join(vs), ' | '.join(sorted(set(other))))
            fams.append(Fam(text, pre, vs, wb, 'random-other-word'))
        else:
            # longer literals later in the SAME word expression (not allowed at the place of the values)
            longer = sorted(set(v + 'z' for v in vs[:2]))
            text = 'cmd %s(%s)[,(%s)] next;\n' % (pre, ' | '.join(vs), ' | '.join(longer))
            f = Fam(text, pre, vs, wb, 'random-later-literals')
            f.longer = longer
            fams.append(f)
    return fams


def strip_tables(sx):
    """TABLES payload without the `needs` switches and the shape hashes (not part of Model/Dfa.v's alltables)"""
    if isinstance(sx, list):
        return [strip_tables(x) for x in sx if not (isinstance(x, list) and x and x[0] in ('needs', 'shapehash'))]
    return sx


def chain_tables_tie(fams, dumps, res):
    """Model/ChainTables.v (what the end-to-end theorems of Props/C12.v are about) against Rust's TABLES, with Rust's
    literal order as the oracle; and the theorems' hypothesis on that order (decreasing length)."""
    reqs, idx = [], []
    for i, f in enumerate(fams):
        if f.label not in ('exhaustive', 'random'):
            continue
        st = dumps[i]['bash']
        if 'TABLES' not in st:
            continue
        full = t2.with_subaccepting(st['TABLES'], st.get('MIN'))
        if full is None:
            continue
        tsx = sexp.parse(full)
        subs = [x for x in tsx if isinstance(x, list) and x and x[0] == 'subwords'][0]
        if len(subs) != 2:
            res.violations.append(report.Violation('C12: the family grammar does not have exactly one within-word automaton',
                                                   dict(kind='generator', grammar=f.text, tables=st['TABLES'][:1500])))
            continue
        lits = [str(l[1]) for l in [x for x in subs[1][2] if isinstance(x, list) and x and x[0] == 'literals'][0][1:]]
        if f.pre not in lits:
            continue
        lens = [len(l) for l in lits]
        if any(a < b for a, b in zip(lens, lens[1:])):
            res.violations.append(report.Violation(
                'hypothesis of the C12 theorems broken: the literal array of the within-word automaton is not in decreasing length: %s' % lits,
                dict(kind='theorem-hypothesis', grammar=f.text, literals=lits), found_input=False))
        reqs.append('chaintables (%s) %d %s' % (' '.join(sexp.quote(l) for l in lits), lits.index(f.pre), sexp.quote(f.tail)))
        idx.append((i, tsx))
    outs = model.run(reqs)
    agree = 0
    for (i, tsx), o in zip(idx, outs):
        if strip_tables(tsx) == strip_tables(sexp.parse(o)):
            agree += 1
        else:
            res.violations.append(report.Violation(
                'tie broken: Model/ChainTables.v is not what the pipeline emits for %s' % fams[i].text.strip(),
                dict(kind='tie-chain-tables', grammar=fams[i].text, rust=dumps[i]['bash']['TABLES'][:3000], model=o[:3000]),
                found_input=False))
    res.extra['chain_tables_compared'] = len(idx)
    res.extra['chain_tables_agree'] = agree


def classify(variant, fam, kind, t, bash):
    """attribute a violation to the known mechanism: the pinned loop stops at a longer literal that the typed text
    is a prefix of, before it reaches the exact shorter value (or although that literal is not allowed there)"""
    if variant != 'pinned':
        return None
    if kind == 'complete-word' and t in fam.vs and bash is not None and bash['rc'] == 1:
        if any(w != t and w.startswith(t) for w in fam.vs):
            return KNOWN_CLASS
        if any(w.startswith(t) for w in fam.longer):
            return KNOWN_CLASS
    return None


def run(ctx, res):
    with build.Lock():
        exe = build.harness()
    budget = 110 if ctx['tier'] == 'quick' else 1500
    fams = family(ctx)
    nfam = len(fams)
    fams += random_chains(ctx, 40 if ctx['tier'] == 'quick' else 600)
    # the fixed described chains first: they run whatever the time budget cuts
    fams.sort(key=lambda f: 0 if f.text.startswith('cmd --level=') else 1)
    dumps = impl.dump(exe, [f.text.encode() for f in fams], ['min', 'tables', 'script'], ['bash'])
    res.rule = ('exhaustive family: every vs <= {a,ab,abc,abcd,b,ba,abd} with 2..4 values (91 sets), grammar cmd --opt=(vs) next; '
                'typed text = every prefix of every value (values included), as the last complete word and as the word under the cursor, '
                'COMP_WORDBREAKS alternating default/empty (both in the thorough tier); then random chains over other alphabets/prefix '
                'pieces/definitions/non-enabled longer literals. non-trivial = (set, typed text, position) where the typed text is a '
                'proper prefix of a value or a value that is a proper prefix of another one')
    # T3: the skeleton the model mirrors
    ts = t2.template_status()
    res.extra['bash_templates'] = ts
    if ts['variant'] != 'repaired':
        # the theorems are about `run_from Repaired`: a script of the older (pinned / partly repaired) templates is not what they describe
        res.violations.append(report.Violation(
            'tie T3 broken: the templates of src/bash.rs are not the ones Model/BashSem.v (variant Repaired) mirrors: variant %s, %s'
            % (ts['variant'], ts['changed'] + ts['missing'] + ts['extra']),
            dict(kind='tie-T3', status=ts), found_input=False))
    chain_tables_tie(fams, dumps, res)
    from . import e2e
    e2e.capstone_obligations(res, 'C12_')      # conditional corollary through compile_bash + a kernel-computed instance: Props/Capstone.v
    # primitives of the interpreter against real bash
    ntot, bad = t2.primitives_tie(ctx['rng'], 120 if ctx['tier'] == 'quick' else 1500)
    res.extra['primitive_comparisons'] = ntot
    for b in bad[:3]:
        res.violations.append(report.Violation('tie T2 (bash primitive) broken: ' + b, dict(kind='tie-T2-primitive', what=b),
                                               found_input=False))
    nontrivial = set()
    done_fams = 0
    chunk = 16
    order = list(range(len(fams)))
    variant_seen = set()
    for lo in range(0, len(order), chunk):
        # the first three chunks run whatever the clock says (the coverage floor of report.py must not depend on load)
        if time.time() - ctx['t0'] > budget and lo >= 3 * chunk:
            break
        idx = order[lo:lo + chunk]
        cases = [t2.Case(dumps[i]['bash'], fams[i].queries, wordbreaks=fams[i].wordbreaks) for i in idx]
        t2.run_cases(cases)
        for i, c in zip(idx, cases):
            f = fams[i]
            done_fams += 1
            if not c.ok:
                res.violations.append(report.Violation('C12: grammar of the family rejected or no script',
                                                       dict(kind='generator', grammar=f.text, impl={k: v[:600] for k, v in dumps[i]['bash'].items()})))
                continue
            variant_seen.add(c.variant)
            if c.variant is None:
                res.violations.append(report.Violation('tie T2 broken: the within-word loop of the script is neither the pinned nor the repaired template',
                                                       dict(kind='tie-T2', grammar=f.text), found_input=False))
            for (kind, t), q, r in zip(f.meta, f.queries, c.results):
                res.evaluations += 1
                replay = dict(grammar=f.text, words=q[0], prefix=q[1], wordbreaks=f.wordbreaks, position=kind, typed=t,
                              values=f.vs, bash=r.bash, model=list(r.model), variant=c.variant)
                chainy = any(w != t and w.startswith(t) for w in f.vs)
                if chainy:
                    nontrivial.add((f.text, t, kind, f.wordbreaks))
                # --- direct judgement against the property
                ok = False
                allowed = f.expect(kind, t)
                if r.bash is not None:
                    got = (r.bash['rc'], sorted(r.bash['reply']))
                    if allowed == 'unjudged':
                        ok = True
                    elif allowed is None:
                        stripped = f.strip(f.pre + t, [f.pre + t])[0]
                        ok = r.bash['rc'] == 0 and all(x.startswith(stripped) for x in r.bash['reply'])
                    else:
                        ok = got in [(rc, sorted(rep)) for rc, rep in allowed]
                if not ok:
                    cls = classify(c.variant, f, kind, t, r.bash)
                    res.violations.append(report.Violation(
                        'C12: typed %r (%s) with values %s: bash gives %s, the property allows %s'
                        % (f.pre + t, kind, f.vs, r.bash and (r.bash['rc'], r.bash['reply']), f.expect(kind, t)),
                        dict(replay, kind='spec-judgement'), cls=cls))
                # --- tie T2
                if r.status in ('agree', 'hang-agree'):
                    res.traces_validated += 1
                elif r.status == 'mismatch':
                    res.violations.append(report.Violation('tie T2 broken: real bash and BashSem disagree',
                                                           dict(replay, kind='tie-T2'), found_input=False))
                if len(res.samples) < 6 and chainy and (res.evaluations % 37 == 0 or (kind == 'complete-word' and t in f.vs and len(res.samples) < 2)):
                    res.samples.append(dict(grammar=f.text.strip(), words=q[0], prefix=q[1], wordbreaks=f.wordbreaks,
                                            bash_rc=r.bash and r.bash['rc'], bash_reply=r.bash and r.bash['reply'],
                                            allowed=f.expect(kind, t)))
    res.nontrivial = len(nontrivial)
    res.exhaustive = done_fams >= nfam
    res.extra['families_run'] = done_fams
    res.extra['families_generated'] = len(fams)
    res.extra['script_variant'] = sorted(str(v) for v in variant_seen)
    if done_fams < nfam:
        res.notes.append('time budget reached after %d of %d exhaustive-family grammars (loaded machine)' % (done_fams, nfam))
