"""C05 -- grammar text parses to the tree its syntax prescribes (print/parse round trip);
parser halves of C13 (spans) and C14 (layout irrelevance).

Theorem side: Props/C05.v (the Gallina model of parse.rs applied to the reference printer's text
returns the tree, with the printer's positions as spans).
Tie T1: Model.Parser.parse (extracted) == Grammar::parse, exactly: tree, every span, or the
ParseError span -- on printed grammars and on a malformed stream.
Direct judgement: a generated tree printed by the extracted reference printer (Spec/Printer.v)
under a random layout, parsed by Rust, must give the tree back (spans erased), the same tree for
every layout, and every span must be the printer's position; span mismatches that are exactly the
prediction for the `LocatedSpan` reset after a backslash escape are the known C13 mechanism
`span_reset_after_escape`."""
import itertools

from .. import build, coqcheck, impl, model, report, sexp
from ..sexp import Q

MANIFEST = dict(
    text=('Theorems C05_roundtrip / C05_roundtrip_pinned / C05_roundtrip_trees / C05_layout_irrelevant / C13_printer_positions_true / C13_spans_sound_any_input / C13_error_span_sound_any_input (Props/C05.v): for every printable '
          'grammar tree g (Printer.wf) and every layout (blanks, newlines, form feeds, # comments at every token boundary, '
          '= or ::=, final ;, plain or escaped dots, redundant parentheses around items), the Gallina model of Grammar::parse '
          'applied to Printer.text g lay returns g with every span equal to the position the printer gave the construct '
          '(exactly, for the lexer with the span reset repaired; for the lexer as it is, the tree up to spans and exactly the '
          'spans the reset mechanism predicts), hence the same tree for any two layouts; and for every input text whatsoever the repaired model attaches only true nom_locate positions as spans (also to the ParseError), never panics or runs out of fuel (parse_total), and only returns trees of the shape stmt_shape / stmt_img (Props/C05b.v). The model is tied to src/parse.rs by '
          'running the extracted model and Grammar::parse on the same texts (printed grammars and a malformed stream) and '
          'comparing tree, spans and ParseError span exactly; the character classes of the terminal lexer are regenerated '
          'from parse.rs on every run; Rust is also judged directly against the printed tree and the printer positions.'),
    design='6 C05 (+ parser halves of C13, C14); Appendix A.4',
    technique='Coq theorem (parser model o reference printer = identity, with spans) + extracted-model/implementation '
              'correspondence on generated and malformed text + T3 regenerated character classes')

REGULAR = "abcdefghijklmnopqrstuvwxyzABCDEFGHIJKLMNOPQRSTUVWXYZ0123456789!#$%&'*+,-/:=?@^_`~"
ESCAPABLE = '()[]<>|;"{}\\.'
SP0 = '0:0:0'


# ------------------------------------------------------------------ trees -> s-expressions

def sx_expr(e):
    k = e[0]
    if k == 'lit':
        return ['lit', Q(e[1]), Q(e[2]) if e[2] is not None else '-', '0', SP0]
    if k == 'nt':
        return ['nt', Q(e[1]), '0', SP0]
    if k == 'cmd':
        return ['cmd', Q(e[1]), '0', '0', SP0]
    if k in ('seq', 'alt', 'fb'):
        return [k, SP0] + [sx_expr(c) for c in e[1]]
    if k in ('opt', 'many'):
        return [k, SP0, sx_expr(e[1])]
    if k == 'dd':
        return ['dd', Q(e[2]), SP0, sx_expr(e[1])]
    if k == 'sub':
        return ['sub', '0', SP0, ['seq', SP0] + [sx_expr(c) for c in e[1]]]
    raise ValueError(k)


def sx_stmt(s):
    if s[0] == 'call':
        return ['call', Q(s[1]), SP0, sx_expr(s[2])]
    return ['def', Q(s[1]), SP0, '-' if s[2] is None else [Q(s[2]), SP0], sx_expr(s[3])]


def sx_grammar(g):
    return [sx_stmt(s) for s in g]


def is_span(x):
    return isinstance(x, str) and not isinstance(x, Q) and x.count(':') == 2 and x.replace(':', '').isdigit()


def erase(v):
    if isinstance(v, list):
        return [erase(x) for x in v]
    if is_span(v):
        return SP0
    return v


def spans_of(v, acc, path=()):
    if isinstance(v, list):
        for i, x in enumerate(v):
            spans_of(x, acc, path + (i,))
    elif is_span(v):
        acc.append((path, v))
    return acc


def count_ops(v):
    if isinstance(v, list):
        n = 1 if v and v[0] in ('seq', 'alt', 'fb', 'opt', 'many', 'dd', 'sub') else 0
        return n + sum(count_ops(x) for x in v)
    return 0


# ------------------------------------------------------------------ generators

LEAVES = [('lit', 'a', None), ('lit', 'b', 'd'), ('nt', 'N'), ('cmd', 'c')]


def small_trees(n, memo):
    """All trees with exactly n nodes: unary opt/many/dd, binary and ternary seq/alt/fb/sub."""
    if n in memo:
        return memo[n]
    out = []
    if n == 1:
        out = list(LEAVES)
    else:
        for c in small_trees(n - 1, memo):
            out.append(('opt', c))
            out.append(('many', c))
            out.append(('dd', c, 'D'))
        for a in range(1, n - 1):
            for l in small_trees(a, memo):
                for r in small_trees(n - 1 - a, memo):
                    for op in ('seq', 'alt', 'fb', 'sub'):
                        out.append((op, [l, r]))
        for a in range(1, n - 2):
            for b in range(1, n - 1 - a):
                c = n - 1 - a - b
                if c < 1:
                    continue
                for x in small_trees(a, memo):
                    for y in small_trees(b, memo):
                        for z in small_trees(c, memo):
                            for op in ('seq', 'alt', 'fb', 'sub'):
                                out.append((op, [x, y, z]))
    memo[n] = out
    return out


def same_op_nesting(e, acc):
    """operator nodes with a direct child of the same operator (written with parentheses: `a || (b || c)` keeps its nesting)"""
    k = e[0]
    if k in ('seq', 'alt', 'fb', 'sub'):
        for c in e[1]:
            if c[0] == k and k != 'sub':
                acc.add(k + '_in_' + k)
            same_op_nesting(c, acc)
    elif k in ('opt', 'many', 'dd'):
        same_op_nesting(e[1], acc)
    return acc


def has_sub(e):
    k = e[0]
    if k == 'sub':
        return True
    if k in ('seq', 'alt', 'fb'):
        return any(has_sub(c) for c in e[1])
    if k in ('opt', 'many', 'dd'):
        return has_sub(e[1])
    return False


def plausible(e):
    """Cheap pre-filter (the specification's wf is the judge): no sub-word inside a sub-word."""
    k = e[0]
    if k == 'sub':
        return not any(has_sub(c) for c in e[1])
    if k in ('seq', 'alt', 'fb'):
        return all(plausible(c) for c in e[1])
    if k in ('opt', 'many', 'dd'):
        return plausible(e[1])
    return True


def rand_lit(r, rich=True):
    if not rich or r.random() < 0.35:
        return r.choice(['a', 'b', 'foo', '--opt', '-x', 'add', 'rm', '--k=', 'x.y', 'v1.2', '..', '.'])
    n = r.choice([1, 1, 2, 3, 4, 6])
    out = []
    for _ in range(n):
        x = r.random()
        if x < 0.45:
            out.append(r.choice(REGULAR))
        elif x < 0.75:
            out.append(r.choice(ESCAPABLE))
        else:
            out.append('.' * r.choice([1, 2, 3, 4]))
    s = ''.join(out)
    if s.startswith('#') and r.random() < 0.9:
        s = 'h' + s
    return s


PRINTABLE = ''.join(chr(i) for i in range(32, 127))


def rand_descr(r):
    x = r.random()
    if x < 0.3:
        return r.choice(['d', 'some description', 'x "quoted" y', 'back\\slash', '', 'tab\there', 'two\nlines', 'café'])
    n = r.choice([1, 2, 5, 9])
    return ''.join(r.choice(PRINTABLE + '"\\"\\') for _ in range(n))


def rand_name(r):
    x = r.random()
    if x < 0.7:
        return r.choice(['A', 'B', 'FILE', 'PATH', '_', 'long-name', 'X1'])
    if x < 0.85:
        return r.choice(['with space', 'a@b', 'two\nlines', '<', 'café', '[x]', '#', ' lead', '...'])
    return ''.join(r.choice(PRINTABLE.replace('>', '')) for _ in range(r.choice([1, 2, 4])))


def rand_cmd(r):
    x = r.random()
    if x < 0.6:
        return r.choice(['ls', 'echo x', 'echo ${x}', 'printf "q\\n"', 'a}', 'a}}', '}', '', 'x | y', 'two\nlines',
                         'café   z', 'f() { g; }', '{{{', 'a } } }'])
    s = ''.join(r.choice(PRINTABLE + '}}{') for _ in range(r.choice([1, 3, 6])))
    return s


def rand_tree(r, depth, inword=False, rich=True):
    if depth <= 0 or r.random() < 0.25:
        x = r.random()
        if x < 0.55:
            d = rand_descr(r) if r.random() < (0.1 if inword else 0.25) else None
            return ('lit', rand_lit(r, rich), d)
        if x < 0.75:
            return ('nt', rand_name(r))
        if x < 0.9:
            return ('cmd', rand_cmd(r))
        return ('opt', ('lit', rand_lit(r, rich), None))
    x = r.random()
    n = r.choice([2, 2, 3, 4])
    if x < 0.22:
        return ('seq', [rand_tree(r, depth - 1, inword, rich) for _ in range(n)])
    if x < 0.4:
        return ('alt', [rand_tree(r, depth - 1, inword, rich) for _ in range(n)])
    if x < 0.5:
        return ('fb', [rand_tree(r, depth - 1, inword, rich) for _ in range(n)])
    if x < 0.62:
        return ('opt', rand_tree(r, depth - 1, inword, rich))
    if x < 0.74:
        return ('many', rand_tree(r, depth - 1, inword, rich))
    if x < 0.82:
        return ('dd', rand_tree(r, depth - 1, inword, rich), rand_descr(r))
    if not inword:
        fs = []
        for _ in range(r.choice([2, 2, 3])):
            f = rand_tree(r, min(depth - 1, 2), True, rich)
            if fs and fs[-1][0] == 'lit' and fs[-1][2] is None and (f[0] == 'lit' or (f[0] == 'many' and f[1][0] == 'lit')) \
                    and r.random() < 0.5:
                # half of the time avoid a literal after a bare literal (the printer parenthesises it otherwise)
                f = ('nt', rand_name(r)) if r.random() < 0.5 else ('opt', f)
            fs.append(f)
        return ('sub', fs)
    return rand_tree(r, depth - 1, inword, rich)


def rand_grammar(r, depth, rich=True):
    g = []
    for _ in range(r.choice([1, 1, 1, 2, 3])):
        if r.random() < 0.6 or not g:
            nm = r.choice(['cmd', 'cmd', 'foo.sh', 'my-tool', 'a.b..c']) if r.random() < 0.8 else rand_lit(r)
            g.append(('call', nm, rand_tree(r, depth, False, rich)))
        elif r.random() < 0.6:
            nm = rand_name(r).replace('@', 'a') or 'E'
            if r.random() < 0.1:
                nm = r.choice(['A@', '@b', '@', 'x y@'])     # heads that cannot be read as <name@shell>
            g.append(('def', nm, None, rand_tree(r, depth, False, rich)))
        else:
            g.append(('def', rand_name(r).replace('@', 'a') or 'E', r.choice(['bash', 'fish', 'zsh', 'pwsh', 'no such', 'a@b']),
                      rand_tree(r, min(depth, 1), False, rich) if r.random() < 0.3 else ('cmd', rand_cmd(r))))
    return g


TOK = ['a', 'ab', '--x=', 'foo.sh', 'a.b', 'x..', 'c\\.d', 'e\\"f', 'g\\\\', '\\(', '.', '..', '...', '....', '<A>', '<B@bash>',
       '<C@zz>', '<_>', '{{{ ls }}}', '{{{x}}}', '"d"', '"d\\"e\\\\f"', '"a\nb"', '"x\\\n  y"', '(', ')', '[', ']', '|', '||', ';',
       '=', '::=', ' ', '  ', '\n', '\t', '# c\n', '#', '\x0c', '\r\n', 'é', '\\q', '<', '>', '{{{', '}}}', '"', '\\',
       '{{{  x }}}', '\x0b', '\\\n', '@', '\\.', '\\.\\.\\.']


def mutate(r, s):
    if not s:
        return s
    i = r.randrange(len(s))
    k = r.random()
    if k < 0.35:
        j = min(len(s), i + r.choice([1, 1, 2, 3]))
        return s[:i] + s[j:]
    if k < 0.65:
        return s[:i] + r.choice(TOK) + s[i:]
    if k < 0.85:
        return s[:i] + s[i:i + 3] + s[i:]
    j = r.randrange(len(s))
    i, j = min(i, j), max(i, j)
    return s[:i] + s[j:j + 1] + s[i + 1:j] + s[i:i + 1] + s[j + 1:]


def soup(r):
    return ''.join(r.choice(TOK) for _ in range(r.randint(1, 14)))


# ------------------------------------------------------------------ the check

def to_bytes(s):
    return s.encode('utf-8')


def as_latin(b):
    return b.decode('latin-1')


def tree_utf8(v):
    """Generator trees hold Python str; the model and cg-dump work on UTF-8 bytes."""
    if isinstance(v, list):
        return [tree_utf8(x) for x in v]
    if isinstance(v, Q):
        return Q(as_latin(to_bytes(str(v))))
    return v


def replay_one(ctx, res, exe):
    """bin/check C05 --replay FILE: re-judge the single text of a replay file."""
    import json
    d = json.load(open(ctx['replay']))
    text = d['text'].encode('latin-1')
    st = impl.dump(exe, [text], ['parse'], ['bash'])[0]['bash']
    m = model.run(['parse %s' % sexp.quote(as_latin(text))])[0]
    rust = st.get('PARSE', str(st))
    res.evaluations = 1
    res.rule = 'replay of one text'
    print('text :', repr(text))
    print('rust :', rust[:2000])
    print('model:', m[:2000])
    replay = dict(kind='replay', text=d['text'], impl=rust[:3000], model=m[:3000])
    if rust == m:
        res.traces_validated = 1
    else:
        res.violations.append(report.Violation('tie T1 broken at stage parse: model and implementation disagree', replay,
                                               found_input=False))
    try:
        want = sexp.parse(d['expected_spans']) if 'expected_spans' in d else None
    except (ValueError, IndexError):
        want = None
    if want is not None and rust.startswith('(ok '):
        got = sexp.parse(rust)[1]
        if erase(got) != erase(want):
            res.violations.append(report.Violation('C05: printed grammar parses to a different tree', replay))
        elif got != want:
            pin = model.run(['parse_repaired %s' % sexp.quote(as_latin(text))])[0]
            cls = 'span_reset_after_escape' if pin.startswith('(ok ') and sexp.parse(pin)[1] == want else None
            res.violations.append(report.Violation('C13 (parser half): a span is not where the construct starts', replay, cls=cls))
    elif want is not None:
        res.violations.append(report.Violation('C05: printed grammar rejected by the parser', replay))


def run(ctx, res):
    with build.Lock():
        exe = build.harness()
        # the theorems about arbitrary input (totality, shape of the image) live in Props/C05b.v
        extra = coqcheck.check_property('C05b')
    if not extra['ok']:
        res.violations.append(report.Violation('proof obligations of C05b (parser totality / image) no longer check',
                                               dict(kind='proof-obligation', errors=extra['errors'][:5]), found_input=False))
    res.extra['theorems_C05b'] = extra['theorems']
    r = ctx['rng']
    thorough = ctx['tier'] == 'thorough'
    if ctx.get('replay'):
        return replay_one(ctx, res, exe)

    # ---- 1. trees to print: (family, grammar, [(seed, density)...])
    jobs = []
    memo = {}
    nmax3 = 5 if thorough else 4
    for n in range(1, nmax3 + 1):
        for t in small_trees(n, memo):
            if plausible(t):
                jobs.append(('small%d' % n, [('call', 'cmd', t)], [(0, 0), (r.randrange(1 << 30), 1), (r.randrange(1 << 30), 2)]))
    big = [t for t in small_trees(nmax3 + 1, memo) if plausible(t)]
    if not thorough:
        big = r.sample(big, min(len(big), 3500))
    for t in big:
        jobs.append(('small%d' % (nmax3 + 1), [('call', 'cmd', t)], [(r.randrange(1 << 30), r.choice([0, 1, 2]))]))
    if thorough:
        more = [t for t in small_trees(nmax3 + 2, memo) if plausible(t)]
        for t in r.sample(more, min(len(more), 150000)):
            jobs.append(('small%d' % (nmax3 + 2), [('call', 'cmd', t)], [(r.randrange(1 << 30), r.choice([0, 1, 2]))]))
    nrand = 60000 if thorough else 3000
    for _ in range(nrand):
        g = rand_grammar(r, r.choice([1, 2, 3, 4, 5]), rich=r.random() < 0.7)
        lays = [(r.randrange(1 << 30), r.choice([0, 1, 2, 2]))]
        if r.random() < 0.3:
            lays.append((r.randrange(1 << 30), r.choice([1, 2])))
        jobs.append(('random', g, lays))
    # literals over the full alphabet, every escape, dots; descriptions over printable ASCII
    for ch in REGULAR + ESCAPABLE:
        for t in (ch, 'x' + ch, ch + 'x', ch + ch + ch):
            jobs.append(('alphabet', [('call', 'cmd', ('seq', [('lit', t, None), ('many', ('lit', t, None))]))],
                         [(0, 0), (r.randrange(1 << 30), 1)]))
    for i in range(32, 127):
        jobs.append(('descr', [('call', 'cmd', ('alt', [('lit', 'a', 'p' + chr(i) + 'q' + chr(i)), ('dd', ('nt', 'N'), chr(i))]))],
                     [(0, 0)]))
    for _ in range(8000 if thorough else 1200):
        t = ('lit', rand_lit(r), rand_descr(r) if r.random() < 0.4 else None)
        shape = r.choice(['seq', 'many', 'sub', 'alt', 'name'])
        if shape == 'seq':
            e = ('seq', [t, ('lit', rand_lit(r), None), ('nt', 'N')])
        elif shape == 'many':
            e = ('many', t)
        elif shape == 'sub':
            e = ('sub', [t if t[2] is not None else ('nt', 'P'), ('nt', 'N'), ('lit', rand_lit(r), None)])
        elif shape == 'alt':
            e = ('alt', [t, ('opt', t)])
        else:
            jobs.append(('literal', [('call', rand_lit(r), t)], [(r.randrange(1 << 30), r.choice([0, 1, 2]))]))
            continue
        jobs.append(('literal', [('call', 'cmd', e)], [(r.randrange(1 << 30), r.choice([0, 1, 2]))]))

    reqs = []
    rindex = []
    for j, (fam, g, lays) in enumerate(jobs):
        gs = sexp.dump(tree_utf8(sx_grammar(g)))
        for (seed, dens) in lays:
            reqs.append('print %d %d %s' % (seed, dens, gs))
            rindex.append(j)
    prints = model.run(reqs)

    # ---- 2. texts: printed grammars, then the malformed stream
    cases = []        # dict(kind, text(bytes), job, true, pinned)
    notwf = 0
    for j, out, rq in zip(rindex, prints, reqs):
        if out == '(notwf)':
            notwf += 1
            continue
        if not out.startswith('(ok '):
            res.violations.append(report.Violation('printer failed: ' + out[:200], dict(kind='harness-error', request=rq[:2000]),
                                                   found_input=False))
            continue
        v = sexp.parse(out)
        text = str(v[1]).encode('latin-1')
        if b'\0' in text:
            continue
        cases.append(dict(kind='printed', fam=jobs[j][0], text=text, job=j, true=v[2], pinned=v[3]))
    printed_texts = [c['text'] for c in cases]
    nraw = 120000 if thorough else 6000
    for _ in range(nraw):
        k = r.random()
        if k < 0.45 and printed_texts:
            t = r.choice(printed_texts).decode('utf-8', 'replace')
            for _ in range(r.choice([1, 1, 2, 3])):
                t = mutate(r, t)
        elif k < 0.7:
            t = soup(r)
        elif printed_texts:
            t = ' '.join(soup(r) if r.random() < 0.2 else x
                         for x in r.choice(printed_texts).decode('utf-8', 'replace').split(' '))
        else:
            t = soup(r) + ';' + soup(r)
        if '\0' in t:
            continue
        cases.append(dict(kind='raw', fam='malformed', text=to_bytes(t)))

    texts = [c['text'] for c in cases]
    dumps = impl.dump(exe, texts, ['parse'], ['bash'])
    mouts = model.run(['parse %s' % sexp.quote(as_latin(t)) for t in texts])

    # how close is Printer.wf to the parser's image?  (every tree Rust returns for raw text)
    img_idx = [k for k, (c0, d0) in enumerate(zip(cases, dumps))
               if c0['kind'] == 'raw' and d0['bash'].get('PARSE', '').startswith('(ok ')]
    img_out = model.run(['wf %s' % d0['bash']['PARSE'][4:-1] for d0 in (dumps[k] for k in img_idx)])
    img_bad = []
    for k, o in zip(img_idx, img_out):
        if o != '(wf 1)':
            img_bad.append((as_latin(cases[k]['text']), dumps[k]['bash']['PARSE']))

    res.rule = ('printed: every tree with <= %d nodes (unary opt/many/dd, binary+ternary seq/alt/fb/sub over 4 leaf kinds) x 3 layouts, '
                'a sample of the next size, random deep grammars (all statement kinds), every regular/escapable character in 4 literal '
                'positions, descriptions over printable ASCII, random literals x contexts; malformed: mutations of printed texts '
                '(deletion, insertion, duplication, swap), token soup; non-trivial = distinct texts whose tree has an operator node, an '
                'escape or a description, or (malformed) that Rust rejects' % nmax3)
    seen_nontrivial = set()
    by_job = {}
    nested = {}
    nspan_known = 0
    nerr = 0
    for c, d, m in zip(cases, dumps, mouts):
        st = d['bash']
        res.evaluations += 1
        text = c['text']
        replay = dict(kind=c['kind'], family=c['fam'], text=as_latin(text), impl=st.get('PARSE', '')[:3000], model=m[:3000])
        if 'CRASH' in st or 'PANIC' in st or 'PARSE' not in st:
            res.violations.append(report.Violation('implementation crashed while parsing', dict(replay, crash=str(st)[:500])))
            continue
        rust = st['PARSE']
        t1_ok = rust == m
        if t1_ok:
            res.traces_validated += 1
        if rust.startswith('(err'):
            nerr += 1
        if c['kind'] == 'raw':
            if rust.startswith('(err') or b'\\' in text:
                seen_nontrivial.add(text)
            if not t1_ok:
                res.violations.append(report.Violation(
                    'tie T1 broken at stage parse (malformed stream): model and implementation disagree',
                    dict(replay, stage='parse'), found_input=False))
            continue
        # ---- printed: direct judgement
        fam, g, lays = jobs[c['job']]
        replay['tree'] = sexp.dump(tree_utf8(sx_grammar(g)))[:3000]
        replay['expected_spans'] = sexp.dump(c['true'])[:3000]
        if not rust.startswith('(ok '):
            res.violations.append(report.Violation('C05: printed grammar rejected by the parser', dict(replay, why='rejected')))
            continue
        rv = sexp.parse(rust)[1]
        want = erase(c['true'])
        if erase(rv) != want:
            res.violations.append(report.Violation('C05: printed grammar parses to a different tree',
                                                   dict(replay, why='tree', expected=sexp.dump(want)[:3000])))
            continue
        by_job.setdefault(c['job'], []).append(sexp.dump(erase(rv)))
        for st_ in g:
            for kind_ in same_op_nesting(st_[-1], set()):
                nested[kind_] = nested.get(kind_, 0) + 1
        if count_ops(rv) > 0 or b'\\' in text or b'"' in text:
            seen_nontrivial.add(text)
        if rv != c['true']:
            a = dict(spans_of(rv, []))
            b = dict(spans_of(c['true'], []))
            diff = [dict(path=list(p), reported=a[p], actual=b.get(p)) for p in sorted(a) if a[p] != b.get(p)][:3]
            if rv == c['pinned']:
                nspan_known += 1
                res.violations.append(report.Violation(
                    'C13 (parser half): span after a backslash escape is not where the construct starts',
                    dict(replay, why='span', first_differences=diff), cls='span_reset_after_escape'))
            else:
                res.violations.append(report.Violation('C13 (parser half): a span is not where the printer put the construct',
                                                       dict(replay, why='span', first_differences=diff)))
                continue
        if not t1_ok:
            res.violations.append(report.Violation('tie T1 broken at stage parse: model and implementation disagree',
                                                   dict(replay, stage='parse'), found_input=False))
        if len(res.samples) < 6 and fam in ('random', 'literal') and len(text) < 200 and count_ops(rv) >= 2:
            res.samples.append(dict(text=as_latin(text), impl_parse=rust[:400]))
    # C14 parser half: all layouts of one tree give one tree (implied by the above; counted separately)
    multi = sum(1 for v in by_job.values() if len(v) > 1)
    for j, v in by_job.items():
        if len(set(v)) > 1:
            res.violations.append(report.Violation('C14 (parser half): two layouts of one tree parse differently',
                                                   dict(kind='layout', tree=sexp.dump(tree_utf8(sx_grammar(jobs[j][1])))[:3000])))
    res.nontrivial = len(seen_nontrivial)
    res.exhaustive = False
    res.extra['stage'] = 'parse (Grammar::parse)'
    res.extra['printed_texts'] = len(printed_texts)
    res.extra['malformed_texts'] = len(cases) - len(printed_texts)
    res.extra['rejected_by_rust'] = nerr
    res.extra['generated_trees_not_printable'] = notwf
    res.extra['trees_with_several_layouts'] = multi
    # printed texts that parsed back to their tree and whose tree nests an operator directly inside the same operator
    res.extra['round_trips_with_same_operator_nesting'] = nested
    for kind_ in ('fb_in_fb', 'alt_in_alt', 'seq_in_seq'):
        if nested.get(kind_, 0) < 20:
            res.violations.append(report.Violation('coverage floor: only %d round trips with %s' % (nested.get(kind_, 0), kind_),
                                                   dict(kind='coverage-floor', counts=nested), found_input=False))
    res.extra['span_reset_instances'] = nspan_known
    # trees in the parser's image that the printer does not cover (a limit of the specification,
    # not of the implementation): literals starting with '#' inside a word are the known corner
    hash_corner = [t for t, pr in img_bad if '(lit "#' in pr]
    other = [dict(text=t, parse=pr[:400]) for t, pr in img_bad if '(lit "#' not in pr]
    res.extra['image_trees_checked'] = len(img_idx)
    res.extra['image_not_printable_hash_literal'] = len(hash_corner)
    res.extra['image_not_printable_other'] = other[:5]
    if other:
        res.notes.append('%d accepted text(s) parse to a tree outside Printer.wf (specification coverage, not a defect)' % len(other))
