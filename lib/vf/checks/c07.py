"""C07 -- text taken from the grammar reaches the shell verbatim and inert.

Theorem side: Props/C07.v (ShellDQ.read (make_string_constant s ++ rest) = Some (s, rest) for every string
outside a shell's hazard class; closed 256x257 table check per shell over the regenerated replace chains).
Tie: Model.Quote.make_string_constant (extracted) == the constants in Rust's emitted scripts, byte for byte.
Direct judgement: the constants cut out of Rust's scripts are decoded with the extracted ShellDQ.read and
must give back the grammar's literals / descriptions; bash additionally `bash -n` and real execution."""
import itertools
import time

from .. import build, emitlib, gen, impl, model, report, sexp
from ..emitlib import SHELLS, lit_order, u2s
from ..sexp import Q

MANIFEST = dict(
    text=('Theorems C07_quote_roundtrip / C07_bash_total / C07_fish_total / C07_zsh_total (Props/C07.v): for '
          'every shell, every string outside the shell\'s hazard class (empty for bash, fish and zsh; pwsh: strings with a smart '
          'double quote U+201C/D/E, C07_pwsh_exact) and every continuation of the script, the independent '
          'transcription of the shell\'s documented double-quote rule (Spec/ShellDQ.v) reads make_string_constant(s) back as '
          'exactly s and stops right after it -- nothing expanded, cut or swallowed. Proof: single-character replace chains act '
          'characterwise + generic induction over adjacent byte pairs + one closed vm_compute sweep of 256x257 pairs per shell '
          'over the replace chains regenerated from src/{bash,fish,zsh,pwsh}.rs on every run. C07_refuted_pwsh_smart_quote is '
          'the machine-checked witness of the known pwsh defect; ex_C07_bash_backslash_regression keeps the witnesses of the '
          'fixed bash defect. On whole scripts (Props/C07b.v, corollaries of C04_embed_zsh/fish): in the WHOLE emitted zsh and '
          'fish script the literal list of the completion function and every description constant read back to the texts of the '
          'tables, for ALL texts. Per run: all strings of '
          'length <= 2 over the 94-character literal alphabet (top level and inside a word) and the 97-character description '
          'alphabet, plus random longer and non-ASCII ones, x 4 emitters: constants cut out of the real scripts are decoded by '
          'the extracted reader and compared with the grammar; the model constant must equal the emitted constant byte for '
          'byte; every bash script must pass bash -n; ~2k real bash completions check that candidates are the literals '
          'character for character and that only the identical word matches (top level and inside a word).'),
    design='6 C07',
    technique='Coq theorem (generic lemma + closed 256x257 table sweep per shell) + T3 regenerated constants + '
              'extracted-model/implementation correspondence + direct judgement by extracted spec reader + real bash execution')

LIT_ALPHA = [chr(c) for c in range(0x21, 0x7f)]
DESC_ALPHA = [chr(c) for c in range(0x20, 0x7f)] + ['\t', '\n']
GLOB = set('*?[\\')
PER_GRAMMAR = 48


def bash_hazard(s):
    """the class of the FIXED finding C07-bash-backslash-unescaped (90236c3): a backslash before a double quote,
    backtick, dollar, backslash, newline or the end.  Used only to ROUTE these former witnesses into grammars of
    their own, so that they stay in the corpus; nothing is suppressed for them any more"""
    for i, c in enumerate(s):
        if c == '\\' and (i + 1 == len(s) or s[i + 1] in '"`$\\\n'):
            return True
    return False


def pwsh_hazard(s):
    """a smart double quote U+201C/U+201D/U+201E (UTF-8 E2 80 9C/9D/9E): the exact class of the known pwsh finding
    (routing only; the classification uses the extracted ShellDQ.outside_known_class)"""
    return any(q in s for q in ('\xe2\x80\x9c', '\xe2\x80\x9d', '\xe2\x80\x9e'))


def random_string(r, alpha, lo, hi, special=0.5):
    n = r.randint(lo, hi)
    sp = [c for c in alpha if not c.isalnum()]
    return ''.join(r.choice(sp) if r.random() < special else r.choice(alpha) for _ in range(n))


def chunks(xs, n):
    return [xs[i:i + n] for i in range(0, len(xs), n)]


def spell_ok(l):
    return l != '' and not l.startswith('#')


def make_cases(ctx):
    """-> list of dict(family, lits=[(text, descr|None)], tail) ; every text distinct within a case"""
    r = ctx['rng']
    thorough = ctx['tier'] == 'thorough'
    lits = [a for a in LIT_ALPHA] + [a + b for a in LIT_ALPHA for b in LIT_ALPHA]
    lits = [l for l in lits if spell_ok(l)]
    descs = [a for a in DESC_ALPHA] + [a + b for a in DESC_ALPHA for b in DESC_ALPHA]
    nrand = 4000 if thorough else 300
    rl = set()
    while len(rl) < nrand:
        s = random_string(r, LIT_ALPHA, 3, 12)
        if spell_ok(s):
            rl.add(s)
    if thorough:
        # all triples over the characters that matter for quoting
        sp = list('\\"$`!*?~#&[]{}\'a ')
        rl |= {a + b + c for a in sp for b in sp for c in sp if ' ' not in a + b + c and spell_ok(a + b + c)}
    lits += sorted(rl)
    rd = set()
    while len(rd) < nrand:
        rd.add(random_string(r, DESC_ALPHA, 3, 20))
    nonascii = ['caf\u00e9', '\u00fcber \u2192 x', 'em\u2014dash', '\u201cquoted\u201d', 'a\u201db', '\u65e5\u672c\u8a9e $HOME',
                '\u00e2\u20ac', 'x\u0080y']
    descs += sorted(rd) + [u2s(x) for x in nonascii]
    if thorough:
        sp = list('\\"$`!*?~#&[]{}\' \t\n')
        descs += [a + b + c for a in sp for b in sp for c in sp]
        descs = sorted(set(descs))
    r.shuffle(lits)
    r.shuffle(descs)
    hazard_l = [l for l in lits if bash_hazard(l)]
    plain_l = [l for l in lits if not bash_hazard(l)]
    hazard_d = [d for d in descs if pwsh_hazard(d)]
    plain_d = [d for d in descs if not pwsh_hazard(d)]
    cases = []
    # --- top level: literal + description pairs
    n = max(len(plain_l), len(plain_d))
    pairs = [(plain_l[i % len(plain_l)], plain_d[i % len(plain_d)]) for i in range(n)]
    for ch in chunks(pairs, PER_GRAMMAR):
        seen = set()
        ch = [p for p in ch if not (p[0] in seen or seen.add(p[0]))]
        cases.append(dict(family='top', lits=ch))
    # --- inside a word: (l1 "d1" | l2 "d2" | ...)<X>
    pairs = [(l, plain_d[(7 * i + 3) % len(plain_d)] if i % 2 == 0 else None) for i, l in enumerate(plain_l)]
    for ch in chunks(pairs, PER_GRAMMAR):
        cases.append(dict(family='word', lits=ch))
    # --- known hazard strings, one per grammar so that they spoil nothing else
    for i, l in enumerate(hazard_l):
        cases.append(dict(family='top' if i % 2 == 0 else 'word', lits=[(l, None)], hazard=True))
    for d in hazard_d:
        cases.append(dict(family='top', lits=[('k', d)], hazard=True))
    return cases


def case_grammar(c):
    alts = [('lit', l, d) for l, d in c['lits']]
    body = ('alt', alts) if len(alts) > 1 else alts[0]
    if c['family'] == 'top':
        e = body if not c.get('tail') else ('seq', [body, ('lit', c['tail'], None)])
    else:
        sub = ('sub', [body, ('nt', 'X')])
        e = sub if not c.get('tail') else ('seq', [sub, ('lit', c['tail'], None)])
    return gen.show_grammar([('call', 'cmd', e)]).encode('latin-1')


def expected_statements(c, shell):
    """[(kind, [strings])] in script order, from the grammar alone"""
    texts = lit_order([l for l, _ in c['lits']])
    dmap = dict(c['lits'])
    if shell == 'bash':
        ds = []
    elif shell == 'pwsh':
        ds = [dmap[t] for t in texts if dmap[t]]
    else:
        ds = []
        for t in texts:
            if dmap[t] and dmap[t] not in ds:
                ds.append(dmap[t])
    block = [('lits', texts)] + [('descr', [d]) for d in ds]
    tail = [c['tail']] if c.get('tail') else []
    if c['family'] == 'top':
        return [('lits', lit_order(texts + tail))] + block[1:]
    return block + [('lits', tail)]


def classify(c, shell, adm):
    """known-finding class of a failure on this case, from the extracted hazard predicate"""
    strings = [l for l, _ in c['lits']] + [d for _, d in c['lits'] if d]
    if shell == 'bash' and any(adm.get(('bash', l)) == '0' for l, _ in c['lits']):
        return 'bash_backslash_unescaped'
    if shell == 'pwsh' and any(adm.get(('pwsh', s)) == '0' for s in strings):
        return 'pwsh_smart_quote'
    return None


def near_misses(l, L):
    if set(l) & GLOB:
        out = ['x' + l, l[:-1] + 'x', l.replace('\\', ''), 'x' * len(l), 'x' + l[1:], 'a']
    elif l.swapcase() != l:
        out = [l.swapcase()]
    else:
        out = ['x' + l, l[:-1] + 'x'][:1 if len(l) == 1 else 2]
    seen = set()
    return [w for w in out if w and w not in L and '\0' not in w and not (w in seen or seen.add(w))]


def exec_cases(ctx):
    """bash execution: prefix-free literal sets, glob/backslash literals isolated"""
    r = ctx['rng']
    n2 = 600 if ctx['tier'] == 'thorough' else 24
    pool = [a for a in LIT_ALPHA if spell_ok(a)]
    two = [a + b for a in LIT_ALPHA for b in LIT_ALPHA if spell_ok(a + b)]
    pool += r.sample(two, n2) + ['a*', '*', '?', '??', 'a?', '[a]', '[', ']', '[!a]', 'x\\y', '\\a', '$x', '`x`', '$(x)', '!', '~', '"', "'", '&&',
                                 '{a,b}', '#', 'a#', '\\\\', 'a\\', '\\$', '\\"', '-n', '-e']
    pool = [l for l in dict.fromkeys(pool) if spell_ok(l)]
    special = [l for l in pool if set(l) & GLOB]
    plain = [l for l in pool if not (set(l) & GLOB)]
    r.shuffle(plain)
    out = []

    def prefix_free_groups(ls, size):
        groups = []
        for l in ls:
            for g in groups:
                if len(g) < size and not any(x.startswith(l) or l.startswith(x) for x in g):
                    g.append(l)
                    break
            else:
                groups.append([l])
        return groups

    for fam in ('top', 'word'):
        for g in prefix_free_groups(plain, 10):
            out.append(dict(family=fam, lits=[(l, None) for l in g], tail='zz', exec=True))
        for l in special:
            out.append(dict(family=fam, lits=[(l, None)], tail='zz', exec=True, hazard=bash_hazard(l)))
    return out


def run(ctx, res):
    with build.Lock():
        exe = build.harness()
    t_phase = time.time()
    timing = {}
    cases = make_cases(ctx) + exec_cases(ctx)
    texts = [case_grammar(c) for c in cases]
    dumps = impl.dump(exe, texts, ['min', 'amb', 'script'], SHELLS)
    timing['harness_s'] = round(time.time() - t_phase, 1); t_phase = time.time()

    # ---- model requests: constants (tie), hazard classification, decoding of Rust's statements
    reqs = []
    keys = []
    strings = set()
    for c in cases:
        for l, d in c['lits']:
            strings.add(l)
            if d:
                strings.add(d)
        if c.get('tail'):
            strings.add(c['tail'])
    for sh in SHELLS:
        for s in sorted(strings):
            reqs.append('msc %s %s' % (sh, sexp.quote(s)))
            keys.append(('msc', sh, s))
            reqs.append('dqadm %s %s' % (sh, sexp.quote(s)))
            keys.append(('adm', sh, s))
    scripts = {}
    stmts = {}
    for i, c in enumerate(cases):
        for sh in SHELLS:
            st = dumps[i][sh]
            text = emitlib.script_of(st.get('SCRIPT'))
            scripts[(i, sh)] = text
            if text is None:
                continue
            found = emitlib.find_const_statements(sh, text)
            stmts[(i, sh)] = found
            # the reader gets a window of the script that is ample for the expected constants; a constant
            # that runs past it (unclosed quote) is then reported as a mismatch, never accepted
            window = 400 + sum(4 * len(l) + 8 for l, _ in c['lits'])
            for k, (kind, sep, term, a, b) in enumerate(found):
                if sep is None:
                    reqs.append('dqread %s %s' % (sh, sexp.quote(text[b:b + 400])))
                else:
                    reqs.append('dqlist %s %s %s' % (sh, sexp.quote(sep), sexp.quote(text[b:b + window])))
                keys.append(('read', i, sh, k))
    timing['prepare_s'] = round(time.time() - t_phase, 1); t_phase = time.time()
    outs = model.run(reqs)
    timing['model_s'] = round(time.time() - t_phase, 1); t_phase = time.time()
    msc = {}
    adm = {}
    reads = {}
    for key, o in zip(keys, outs):
        if key[0] == 'msc':
            msc[(key[1], key[2])] = str(sexp.parse(o)) if o.startswith('"') else None
        elif key[0] == 'adm':
            adm[(key[1], key[2])] = o.strip()
        else:
            reads[key[1:]] = o

    res.rule = ('every string of length <= 2 over the 94-character literal alphabet (all printable non-blank ASCII; each character '
                'regular or backslash-escaped in the grammar) as a literal at top level and inside a word, every string of length <= 2 '
                'over the 97-character description alphabet (printable ASCII, space, tab, newline) as a description, random longer '
                'strings and non-ASCII descriptions, x 4 emitters; non-trivial = distinct (string, role, shell) judged whose string '
                'contains a non-alphanumeric character; thorough adds all triples over the quoting-relevant characters')
    res.exhaustive = True
    nontrivial = set()
    bash_jobs = []

    for i, c in enumerate(cases):
        for sh in SHELLS:
            st = dumps[i][sh]
            replay = dict(grammar=texts[i].decode('latin-1'), shell=sh, family=c['family'])
            cls = classify(c, sh, adm)
            if 'CRASH' in st or 'PANIC' in st:
                res.violations.append(report.Violation('implementation crashed', dict(replay, kind='crash', impl=str(st)[:600])))
                continue
            text = scripts[(i, sh)]
            if text is None:
                res.violations.append(report.Violation(
                    'admissible grammar rejected or no script', dict(replay, kind='generator', impl={k: v[:300] for k, v in st.items()})))
                continue
            exp = expected_statements(c, sh)
            found = stmts[(i, sh)]
            ok = True
            why = ''
            tie_ok = True
            if len(found) != len(exp) or [f[0] for f in found] != [e[0] for e in exp]:
                ok = False
                why = 'script has statements %s, the grammar calls for %s' % ([f[0] for f in found], [e[0] for e in exp])
            else:
                for k, ((kind, sep, term, a, b), (_, want)) in enumerate(zip(found, exp)):
                    o = reads[(i, sh, k)]
                    v = sexp.parse(o)
                    if sep is None:
                        got = [str(v[1])] if v[0] == 'ok' else None
                        rest = str(v[2]) if v[0] == 'ok' else ''
                    else:
                        got = [str(x) for x in v[0]]
                        rest = str(v[1])
                    res.evaluations += len(want)
                    for w in want:
                        if not w.isalnum():
                            nontrivial.add((w, kind, sh))
                    if got != want or not rest.startswith(term):
                        ok = False
                        why = ('%s statement at offset %d: the shell reads %r (then %r), the grammar says %r'
                               % (kind, a, got, rest[:20], want))
                        break
                    # tie: the model's constants are the emitted bytes
                    mine = (sep or '').join(msc[(sh, w)] or '?' for w in want) + term
                    if not text[b:].startswith(mine):
                        tie_ok = False
            if ok and sh == 'bash':
                bash_jobs.append((i, c, text, cls, replay))
            if not ok:
                res.violations.append(report.Violation('C07: ' + why, dict(replay, kind='spec-judgement', why=why,
                                                                          script=text[:3000]), cls=cls))
            elif not tie_ok:
                res.violations.append(report.Violation(
                    'tie broken: Model.Quote.make_string_constant differs from the constant in the emitted script',
                    dict(replay, kind='tie-T1', stage='script constants'), found_input=False))
            else:
                res.traces_validated += 1
            if ok and len(res.samples) < 6 and c['family'] == ('top', 'word')[len(res.samples) % 2] and sh == SHELLS[len(res.samples) % 4]:
                k0 = 0
                res.samples.append(dict(grammar=texts[i].decode('latin-1')[:200], shell=sh,
                                        statement=text[found[k0][3]:found[k0][4] + 120],
                                        decoded=reads[(i, sh, k0)][:200]))
            if (not ok) and sh == 'bash':
                # still look at bash -n for the replay (hazard cases)
                bash_jobs.append((i, c, text, cls, replay))

    timing['judge_s'] = round(time.time() - t_phase, 1); t_phase = time.time()
    # ---- bash: syntax of every script, execution of the exec family
    def bash_work(job):
        i, c, text, cls, replay = job
        okn, err = emitlib.bash_syntax_ok(text)
        result = dict(syntax=okn, err=err, queries=None, answers=None)
        if okn and c.get('exec'):
            L = [l for l, _ in c['lits']]
            qs = [['cmd', '']]
            kinds = [('complete', None)]
            for l in L:
                w = l if c['family'] == 'top' else l + 'q'
                qs.append(['cmd', w, ''])
                kinds.append(('match', l))
                for m in near_misses(l, set(L)):
                    w = m if c['family'] == 'top' else m + 'q'
                    qs.append(['cmd', w, ''])
                    kinds.append(('miss', m))
            result['queries'] = qs
            result['kinds'] = kinds
            result['answers'] = emitlib.bash_queries(text, 'cmd', qs)
        return result

    results = emitlib.pmap(bash_work, bash_jobs, workers=16)
    timing['bash_s'] = round(time.time() - t_phase, 1)
    res.extra['timing'] = timing
    nexec = 0
    for (i, c, text, cls, replay), r in zip(bash_jobs, results):
        res.evaluations += 1
        if not r['syntax']:
            res.violations.append(report.Violation('C07: emitted bash script fails bash -n: ' + r['err'][:200],
                                                   dict(replay, kind='bash-n', stderr=r['err'], script=text[:3000]), cls=cls))
            continue
        if not c.get('exec'):
            continue
        L = [l for l, _ in c['lits']]
        glob_cls = cls or ('bash_glob_unquoted_literal' if c['family'] == 'word' and any(set(l) & GLOB for l in L) else None)
        if r['answers'] is None:
            res.violations.append(report.Violation('C07: sourcing/executing the emitted bash script failed',
                                                   dict(replay, kind='bash-exec', script=text[:3000]), cls=cls))
            continue
        for q, (kind, l), (rc, reply) in zip(r['queries'], r['kinds'], r['answers']):
            nexec += 1
            res.evaluations += 1
            if kind == 'complete':
                want = sorted((x + ' ') if c['family'] == 'top' else x for x in L)
                good = rc == 0 and sorted(reply) == want
                why = 'candidates offered %r, the literals are %r' % (sorted(reply), want)
            elif kind == 'match':
                good = rc == 0 and reply == ['zz ']
                why = 'the word %r is not matched by the literal %r (rc=%d, COMPREPLY=%r)' % (q[1], l, rc, reply)
            else:
                if c['family'] == 'top':
                    should = False
                else:
                    should = any(q[1].startswith(x) for x in L)
                good = (rc == 0 and reply == ['zz ']) == should
                why = ('the word %r %s matched although the literals are %r (rc=%d, COMPREPLY=%r)'
                       % (q[1], 'is' if not should else 'is not', L, rc, reply))
            for x in L:
                if not x.isalnum():
                    nontrivial.add((x, 'exec-' + c['family'], 'bash'))
            if not good:
                res.violations.append(report.Violation('C07 (bash execution): ' + why,
                                                       dict(replay, kind='bash-exec', words=q, rc=rc, compreply=reply,
                                                            why=why, script=text[:3000]), cls=glob_cls))
                break
    res.nontrivial = len(nontrivial)
    res.extra['bash_executions'] = nexec
    res.extra['bash_syntax_checks'] = len(bash_jobs)
    res.extra['grammars'] = len(cases)
    res.extra['stage'] = 'string constants of the four emitted scripts (make_string_constant) + bash -n + bash execution'
