"""C06 -- the compiler never crashes or hangs: script + exit 0, or diagnostic + exit 1.

Theorems: Props/C06.v (totality of the Gallina model of the checker: never Panic, never OutOfFuel).
Tie/judgement on the real binary (debug and release builds, CPU-time and address-space limits):
  exit 0: destination holds a complete script (ends with the shell's registration trailer), or
  exit 1: stderr non-empty, nothing on stdout, an existing destination file untouched;
  never any other status, never a timeout.
Inputs: structure-aware mutations of valid grammars, planted mistakes, multi-line constructs, escapes,
non-ASCII and invalid UTF-8, token soups; x 4 shells x {file, stdout}."""
from .. import build, canon, coqcheck, gen, impl, model, planted, report, sexp
from . import maintie

SHELLS = planted.SHELLS

MANIFEST = dict(
    text=('Props/C06b.v: C06_pipeline_total -- the whole compilation pipeline as one Gallina function (Model/Driver.v compile: text -> '
          'parse -> check -> regex -> within-word automata -> subset construction -> minimise -> ambiguity check) returns a result or '
          'an error value for EVERY input text, shell and work-list order: no panic site of the modelled code is reachable and no '
          'fuel-bounded loop runs out (composition of parse_total, C06_checker_total -- whose core is that success of the cycle search '
          'bounds the recursive expansion passes --, C02_compile_valid_total, C03_total); C06_pipeline_error_kinds lists what a '
          'rejection can be. The pipeline model is tied to the library end to end on every run (same verdict and error variant, or '
          'the same minimised automaton up to state numbering) and stage by stage by the other checks. What no model here can '
          'exhibit -- stack exhaustion on ~10^5 nested brackets, exponential expansion of doubly-referenced definitions, the '
          'internals of annotate-snippets, file I/O -- is observed on the real binary only (PARTIAL): debug and release builds under '
          'CPU and memory limits on structure-aware mutations of valid grammars, planted mistakes of every class, every small '
          'expression tree over one leaf of each kind, multi-line spans, escapes, non-ASCII, invalid UTF-8 and token soups, x 4 '
          'shells x {file, stdout}: exit 0 with a complete script, or exit 1 with a diagnostic, nothing on stdout and the '
          'destination untouched. Props/C06c.v: the COMMAND itself (main.rs aot + handle_error) as one Gallina function from the '
          'command line, the input and the oracles to the trace of effects (Model/Main.v run: stdout, stderr messages, file '
          'writes, exit), proved for every command line and input: the trace ends with its only Exit, code 0 or 1, never Panic / '
          'OutOfFuel (C06_main_total); code 1 -> a diagnostic is the last effect before Exit, no script write, only the --regex / '
          '--dfa files may be written, hence nothing at the script destination unless one of them names it '
          '(C06_main_exit1, _destination_untouched; the excluded corner is a known finding, reproduced on the binary every run); '
          'code 0 -> exactly one script write whose content is Driver.compile + the emitter (compile_bash for bash) and no '
          'diagnostic (C06_main_exit0); the verdict and the diagnostics are those of Driver.compile (C08_main_verdict); Props/C15c.v: the '
          'warnings on stderr are exactly Diag.warning_messages of the validated grammar, each once, sorted, first, and for any two '
          'choices of the warning sets the traces minus the warnings (exit status and script write included) are equal. Tie '
          '(maintie.py): the binary over command lines (0/1/2+ shell options, destination file / - / existing file, --regex / '
          '--dfa to a file, to -, to the script path, usage file present / missing / stdin / absent, --version) x inputs (clean, '
          'warnings, an error of every stage, empty, invalid UTF-8, non-ASCII, random mutated grammars): exit status, stdout, '
          'stderr message by message, and every file of the directory afterwards equal the model trace (bash script byte for byte).'),
    design='6 C06, 13',
    technique='Coq totality theorem for the whole pipeline model (partial: runtime resources outside the model) + end-to-end model/library tie + exhaustive-outcome judgement of the real binary on mutated inputs')

TRAILER = {
    'bash': b'complete -o nospace -F _',
    'fish': b'complete --command ',
    'zsh': b'compdef _',
    'pwsh': b'Register-ArgumentCompleter',
}

TOKENS = ['(', ')', '[', ']', '|', '||', '...', ';', '<A>', '<B>', '<_>', '<PATH>', '{{{ echo x }}}', '"descr"', 'a', 'b',
          '--o=', 'cmd', '<A> ::=', '<B@bash> =', '<A@zsh> ::=', '\\(', '\\.', '..', '#c\n', '\n', '\x0c', '"\\"q"', 'x\\\\', '::=', '=',
          '<', '>', '{{{', '}}}', '"', '\\', '@', 'é', '\xff', '\t', '\r\n', "'", '`', '$x', '!', '*']

WITNESSES = [
    # repaired defects stay in the corpus
    b'cmd <A>;\n<A@bash> = a\n b;', b'cmd x<A>;\n<A> = a "d\n\nfoo" b;',
    b'cmd <R> <A>;\n<R> = x;\n<A> = <B>;\n<B> = <A>;', b'cmd x;\n<B> = <B> <C>;\n<C> = a;',
    b'cmd (--w1=<U2> || l3) (same4 "first descr" l5 | same4 "second descr" l6);\n',
    b'cmd [a | a a]...;', b'cmd [((b | a | b))... (b | a a) b];', b'', b'\n\n', b';', b'cmd', b'cmd;', b'cmd ;', b'cmd a',
    b'cmd <A>; <A> ::= <A>;', b'cmd \xff\xfe;', b'cmd "unterminated', b'cmd a\\', b'cmd {{{', b'cmd <', b'cmd a....;', b'cmd a...;',
    b'cmd a ... ... ;', b'cmd ()', b'cmd [];', b'cmd (a|);', b'cmd a||;', b'a/b c;', b'cmd <A@bash>;', b'<A@bash> ::= {{{ x }}};',
    b'cmd <A> <A>;', b'cmd <A>... <B>;', b'cmd [<A>] <B>;', b'cmd --o=<A>x;', b'cmd {{{ }}};', b'cmd {{{}}} "d";',
]


def mutate(r, text):
    """One structure-aware mutation of a grammar text (str, latin-1)."""
    k = r.random()
    n = len(text)
    if n == 0:
        return r.choice(TOKENS)
    i = r.randrange(n)
    if k < 0.15:      # delete a slice
        j = min(n, i + r.choice([1, 1, 2, 5, 20]))
        return text[:i] + text[j:]
    if k < 0.3:       # duplicate a slice
        j = min(n, i + r.choice([1, 3, 10, 30]))
        return text[:j] + text[i:j] + text[j:]
    if k < 0.55:      # insert a token
        return text[:i] + ' ' + r.choice(TOKENS) + ' ' + text[i:]
    if k < 0.65:      # insert a token without spaces
        return text[:i] + r.choice(TOKENS) + text[i:]
    if k < 0.75:      # swap two slices
        j = r.randrange(n)
        a, b = min(i, j), max(i, j)
        return text[:a] + text[b:b + 5] + text[a + 5:b] + text[a:a + 5] + text[b + 5:]
    if k < 0.85:      # replace a space by a newline (multi-line constructs)
        sp = [p for p, ch in enumerate(text) if ch == ' ']
        if sp:
            p = r.choice(sp)
            return text[:p] + r.choice(['\n', '\n\n', ' \n  ', '\r\n']) + text[p + 1:]
        return text
    if k < 0.92:      # truncate
        return text[:i]
    return text[:i] + r.choice(['\xff', '\xc3', 'é', '\x00', '\x1b']) + text[i:]


def soup(r):
    return ' '.join(r.choice(TOKENS) for _ in range(r.randint(1, 25)))


def max_depth(text):
    d = m = 0
    for c in text:
        if c in b'([':
            d += 1
            m = max(m, d)
        elif c in b')]':
            d -= 1
    return m


def fanout(text):
    """product, along the longest chain of definitions, of how often each right-hand side refers to the next one"""
    import re
    defs = dict((m.group(1), m.group(2)) for m in re.finditer(rb'<([^>@]+)>\s*(?:::=|=)([^;]*);', text))
    best = 1
    for n in defs:
        prod, cur, seen = 1, n, set()
        while cur in defs and cur not in seen:
            seen.add(cur)
            refs = re.findall(rb'<([^>@]+)>', defs[cur])
            if not refs:
                break
            nxt = max(set(refs), key=refs.count)
            prod *= refs.count(nxt)
            cur = nxt
        best = max(best, prod)
    return best


def classify(text, run=None):
    """known-finding mechanisms (known_findings.json): inputs outside what a maintainer-sized repair covers.  The input must
    have the shape AND, when the outcome of the run is at hand, the run must show the mechanism's signature: death by
    SIGSEGV/SIGABRT (stack overflow) for deep nesting, the CPU/address-space limit for the exponential expansion.  Anything
    else on such an input (a wrong status, a touched destination, a missing diagnostic) is a new violation."""
    if max_depth(text) >= 1000:
        if run is None or run['rc'] in (134, 139, 128 + 6, 128 + 11, -6, -11):
            return 'deep_nesting_stack_overflow'
        return None
    if fanout(text) >= 2 ** 18:
        if run is None or run['timed_out'] or run['rc'] in (137, 152, 128 + 24, 128 + 9, -9, 134, 101):
            return 'exponential_definition_expansion'
        return None
    return None


def probes():
    deep = b'cmd ' + b'(' * 6000 + b'a' + b')' * 6000 + b';\n'
    n = 24
    exp = b'cmd <A0>;\n' + b''.join(b'<A%d> ::= <A%d> <A%d>;\n' % (i, i + 1, i + 1) for i in range(n)) + b'<A%d> ::= x;\n' % n
    return [('probe-deep', deep), ('probe-exponential', exp)]


def cases(ctx):
    r = ctx['rng']
    quick = ctx['tier'] == 'quick'
    out = [('witness', w) for w in WITNESSES] + probes()
    nbase = 25 if quick else 600
    for _ in range(nbase):
        kind = r.choice(['clean'] * 8 + planted.MISTAKES + ['warn'] * 6)
        stmts = planted.warn_case(r) if kind == 'warn' else planted.plant(r, kind)[0]
        text = planted.relayout(stmts, r, heavy=r.random() < 0.3) if r.random() < 0.6 else '\n'.join(stmts) + '\n'
        out.append((kind, text.encode('latin-1')))
        t = text
        for _ in range(r.choice([0, 1, 1, 2])):
            t = mutate(r, t)
            out.append(('mutant', t.encode('latin-1')))
    for _ in range(nbase // 2):
        out.append(('soup', soup(r).encode('latin-1')))
    # every small expression tree over one leaf of each kind (literal, described literal, command, undefined
    # nonterminal, within-word expression): systematic coverage of operator/leaf/level combinations
    leaves = [('lit', 'a', None), ('lit', 'b', 'descr'), ('cmd', 'echo x'), ('nt', 'U'),
              ('sub', [('lit', '--o=', None), ('alt', [('lit', 'x', None), ('lit', 'y', None)])])]
    small = gen.trees_upto(3, leaves)
    four = gen.trees(4, leaves)
    r.shuffle(four)
    for t in small + four[: (120 if quick else 1500)]:
        out.append(('small-tree', gen.show_grammar([('call', 'cmd', t)]).encode('latin-1')))
    return out


def judge(b, shell, to_file, sentinel):
    """-> list of problems for one run of the binary."""
    rc = b['rc']
    if b['timed_out']:
        return ['timed out / CPU limit (rc %s)' % rc]
    if rc == 0:
        script = b['dest'] if to_file else b['stdout']
        if not script:
            return ['exit 0 but no script written']
        # a complete script: bash/fish/zsh end with the registration; the pwsh registration opens the script block, which
        # must be closed at the very end
        if (TRAILER[shell] not in script) or (shell != 'pwsh' and TRAILER[shell] not in script[-300:]) \
                or (shell == 'pwsh' and not script.rstrip().endswith(b'}')) or (shell == 'zsh' and not script.rstrip().endswith(b'fi')):
            return ['exit 0 but the script lacks its registration trailer']
        if to_file and b['stdout']:
            return ['exit 0, script to file, but stdout is not empty']
        return []
    if rc == 1:
        p = []
        if not b['stderr'].strip():
            p.append('exit 1 without a diagnostic')
        if b['stdout']:
            p.append('exit 1 but something was written to stdout')
        if to_file and b['dest'] != sentinel:
            p.append('exit 1 but the destination file was %s' % ('created' if sentinel is None else 'modified'))
        return p
    return ['exit status %s: %s' % (rc, b['stderr'][-300:].decode('latin-1'))]


def run(ctx, res):
    with build.Lock():
        bins = {'debug': build.complgen(False), 'release': build.complgen(True)}
        # the theorems about the command as a whole (Model/Main.v) live in Props/C06c.v, those about its warnings in Props/C15c.v
        extras = {p: coqcheck.check_property(p) for p in ('C06c', 'C15c')}
    for p, extra in extras.items():
        if not extra['ok']:
            res.violations.append(report.Violation('proof obligations of %s (the command as a trace of effects) no longer check' % p,
                                                   dict(kind='proof-obligation', errors=extra['errors'][:5]), found_input=False))
        res.extra['theorems_' + p] = extra['theorems']
    cs = cases(ctx)
    r = ctx['rng']
    jobs, meta = [], []
    for kind, text in cs:
        shells = SHELLS
        if kind.startswith('probe'):
            shells = ['bash']
        elif kind == 'small-tree':
            shells = [r.choice(SHELLS)]
        for sh in shells:
            for build_kind in (('debug',) if kind == 'small-tree' else ('debug', 'release')):
                # every (input, shell) in both builds; destination alternates
                to_file = r.random() < 0.5
                sentinel = b'SENTINEL\n' if (to_file and r.random() < 0.7) else None
                jobs.append(dict(text=text, shell=sh, to_file=to_file, dest_existing=sentinel))
                meta.append((kind, text, sh, build_kind, to_file, sentinel))
    out = []
    for bk in ('debug', 'release'):
        idx = [i for i, m in enumerate(meta) if m[3] == bk]
        rs = impl.run_binary_many(bins[bk], [jobs[i] for i in idx], timeout=10)
        out += list(zip(idx, rs))
    results = dict(out)
    res.rule = ('witnesses of repaired defects + clean/planted/warning grammars in random (also heavy) layouts + 1-3 structure-aware '
                'mutations each (slice deletion/duplication/swap, token insertion, newline insertion, truncation, non-ASCII / invalid '
                'UTF-8 bytes) + token soups; x 4 shells x {debug, release} x {file with/without pre-existing content, stdout}; '
                'non-trivial = distinct input text')
    kinds = {}
    outcomes = {}
    for i, (kind, text, sh, bk, to_file, sentinel) in enumerate(meta):
        b = results[i]
        res.evaluations += 1
        kinds[kind] = kinds.get(kind, 0) + 1
        key = 'rc%s' % b['rc']
        outcomes[key] = outcomes.get(key, 0) + 1
        problems = judge(b, sh, to_file, sentinel)
        if not problems:
            res.traces_validated += 1
        if problems:
            res.violations.append(report.Violation(
                'C06: ' + '; '.join(problems), cls=classify(text, b), replay=
                dict(kind='spec-judgement', grammar=text.decode('latin-1')[:20000], grammar_hex=text.hex() if any(c > 126 or c < 9 for c in text) else None,
                     shell=sh, build=bk, to_file=to_file, rc=b['rc'], stderr=b['stderr'][-1500:].decode('latin-1'), problems=problems)))
        if len(res.samples) < 6 and i % 997 == 3:
            res.samples.append(dict(kind=kind, grammar=text.decode('latin-1')[:300], shell=sh, build=bk, rc=b['rc'],
                                    stderr_first=b['stderr'].split(b'\n')[0].decode('latin-1')[:120]))
    res.nontrivial = len(set(t for _, t in cs))
    end_to_end(ctx, res, cs)
    # Model/Main.v (the whole command as a trace of effects) against the binary: command lines x inputs
    maintie.tie(ctx, res, extra=[(k, t) for k, t in cs if not k.startswith('probe')])
    res.extra['inputs_per_kind'] = kinds
    res.extra['outcomes'] = outcomes
    res.assumptions = ['stack exhaustion on extreme nesting depth and exponential expansion of definitions are outside the generators '
                       '(see known_findings.json) and outside what the Gallina model can exhibit']


STAGE_OF = {'PARSE': 'parse', 'CHECK': 'check', 'REGEX': 'regex', 'RAW': 'subset', 'AMB': 'amb'}


def end_to_end(ctx, res, cs):
    """T1 for the whole model pipeline (Model/Driver.v: text -> parse -> check -> regex -> subset -> minimize ->
    ambiguity) against the library on the same texts: same verdict (stage + error variant) or the same minimised
    automaton up to state numbering; the model must never answer Panic / OutOfFuel (C06's totality claim)."""
    with build.Lock():
        exe = build.harness()
    r = ctx['rng']
    texts = [t for k, t in cs if not k.startswith('probe') and all(32 <= c < 127 or c in (9, 10, 12, 13) for c in t)]
    r.shuffle(texts)
    texts = texts[: (150 if ctx['tier'] == 'quick' else 3000)]
    shells = [r.choice(SHELLS) for _ in texts]
    dumps = impl.dump(exe, texts, ['parse', 'check', 'regex', 'raw', 'min', 'amb'], SHELLS)
    reqs = ['compile %s 200000 %s' % (sh, sexp.quote(t.decode('latin-1'))) for t, sh in zip(texts, shells)]
    outs = model.run(reqs)
    agree = {'ok': 0, 'err': 0}
    for t, sh, d, o in zip(texts, shells, dumps, outs):
        st = d[sh]
        res.evaluations += 1
        replay = dict(kind='tie-end-to-end', grammar=t.decode('latin-1'), shell=sh, model=o[:1500],
                      impl={k: v[:800] for k, v in st.items()})
        m = sexp.parse(o)
        if 'CRASH' in st or 'PANIC' in st:
            res.violations.append(report.Violation('C06: the library crashed: %s' % (st.get('PANIC') or st.get('CRASH'))[:200],
                                                   dict(replay, kind='spec-judgement'), cls=classify(t)))
            continue
        if m[0] in ('panic', 'outoffuel', 'drivererror'):
            res.violations.append(report.Violation('C06: the model pipeline answers %s (totality of the model is what Props/C06.v rests on)' % o[:200],
                                                   replay, found_input=False))
            continue
        err = [(STAGE_OF[s], sexp.parse(st[s])) for s in ('PARSE', 'CHECK', 'REGEX', 'RAW', 'AMB') if s in st and st[s].startswith('(err')]
        if err:
            stage, e = err[0]
            variant = e[1][0]
            ok = m[0] == 'err' and m[1] == stage and m[2][0] == variant
            if ok and variant != 'NonterminalDefinitionsCycle' and stage in ('parse', 'check'):
                ok = m[2] == e[1]
            if ok:
                agree['err'] += 1
                res.traces_validated += 1
            else:
                res.violations.append(report.Violation('tie broken (end to end): library rejects at %s with %s, model says %s' % (stage, variant, o[:120]),
                                                       replay, found_input=False))
        elif 'MIN' in st and st['MIN'].startswith('(ok'):
            ok = m[0] == 'ok' and canon.canon_dfa(m[2]) == canon.canon_dfa(sexp.parse(st['MIN'])[1])
            if ok:
                agree['ok'] += 1
                res.traces_validated += 1
            else:
                res.violations.append(report.Violation('tie broken (end to end): minimised automata differ (up to state numbering)', replay, found_input=False))
    res.extra['end_to_end'] = dict(texts=len(texts), agree=agree)
