"""C11 -- the definition chosen for a nonterminal is the one for the target shell.

Theorem side: Props/C11.v (model choice = Spec.Choice.spec for every accepted grammar).
Tie T1: Model.Check.from_grammar (extracted) vs ValidGrammar::from_grammar on Rust's own parse tree.
Direct judgement: the command that Rust's validated tree / emitted script contains for the single
reference to <X> must be what Spec.Choice.spec (extracted) says."""
import itertools

from .. import bashrun, build, gen, impl, model, report, sexp
from ..sexp import Q

SHELLS = ['bash', 'fish', 'zsh', 'pwsh']

MANIFEST = dict(
    text=('Theorem C11_choice (Props/C11.v): for every grammar whose definitions the checker accepts, every shell and every '
          'reference <X>, the node the Gallina model of specialize_nonterminals leaves in its place means exactly what '
          'Spec.Choice.spec prescribes (<X@S>, else plain <X>, else built-in for PATH/DIRECTORY, else any word; other shells '
          'ignored). The model is tied to src/check.rs by running the extracted model and ValidGrammar::from_grammar on the '
          'same parse trees (exact comparison of validated tree, warning maps, error variant+spans) and the built-in table is '
          'regenerated from the source on every run; the implementation is additionally judged directly against the extracted '
          'specification on an exhaustive family (all 32 definition subsets x 3 names x 5 reference positions x 4 shells), '
          'including the command table handed to the four emitters.'),
    design='6 C11',
    technique='Coq theorem (model = spec) + extracted-model/implementation correspondence (exhaustive family) + T3 regenerated constants')
KINDS = ['plain', 'bash', 'fish', 'zsh', 'pwsh']
# names of intermediate definitions (hash-map iteration order over definitions depends on the names)
POOL = ['Y', 'Z', 'FILE', 'OUTPUT', 'LOG', 'OPT', 'ROOT', 'THING', 'OPTION', 'ARG', 'NAME', 'VALUE', 'A', 'B']


def grammars(ctx):
    """Exhaustive: 2^5 definition subsets x names x reference positions."""
    out = []
    for name in ('PATH', 'DIRECTORY', 'FOO'):
        for mask in range(32):
            defs = []
            for i, k in enumerate(KINDS):
                if mask >> i & 1:
                    defs.append(('def', name, None if k == 'plain' else k, ('cmd', 'echo %s_%s' % (name.lower(), k))))
            for pos in ('top', 'word', 'def1', 'def2', 'opt', 'twice', 'topword', 'topdef'):
                ref = ('nt', name)
                if pos == 'top':
                    stmts = [('call', 'cmd', ('seq', [('lit', 'a', None), ref]))]
                elif pos == 'word':
                    stmts = [('call', 'cmd', ('seq', [('lit', 'a', None), ('sub', [('lit', '--k=', None), ref])]))]
                elif pos == 'def1':
                    y = ctx['rng'].choice(POOL)
                    stmts = [('call', 'cmd', ('nt', y)), ('def', y, None, ('seq', [('lit', 'a', None), ref]))]
                elif pos == 'def2':
                    y, z = ctx['rng'].sample(POOL, 2)
                    stmts = [('call', 'cmd', ('nt', y)), ('def', y, None, ('alt', [('lit', 'a', None), ('nt', z)])),
                             ('def', z, None, ('seq', [('lit', 'b', None), ('opt', ref)]))]
                elif pos == 'twice':      # the same name referenced twice
                    stmts = [('call', 'cmd', ('seq', [('lit', 'a', None), ref, ('lit', 'b', None), ref]))]
                elif pos == 'topword':    # at top level and inside a word
                    stmts = [('call', 'cmd', ('seq', [('lit', 'a', None), ref, ('sub', [('lit', '--k=', None), ref])]))]
                elif pos == 'topdef':     # directly and through a definition
                    y = ctx['rng'].choice(POOL)
                    stmts = [('call', 'cmd', ('seq', [('lit', 'a', None), ref, ('nt', y)])),
                             ('def', y, None, ('seq', [('lit', 'c', None), ref]))]
                else:
                    stmts = [('call', 'cmd', ('fb', [('lit', 'a', None), ('many', ref)]))]
                order = ctx['rng'].random() < 0.5
                g = stmts + defs if order else defs + stmts
                out.append((name, mask, pos, gen.show_grammar(g).encode()))
    # a user-redefined built-in referenced from inside a definition, for every intermediate name of the pool and
    # both statement orders (the order in which definitions are visited depends on their names)
    for b in ('PATH', 'DIRECTORY'):
        for y in POOL:
            for first in (0, 1):
                defs = [('def', y, None, ('seq', [('lit', 'a', None), ('nt', b)])), ('def', b, None, ('cmd', 'echo %s_plain' % b.lower()))]
                if first:
                    defs.reverse()
                g = [('call', 'cmd', ('nt', y))] + defs
                out.append((b, 1, 'defpool', gen.show_grammar(g).encode()))
    # several names at once: one at top level, two inside words (command ids differ between the main
    # automaton and the within-word automata)
    r0 = ctx['rng']
    for _ in range(40 if ctx['tier'] == 'quick' else 600):
        names = r0.sample(['PATH', 'DIRECTORY', 'FOO', 'BAR', 'BAZ'], 3)
        defs = []
        for n in names:
            ks = [k for k in KINDS if r0.random() < 0.5]
            for k in ks:
                defs.append(('def', n, None if k == 'plain' else k, ('cmd', 'echo %s_%s' % (n.lower(), k))))
        body = ('seq', [('nt', names[0]), ('alt', [('sub', [('lit', '--opt=', None), ('nt', names[1])]),
                                                    ('sub', [('lit', '--other=', None), ('nt', names[2])])])])
        g = [('call', 'cmd', body)] + defs
        r0.shuffle(g)
        out.append((','.join(names), -2, 'multi', gen.show_grammar(g).encode()))
    if ctx['tier'] == 'thorough':
        # random mixtures: several names, non-command plain definitions, descriptions around
        r = ctx['rng']
        for _ in range(4000):
            names = r.sample(['PATH', 'DIRECTORY', 'FOO', 'BAR'], r.choice([1, 2, 3]))
            defs = []
            for n in names:
                for k in KINDS:
                    if r.random() < 0.4:
                        rhs = ('cmd', 'echo %s_%s' % (n.lower(), k))
                        if k == 'plain' and r.random() < 0.2 and not any(d[1] == n and d[2] for d in defs):
                            rhs = ('alt', [('lit', 'p' + n.lower(), None), ('lit', 'q', 'dq')])
                        defs.append(('def', n, None if k == 'plain' else k, rhs))
            # a plain non-command definition of a name specialised for some shell is rejected by
            # design (NonCommandSpecialization): keep only acceptable combinations
            ok = []
            for d in defs:
                if d[2] is None and d[3][0] != 'cmd' and any(e[1] == d[1] and e[2] for e in defs):
                    continue
                ok.append(d)
            body = ('seq', [('lit', 'a', None)] + [('opt', ('nt', n)) for n in names])
            g = [('call', 'cmd', body)] + ok
            r.shuffle(g)
            out.append((','.join(names), -1, 'random', gen.show_grammar(g).encode()))
    return out


def commands_in(tree, acc):
    if isinstance(tree, list):
        if tree and tree[0] == 'cmd':
            acc.append(str(tree[1]))
        for x in tree:
            commands_in(x, acc)
    return acc


def norm_check(sx):
    """Canonical form of a CHECK payload for comparison (named maps sorted)."""
    if sx[0] != 'ok':
        return sx
    out = list(sx[:3])
    for m in sx[3:]:
        out.append([m[0]] + sorted(sexp.dump(x) for x in m[1:]))
    return out


def run(ctx, res):
    with build.Lock():
        exe = build.harness()
    from . import e2e
    e2e.capstone_obligations(res, 'C11_')      # from the grammar TEXT to the command functions of the script: Props/Capstone.v
    cases = grammars(ctx)
    texts = [c[3] for c in cases]
    dumps = impl.dump(exe, texts, ['parse', 'check', 'tables'], SHELLS)
    # model requests
    reqs = []
    index = []
    for i, d in enumerate(dumps):
        for sh in SHELLS:
            st = d[sh]
            if 'PARSE' not in st or not st['PARSE'].startswith('(ok '):
                continue
            tree = st['PARSE'][4:-1]
            reqs.append('check %s %s' % (sh, tree))
            index.append((i, sh, 'check'))
            for name in cases[i][0].split(','):
                reqs.append('choice %s %s %s' % (sh, sexp.quote(name), tree))
                index.append((i, sh, 'choice:' + name))
    outs = model.run(reqs)
    by = {}
    for key, o in zip(index, outs):
        by[key] = o
    res.rule = ('exhaustive: every subset of {plain,@bash,@fish,@zsh,@pwsh} command definitions x names {PATH,DIRECTORY,FOO} '
                'x 8 reference positions (top level, inside a word, through one/two definitions, under ||/..., twice, top+word, direct+through a definition) x 4 shells; '
                'non-trivial = at least one definition of the name present; thorough adds random mixtures of several names')
    res.exhaustive = True
    nontrivial = set()
    for i, (name, mask, pos, text) in enumerate(cases):
        for sh in SHELLS:
            st = dumps[i][sh]
            res.evaluations += 1
            replay = dict(grammar=text.decode(), shell=sh, impl={k: v[:2000] for k, v in st.items()})
            if 'CRASH' in st or 'PANIC' in st:
                res.violations.append(report.Violation('implementation crashed', dict(replay, kind='crash')))
                continue
            if 'CHECK' not in st:
                res.violations.append(report.Violation('grammar did not parse', dict(replay, kind='generator')))
                continue
            rust = sexp.parse(st['CHECK'])
            mod = by.get((i, sh, 'check'))
            replay['model'] = mod
            msx = sexp.parse(mod) if mod else None
            # --- T1: stage correspondence (validated tree, warning maps, or error variant + spans)
            t1_ok = msx is not None and norm_check(rust) == norm_check(msx)
            if t1_ok:
                res.traces_validated += 1
            # --- direct judgement of the implementation against Spec.Choice
            verdict_ok = True
            why = ''
            if rust[0] == 'ok':
                cmds = set(commands_in(rust[2], []))
                expected_cmds = set()
                for nm in name.split(','):
                    ch = sexp.parse(by[(i, sh, 'choice:' + nm)])
                    if ch[0] == 'cmd':
                        expected_cmds.add(str(ch[1]))
                    elif ch[0] == 'plain':
                        expected_cmds |= set(commands_in(ch[1], []))
                if cmds != expected_cmds:
                    verdict_ok = False
                    why = 'validated grammar runs %s, specification says %s' % (sorted(cmds), sorted(expected_cmds))
                # what the script runs: the command table handed to the emitters
                if verdict_ok and 'TABLES' in st:
                    tabs = sexp.parse(st['TABLES'])
                    emitted = set(str(x) for x in tabs[2][1:])
                    if emitted != expected_cmds:
                        verdict_ok = False
                        why = 'emitters receive commands %s, specification says %s' % (sorted(emitted), sorted(expected_cmds))
            else:
                # every generated grammar is acceptable by construction
                verdict_ok = False
                why = 'acceptable grammar rejected: %s' % sexp.dump(rust)
            if mask != 0:
                nontrivial.add((name, mask, pos, sh))
            if not verdict_ok:
                cls = None
                if 'compgen -A' in why or '_path_files' in why or '__fish_complete' in why or 'Get-ChildItem' in why:
                    cls = 'builtin_shadows_plain'
                res.violations.append(report.Violation('C11: ' + why, dict(replay, kind='spec-judgement', why=why), cls=cls))
            elif not t1_ok:
                res.violations.append(report.Violation(
                    'tie T1 broken at stage check: model and implementation disagree',
                    dict(replay, kind='tie-T1', stage='check'), found_input=False))
            if len(res.samples) < 4 and mask in (5, 9, 18):
                res.samples.append(dict(grammar=text.decode(), shell=sh, impl_check=st.get('CHECK', '')[:300],
                                        spec_choice=by.get((i, sh, 'choice:' + name.split(',')[0]))))
    # --- what the emitted bash script really runs (execution in real bash on a sample)
    executed = run_in_bash(ctx, res, cases, by)
    res.nontrivial = len(nontrivial)
    res.extra['stage'] = 'check (ValidGrammar::from_grammar) + command table of the emitters + bash execution'
    res.extra['bash_executions'] = executed


def expected_reply(choice):
    """COMPREPLY expected when completing exactly at the reference, or None when it cannot be predicted."""
    if choice[0] == 'cmd':
        c = str(choice[1])
        return [c[5:]] if c.startswith('echo ') else None     # built-ins list files: not predicted
    if choice[0] == 'plain':
        cs = commands_in(choice[1], [])
        return [cs[0][5:]] if len(cs) == 1 and cs[0].startswith('echo ') else None
    return []                                                  # any word: nothing is offered


def run_in_bash(ctx, res, cases, by):
    with build.Lock():
        binary = build.complgen()
    r = ctx['rng']
    idx = [i for i, c in enumerate(cases) if c[2] in ('top', 'word', 'multi')]
    r.shuffle(idx)
    idx = idx[: (60 if ctx['tier'] == 'quick' else 1200)]
    outs = impl.run_binary_many(binary, [dict(text=cases[i][3], shell='bash') for i in idx])
    jobs, meta = [], []
    for i, o in zip(idx, outs):
        if o['rc'] != 0:
            continue
        name, mask, pos, text = cases[i]
        names = name.split(',')
        if pos == 'top':
            qs = [(['a'], '', names[0])]
        elif pos == 'word':
            qs = [(['a'], '--k=', names[0])]
        else:
            qs = [([], '', names[0]), (['zz'], '--opt=', names[1]), (['zz'], '--other=', names[2])]
        jobs.append((o['stdout'].decode('latin-1'), [(q[0], q[1]) for q in qs]))
        meta.append((i, qs))
    results = bashrun.run_many(jobs)
    n = 0
    for (i, qs), (rs, err) in zip(meta, results):
        name, mask, pos, text = cases[i]
        for (ws, pfx, nm), got in zip(qs, rs):
            ch = sexp.parse(by[(i, 'bash', 'choice:' + nm)])
            want = expected_reply(ch)
            if want is None:
                continue
            if pos == 'multi' and ws == ['zz']:
                # the first word is matched by <names[0]>: only predictable when that is "any word" or
                # a command that prints exactly zz -- use the any-word case only
                ch0 = sexp.parse(by[(i, 'bash', 'choice:' + name.split(',')[0])])
                if ch0[0] != 'any':
                    continue
            n += 1
            res.evaluations += 1
            reply = sorted(x.strip() for x in got['reply']) if got else None
            if got is None or reply != sorted(want):
                res.violations.append(report.Violation(
                    'C11: completing at <%s> in real bash offers %s, the chosen definition prints %s' % (nm, reply, want),
                    dict(kind='spec-judgement', grammar=text.decode(), shell='bash', words=ws, prefix=pfx, reference=nm,
                         spec_choice=sexp.dump(ch), compreply=reply, expected=want)))
    return n
