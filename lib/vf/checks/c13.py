"""C13 -- diagnostics point at the construct they complain about.

Theorems: Props/C13.v (provenance of every span the checker model reports) + the span half of the
parser round trip (Props/C05.v).  Judgement of the real binary: grammars with one planted located
mistake or warning, laid out randomly (comments, blank lines, multi-line statements, escapes before
the construct); the `path:line:col:` prefix of the first diagnostic must be the position at which
the generator put the offending construct, and the snippet must show that source line."""
import re

from .. import build, coqcheck, impl, model, planted, report, sexp, snippet

SHELLS = planted.SHELLS

MANIFEST = dict(
    text=('Props/C13.v: every span that the Gallina model of the checker puts into an error or a warning is the span of the '
          'offending construct of the source tree (definition name, shell name, command name, literals, reference); the parser '
          'half (spans = positions at which the printer put each construct) is Props/C05.v. Judgement of the real binary: one '
          'planted located mistake or warning per grammar (parse error, invalid/varying command name, duplicate definition plain '
          'and per shell, unknown shell, non-command specialisation, spaces inside a word, placeholder not last, undefined, '
          'unused, unused specialisation) x random layout (comments, blank lines, form feeds, multi-line statements, escaped '
          'literals before the construct) x 4 shells: the line:column of the diagnostic must equal the position the generator '
          'computed from the text, and the snippet must quote that source line. End to end (Props/C13b.v): for every input text, every '
          'span in an error of Driver.compile or in a warning starts at a byte of the text, at a construct of the right kind, and '
          'Model/Diag.v (which messages, header, quoted line, underlined columns; tied to the stderr of the binary exactly) never panics.'),
    design='6 C13',
    # Props/C13b.v: C13_pipeline_positions / _error_provenance / _warning_provenance / _unbounded_provenance,
    # C13_render_total, C13_render_shows_construct (Model/Diag.v tied to the binary's stderr by render_tie)
    technique='Coq provenance theorems on the checker model (+ parser span round trip) + position judgement of the real binary on planted diagnostics')

# kinds with a located first diagnostic and a marker
LOCATED = ['parse_error', 'slash', 'varying_names', 'dup_plain', 'dup_shell', 'unknown_shell', 'non_command_spec',
           'subword_spaces', 'subword_spaces_root_refs', 'placeholder_not_last']


def warning_case(r):
    """-> (stmts, expected: list of (label, marker))"""
    c = planted.Clean(r, depth=r.choice([1, 2]))
    c.p_und = 0
    stmts = c.build()
    f = c.f
    exp = []
    k = r.random()
    if k < 0.4:
        n = f.name('ZU')
        lit = f.lit('zz')
        stmts[0] = stmts[0][:-1] + ' %s <%s>;' % (lit, n)
        exp.append(('Undefined', '<%s>' % n))
    elif k < 0.7:
        n = f.name('ZN')
        stmts.append('<%s> ::= %s;' % (n, f.lit()))
        exp.append(('Unused', '<%s>' % n))
    else:
        n = f.name('ZS')
        stmts.append('<%s@%s> ::= %s;' % (n, 'SHELL', c.cmd()))
        exp.append(('Unused specialization', '<%s@' % n))
    return stmts, exp, set(c.undefined)


def snippet_ok(stderr, line, source_line):
    """the rendered snippet quotes `line | <source line>`"""
    pat = re.compile(rb'^\s*%d \| (.*)$' % line, re.M)
    m = pat.search(stderr)
    return m is not None and m.group(1).rstrip() == source_line.rstrip()


def run(ctx, res):
    with build.Lock():
        binary = build.complgen()
        # the end-to-end theorems (positions, provenance, rendering) live in Props/C13b.v
        extra = coqcheck.check_property('C13b')
    if not extra['ok']:
        res.violations.append(report.Violation('proof obligations of C13b (C13 end to end) no longer check',
                                               dict(kind='proof-obligation', errors=extra['errors'][:5]), found_input=False))
    res.extra['theorems_C13b'] = extra['theorems']
    r = ctx['rng']
    n = 12 if ctx['tier'] == 'quick' else 800
    cases = []
    for kind in LOCATED:
        for _ in range(n):
            stmts, cls, marker = planted.plant(r, kind)
            cases.append(dict(kind=kind, stmts=stmts, cls=cls, marker=marker, label=None))
    for _ in range(3 * n):
        stmts, exp, und = warning_case(r)
        cases.append(dict(kind='warning', stmts=stmts, cls=None, marker=exp[0][1], label=exp[0][0]))
    jobs, meta = [], []
    for c in cases:
        sh = r.choice(SHELLS)
        if c['kind'] == 'dup_shell':
            sh = c['cls'][1]
        stmts = [s.replace('@SHELL>', '@%s>' % sh) for s in c['stmts']]
        escape_first = r.random() < 0.35
        if escape_first and c['kind'] != 'varying_names':
            # an escaped literal early in the file, before the construct
            esc = r.choice(['e\\.x', 'y\\(z', 'q\;r', '\\<w', 'v\\\\'])
            first = stmts[0]
            sp = first.index(' ')
            stmts = [first[:sp + 1] + '[' + esc + '] ' + first[sp + 1:]] + stmts[1:] if not first.startswith('<') else stmts
            escape_first = not first.startswith('<')
        if r.random() < 0.3 and c['kind'] != 'varying_names' and not stmts[0].startswith('<'):
            # multi-byte characters (a description) early in the file: byte columns run ahead of character columns
            first = stmts[0]
            sp = first.index(' ')
            desc = '\xc3\xa9' * r.randint(1, 14)
            stmts = [first[:sp + 1] + '[u8 "' + desc + '"] ' + first[sp + 1:]] + stmts[1:]
        text = planted.relayout(stmts, r, heavy=r.random() < 0.5).encode('latin-1')
        pos = planted.position_of(text, c['marker'])
        jobs.append(dict(text=text, shell=sh))
        meta.append(dict(c, shell=sh, text=text, pos=pos, escape_first=escape_first))
    bins = impl.run_binary_many(binary, jobs)
    res.rule = ('one planted located diagnostic per grammar (%s, warnings Undefined/Unused/Unused specialization) in a clean random grammar, '
                'random (half of them heavy) layout, 35%% with a backslash-escaped literal before the construct, random target shell; '
                'non-trivial = distinct text whose construct is not at 1:1' % ', '.join(LOCATED))
    nontriv = set()
    per = {}
    for m, b in zip(meta, bins):
        res.evaluations += 1
        per[m['kind']] = per.get(m['kind'], 0) + 1
        text = m['text']
        replay = dict(grammar=text.decode('latin-1'), shell=m['shell'], planted=m['kind'], expected_position=m['pos'],
                      stderr=b['stderr'][:2500].decode('latin-1'), rc=b['rc'])
        problems = []
        if m['pos'] is None:
            problems.append('generator lost its marker')
        diags = planted.diagnostics(b['stderr'])
        if m['kind'] == 'warning':
            mine = [d for d in diags if d[2] == 'warning' and d[3] == m['label']]
            # other warnings of the base grammar are fine; the planted one must be among them at the right place
            cand = [d for d in mine if (d[0], d[1]) == m['pos']]
            if b['rc'] != 0:
                problems.append('grammar with a planted warning was rejected')
            elif not cand:
                problems.append('no %s warning at %s (got %s)' % (m['label'], m['pos'], [(d[0], d[1]) for d in mine]))
            got = m['pos'] if cand else None
        else:
            errs = [d for d in diags if d[2] == 'error']
            if b['rc'] != 1 or not errs:
                problems.append('planted %s: rc %s, no located error' % (m['kind'], b['rc']))
                got = None
            else:
                got = (errs[0][0], errs[0][1])
                if got != m['pos']:
                    problems.append('first diagnostic at %d:%d, construct is at %s' % (got[0], got[1], m['pos']))
        # every located message of the run (also the follow-up ones of a multi-message error): the line number of its header is the
        # line it quotes, the quoted text is that line of the input, and the column lies within that line (+1 for the end)
        if not problems:
            from .maintie import LOCATED as BLOCK
            src_lines = text.split(b'\n')
            for mb in BLOCK.finditer(b['stderr']):
                hl, hc, no = int(mb.group('line')), int(mb.group('col')), int(mb.group('no'))
                want = src_lines[hl - 1] if 0 < hl <= len(src_lines) else None
                if want is not None and want.endswith(b'\r'):
                    want = want[:-1]
                if hl != no:
                    problems.append('a message is headed %d:%d but quotes line %d' % (hl, hc, no))
                elif want is None or mb.group('src').rstrip() != want.rstrip():
                    problems.append('the message headed %d:%d does not quote line %d of the input' % (hl, hc, hl))
                elif not (1 <= hc <= len(want) + 1):
                    problems.append('the message headed %d:%d points outside line %d (%d bytes)' % (hl, hc, hl, len(want)))
        if got is not None and m['pos'] is not None and not problems:
            lines = text.split(b'\n')
            src = lines[m['pos'][0] - 1] if m['pos'][0] - 1 < len(lines) else b''
            if src.endswith(b'\r'):
                src = src[:-1]
            if not snippet_ok(b['stderr'], m['pos'][0], src):
                problems.append('the snippet does not show source line %d' % m['pos'][0])
        if m['pos'] and m['pos'] != (1, 1):
            nontriv.add(text)
        if not problems:
            res.traces_validated += 1
        if problems:
            cls = None
            # known mechanism: an escape earlier in the file resets the position counter
            if re.search(rb'\\[()\[\]<>|;"{}\\.]', text[:_offset(text, m['pos'])] if m['pos'] else text):
                cls = 'span_reset_after_escape'
            res.violations.append(report.Violation('C13: ' + '; '.join(problems), dict(replay, kind='spec-judgement', problems=problems), cls=cls))
        if len(res.samples) < 6 and res.evaluations % 37 == 5:
            res.samples.append(dict(planted=m['kind'], shell=m['shell'], grammar=text.decode('latin-1')[:300], expected=m['pos'],
                                    first_line=b['stderr'].split(b'\n')[0].decode('latin-1')))
    res.nontrivial = len(nontriv)
    res.extra['cases_per_kind'] = per
    render_tie(res, meta, bins)


# ---- tie of Model/Diag.v (what main.rs prints for a located message) to the real binary --------------------
def stderr_blocks(stderr):
    return snippet.blocks(stderr)


def payload_of(st):
    """what the pipeline reports for this run, from cg-dump's stages (the Rust library's own values)"""
    pa = st.get('PARSE', '')
    if pa.startswith('(err (ParseError'):
        return '(parse %s)' % pa[len('(err (ParseError '):-2]
    ch = st.get('CHECK', '')
    if ch.startswith('(err '):
        return '(check %s)' % ch[len('(err '):-1]
    rx = st.get('REGEX', '')
    if rx.startswith('(err (UnboundedMatchable'):
        return '(regex %s)' % rx[len('(err '):-1]
    if ch.startswith('(ok ') and rx.startswith('(ok '):
        v = sexp.parse(ch)
        return '(warnings %s %s %s)' % (sexp.dump(v[3]), sexp.dump(v[4]), sexp.dump(v[5]))
    return None


def render_tie(res, meta, bins):
    """Model/Diag.v (error_messages / warning_messages / render) == the located messages the binary prints:
    header, label, quoted source line, underlined columns, annotation and help text, in order."""
    with build.Lock():
        exe = build.harness()
    by_shell = {}
    for k, m in enumerate(meta):
        by_shell.setdefault(m['shell'], []).append(k)
    stages = {}
    for sh, ks in by_shell.items():
        dumps = impl.dump(exe, [meta[k]['text'] for k in ks], ['parse', 'check', 'regex'], [sh])
        for k, d in zip(ks, dumps):
            stages[k] = d[sh]
    reqs, idx = [], []
    for k, (m, b) in enumerate(zip(meta, bins)):
        blocks = stderr_blocks(b['stderr'])
        pl = payload_of(stages.get(k, {}))
        if pl is None or 'CRASH' in stages.get(k, {}) or 'PANIC' in stages.get(k, {}):
            continue
        path = blocks[0]['path'] if blocks else 'g.usage'
        reqs.append('diag %s %s %s' % (sexp.quote(path), sexp.quote(m['text'].decode('latin-1')), pl))
        idx.append((k, blocks))
    outs = model.run(reqs)
    tied = 0
    line_kinds = {}
    for (k, blocks), o, rq in zip(idx, outs, reqs):
        m = meta[k]
        try:
            msgs = sexp.parse(o)
        except ValueError:
            msgs = None
        problems = []
        if msgs is None or (msgs and msgs[0] == 'drivererror'):
            problems.append('model: ' + o[:200])
        elif len(msgs) != len(blocks):
            problems.append('%d located messages printed, model says %d' % (len(blocks), len(msgs)))
        else:
            for j, (mm, bl) in enumerate(zip(msgs, blocks)):
                _, w, label, what, hlp, rd = mm
                if rd[0] != 'ok':
                    problems.append('message %d: model render gives %s' % (j, sexp.dump(rd)[:100]))
                    continue
                header, no, line, cs, ce = str(rd[1]), int(rd[2]), str(rd[3]), int(rd[4]), int(rd[5])
                want = dict(header=header, warning=(w == 'w'), label=str(label), no=no,
                            help=(None if hlp == '-' else str(hlp)))
                got = {f: bl[f] for f in want}
                if got != want:
                    problems.append('message %d: printed %r, model %r' % (j, got, want))
                # the quoted line verbatim (tab, form feed, CR, non-ASCII included) and the annotation line that
                # annotate-snippets draws from the model's byte columns (snippet.annotation)
                if bl['src'].rstrip(' ') != line.rstrip(' '):
                    problems.append('message %d: quoted line %r, model %r' % (j, bl['src'], line))
                ann = snippet.annotation(line, cs, ce, w == 'w', str(what))
                if not snippet.same_annotation(bl['ann'], ann):
                    problems.append('message %d: annotation line %r, from the model columns %d..%d: %r' % (j, bl['ann'], cs, ce, ann))
                kd = snippet.kind_of(line, cs, ce)
                line_kinds[kd] = line_kinds.get(kd, 0) + 1
        if problems:
            res.violations.append(report.Violation(
                'tie broken at stage diag (Model/Diag.v vs the messages the binary prints): ' + '; '.join(problems[:3]),
                dict(kind='tie-diag', grammar=m['text'].decode('latin-1'), shell=m['shell'], request=rq[:3000],
                     model=o[:3000], stderr=bins[k]['stderr'][:3000].decode('latin-1'), problems=problems),
                found_input=False))
        else:
            tied += 1
    res.extra['diag_render_tied'] = tied
    res.extra['diag_render_quoted_lines'] = line_kinds
    res.extra['diag_render_requests'] = len(reqs)


def _offset(text, pos):
    line, col = pos
    lines = text.split(b'\n')
    return sum(len(l) + 1 for l in lines[:line - 1]) + col - 1
