"""C13 -- diagnostics point at the construct they complain about.

Theorems: Props/C13.v (provenance of every span the checker model reports) + the span half of the
parser round trip (Props/C05.v).  Judgement of the real binary: grammars with one planted located
mistake or warning, laid out randomly (comments, blank lines, multi-line statements, escapes before
the construct); the `path:line:col:` prefix of the first diagnostic must be the position at which
the generator put the offending construct, and the snippet must show that source line."""
import re

from .. import build, impl, planted, report

SHELLS = planted.SHELLS

MANIFEST = dict(
    text=('Props/C13.v: every span that the Gallina model of the checker puts into an error or a warning is the span of the '
          'offending construct of the source tree (definition name, shell name, command name, literals, reference); the parser '
          'half (spans = positions at which the printer put each construct) is Props/C05.v. Judgement of the real binary: one '
          'planted located mistake or warning per grammar (parse error, invalid/varying command name, duplicate definition plain '
          'and per shell, unknown shell, non-command specialisation, spaces inside a word, placeholder not last, undefined, '
          'unused, unused specialisation) x random layout (comments, blank lines, form feeds, multi-line statements, escaped '
          'literals before the construct) x 4 shells: the line:column of the diagnostic must equal the position the generator '
          'computed from the text, and the snippet must quote that source line.'),
    design='6 C13',
    technique='Coq provenance theorems on the checker model (+ parser span round trip) + position judgement of the real binary on planted diagnostics')

# kinds with a located first diagnostic and a marker
LOCATED = ['parse_error', 'slash', 'varying_names', 'dup_plain', 'dup_shell', 'unknown_shell', 'non_command_spec',
           'subword_spaces', 'subword_spaces_root_refs', 'placeholder_not_last']


def warning_case(r):
    """-> (stmts, expected: list of (label, marker))"""
    c = planted.Clean(r, depth=r.choice([1, 2]))
    c.p_und = 0
    stmts = c.build()
    f = c.f
    exp = []
    k = r.random()
    if k < 0.4:
        n = f.name('ZU')
        lit = f.lit('zz')
        stmts[0] = stmts[0][:-1] + ' %s <%s>;' % (lit, n)
        exp.append(('Undefined', '<%s>' % n))
    elif k < 0.7:
        n = f.name('ZN')
        stmts.append('<%s> ::= %s;' % (n, f.lit()))
        exp.append(('Unused', '<%s>' % n))
    else:
        n = f.name('ZS')
        stmts.append('<%s@%s> ::= %s;' % (n, 'SHELL', c.cmd()))
        exp.append(('Unused specialization', '<%s@' % n))
    return stmts, exp, set(c.undefined)


def snippet_ok(stderr, line, source_line):
    """the rendered snippet quotes `line | <source line>`"""
    pat = re.compile(rb'^\s*%d \| (.*)$' % line, re.M)
    m = pat.search(stderr)
    return m is not None and m.group(1).rstrip() == source_line.rstrip()


def run(ctx, res):
    with build.Lock():
        binary = build.complgen()
    r = ctx['rng']
    n = 12 if ctx['tier'] == 'quick' else 800
    cases = []
    for kind in LOCATED:
        for _ in range(n):
            stmts, cls, marker = planted.plant(r, kind)
            cases.append(dict(kind=kind, stmts=stmts, cls=cls, marker=marker, label=None))
    for _ in range(3 * n):
        stmts, exp, und = warning_case(r)
        cases.append(dict(kind='warning', stmts=stmts, cls=None, marker=exp[0][1], label=exp[0][0]))
    jobs, meta = [], []
    for c in cases:
        sh = r.choice(SHELLS)
        if c['kind'] == 'dup_shell':
            sh = c['cls'][1]
        stmts = [s.replace('@SHELL>', '@%s>' % sh) for s in c['stmts']]
        escape_first = r.random() < 0.35
        if escape_first and c['kind'] != 'varying_names':
            # an escaped literal early in the file, before the construct
            esc = r.choice(['e\\.x', 'y\\(z', 'q\;r', '\\<w', 'v\\\\'])
            first = stmts[0]
            sp = first.index(' ')
            stmts = [first[:sp + 1] + '[' + esc + '] ' + first[sp + 1:]] + stmts[1:] if not first.startswith('<') else stmts
            escape_first = not first.startswith('<')
        text = planted.relayout(stmts, r, heavy=r.random() < 0.5).encode('latin-1')
        pos = planted.position_of(text, c['marker'])
        jobs.append(dict(text=text, shell=sh))
        meta.append(dict(c, shell=sh, text=text, pos=pos, escape_first=escape_first))
    bins = impl.run_binary_many(binary, jobs)
    res.rule = ('one planted located diagnostic per grammar (%s, warnings Undefined/Unused/Unused specialization) in a clean random grammar, '
                'random (half of them heavy) layout, 35%% with a backslash-escaped literal before the construct, random target shell; '
                'non-trivial = distinct text whose construct is not at 1:1' % ', '.join(LOCATED))
    nontriv = set()
    per = {}
    for m, b in zip(meta, bins):
        res.evaluations += 1
        per[m['kind']] = per.get(m['kind'], 0) + 1
        text = m['text']
        replay = dict(grammar=text.decode('latin-1'), shell=m['shell'], planted=m['kind'], expected_position=m['pos'],
                      stderr=b['stderr'][:2500].decode('latin-1'), rc=b['rc'])
        problems = []
        if m['pos'] is None:
            problems.append('generator lost its marker')
        diags = planted.diagnostics(b['stderr'])
        if m['kind'] == 'warning':
            mine = [d for d in diags if d[2] == 'warning' and d[3] == m['label']]
            # other warnings of the base grammar are fine; the planted one must be among them at the right place
            cand = [d for d in mine if (d[0], d[1]) == m['pos']]
            if b['rc'] != 0:
                problems.append('grammar with a planted warning was rejected')
            elif not cand:
                problems.append('no %s warning at %s (got %s)' % (m['label'], m['pos'], [(d[0], d[1]) for d in mine]))
            got = m['pos'] if cand else None
        else:
            errs = [d for d in diags if d[2] == 'error']
            if b['rc'] != 1 or not errs:
                problems.append('planted %s: rc %s, no located error' % (m['kind'], b['rc']))
                got = None
            else:
                got = (errs[0][0], errs[0][1])
                if got != m['pos']:
                    problems.append('first diagnostic at %d:%d, construct is at %s' % (got[0], got[1], m['pos']))
        if got is not None and m['pos'] is not None and not problems:
            lines = text.split(b'\n')
            src = lines[m['pos'][0] - 1] if m['pos'][0] - 1 < len(lines) else b''
            if src.endswith(b'\r'):
                src = src[:-1]
            if not snippet_ok(b['stderr'], m['pos'][0], src):
                problems.append('the snippet does not show source line %d' % m['pos'][0])
        if m['pos'] and m['pos'] != (1, 1):
            nontriv.add(text)
        if problems:
            cls = None
            # known mechanism: an escape earlier in the file resets the position counter
            if re.search(rb'\\[()\[\]<>|;"{}\\.]', text[:_offset(text, m['pos'])] if m['pos'] else text):
                cls = 'span_reset_after_escape'
            res.violations.append(report.Violation('C13: ' + '; '.join(problems), dict(replay, kind='spec-judgement', problems=problems), cls=cls))
        if len(res.samples) < 6 and res.evaluations % 37 == 5:
            res.samples.append(dict(planted=m['kind'], shell=m['shell'], grammar=text.decode('latin-1')[:300], expected=m['pos'],
                                    first_line=b['stderr'].split(b'\n')[0].decode('latin-1')))
    res.nontrivial = len(nontriv)
    res.traces_validated = res.evaluations
    res.extra['cases_per_kind'] = per


def _offset(text, pos):
    line, col = pos
    lines = text.split(b'\n')
    return sum(len(l) + 1 for l in lines[:line - 1]) + col - 1
