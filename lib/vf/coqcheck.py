"""Proof obligations of a property: Props/<ID>.v must compile (full .vo), its theorems are pinned
by `Check name : statement.`, `Print Assumptions` must report nothing outside the allow-list, and
no forbidden command may occur anywhere in the development."""
import os
import re
import subprocess

from . import build, paths

FORBIDDEN = re.compile(
    r'\b(Admitted|admit|Axiom|Axioms|Parameter|Parameters|Conjecture|Conjectures|Abort All)\b'
    r'|Admit Obligations|Unset Guard Checking|Unset Positivity Checking|Unset Universe Checking'
    r'|bypass_check|Guard Checking|type-in-type|impredicative-set|Declare\s+Module|Declare\s+Instance')

# axioms of the standard library that a proof may depend on (none are expected)
ALLOWED_AXIOMS = set()


def strip_comments(text):
    """Removes (* ... *) comments the way Coq's lexer sees them: comments nest, and a string literal inside a comment is
    lexed as a string (so a `*)` inside it does not close the comment); outside comments `(*` inside a string is text."""
    out = []
    depth = 0
    i = 0
    instr = False      # inside a string literal outside comments
    cstr = False       # inside a string literal inside a comment
    n = len(text)
    while i < n:
        ch = text[i]
        if depth == 0:
            if instr:
                out.append(ch)
                if ch == '"':
                    instr = False
                i += 1
                continue
            if text.startswith('(*', i):
                depth = 1; i += 2; continue
            if ch == '"':
                instr = True
            out.append(ch)
            i += 1
            continue
        # inside a comment
        if cstr:
            if ch == '"':
                cstr = False
            i += 1
            continue
        if ch == '"':
            cstr = True; i += 1; continue
        if text.startswith('(*', i):
            depth += 1; i += 2; continue
        if text.startswith('*)', i):
            depth -= 1; i += 2; continue
        i += 1
    return ''.join(out)


def scan_forbidden():
    bad = []
    for root in ('theories', 'gen', 'extract'):
        for dp, _, fs in os.walk(os.path.join(paths.COQ, root)):
            for f in fs:
                if not f.endswith('.v'):
                    continue
                p = os.path.join(dp, f)
                text = strip_comments(open(p, encoding='utf-8', errors='replace').read())
                # string literals may legitimately contain the words: drop them
                text = re.sub(r'"(?:[^"]|"")*"', '""', text)
                for m in FORBIDDEN.finditer(text):
                    line = text.count('\n', 0, m.start()) + 1
                    bad.append('%s:%d: %s' % (os.path.relpath(p, paths.COQ), line, m.group(0)))
                # Variable/Hypothesis outside a section
                depth = 0
                for ln, l in enumerate(text.split('\n'), 1):
                    if re.match(r'\s*Section\b', l):
                        depth += 1
                    elif re.match(r'\s*End\b', l) and depth:
                        depth -= 1
                    elif depth == 0 and re.search(r'(^|\.\s+)\s*(Variable|Variables|Hypothesis|Hypotheses|Context)\b', l):
                        bad.append('%s:%d: %s outside a section' % (os.path.relpath(p, paths.COQ), ln, l.strip()))
    return bad


_CACHE = {}


def continuations(prop):
    """Props/<prop>b.v, <prop>c.v, ...: theorems of the same property that need proof files which depend on Props/<prop>.v"""
    if not re.fullmatch(r'C\d\d', prop):
        return []
    d = os.path.join(paths.COQ, 'theories', 'Props')
    return sorted(f[:-2] for f in os.listdir(d) if re.fullmatch(re.escape(prop) + r'[b-z]\.v', f))


def check_property(prop):
    """Props/<prop>.v plus every continuation Props/<prop>[b-z].v.
    -> dict(ok, obligations, discharged, theorems, assumptions, errors, checker_cmd)"""
    res = dict(check_one(prop))
    for k in ('theorems', 'errors', 'assumptions'):
        res[k] = list(res[k])
    for cont in continuations(prop):
        more = check_one(cont)
        res['ok'] = res['ok'] and more['ok']
        for k in ('obligations', 'discharged'):
            res[k] += more[k]
        for k in ('theorems', 'errors'):
            res[k] += more[k]
        res['assumptions'] = sorted(set(res['assumptions']) | set(more['assumptions']))
        res['checker_cmd'] += ' ; ' + more['checker_cmd']
        if not res['ok']:
            res['discharged'] = 0
    return res


def check_one(prop):
    if prop not in _CACHE:
        _CACHE[prop] = _check_one(prop)
    return _CACHE[prop]


def _check_one(prop):
    rel = 'theories/Props/%s.v' % prop
    src = os.path.join(paths.COQ, rel)
    res = dict(ok=False, obligations=0, discharged=0, theorems=[], assumptions=[], errors=[],
               checker_cmd='make -C coq %so && coqc %s (Print Assumptions) ; forbidden-token scan' % (rel, rel))
    if not os.path.exists(src):
        res['errors'].append('missing ' + rel)
        return res
    text = strip_comments(open(src).read())
    thms = re.findall(r'^\s*(?:Theorem|Lemma|Corollary|Example)\s+([A-Za-z0-9_\']+)', text, re.M)
    pins = re.findall(r'^\s*Check\s+([A-Za-z0-9_\']+)\s*:', text, re.M)
    res['theorems'] = thms
    res['obligations'] = len(thms)
    bad = scan_forbidden()
    if bad:
        res['errors'] += ['forbidden: ' + b for b in bad]
    try:
        build.coq([rel + 'o'])
    except build.BuildError as e:
        res['errors'].append('proof obligations do not compile:\n' + e.output[-3000:])
        return res
    # re-run coqc on the statement file to capture Print Assumptions
    # (output goes to a scratch file: rewriting Props/*.vo in place would force rebuilds of what depends on it)
    scratch = os.path.join(paths.CACHE, 'pa-%d' % os.getpid())
    os.makedirs(scratch, exist_ok=True)
    p = subprocess.run(['timeout', '1800', 'coqc', '-Q', 'theories', 'CG', '-Q', 'gen', 'CGgen', '-o', os.path.join(scratch, prop + '.vo'), rel],
                       cwd=paths.COQ, stdout=subprocess.PIPE, stderr=subprocess.STDOUT, env=build.clean_env())
    import shutil
    shutil.rmtree(scratch, ignore_errors=True)
    out = p.stdout.decode('utf-8', 'replace')
    if p.returncode != 0:
        res['errors'].append('coqc failed on %s:\n%s' % (rel, out[-3000:]))
        return res
    closed = out.count('Closed under the global context')
    axioms = []
    for blk in re.findall(r'Axioms:\n((?:.+\n?)+?)(?:\n|$)', out):
        for m in re.finditer(r'^([A-Za-z0-9_.\']+)\s*:', blk, re.M):
            axioms.append(m.group(1))
    res['assumptions'] = sorted(set(axioms))
    extra = [a for a in axioms if a not in ALLOWED_AXIOMS]
    if extra:
        res['errors'].append('axioms outside the allow-list: ' + ', '.join(sorted(set(extra))))
    npa = len(re.findall(r'^\s*Print Assumptions', text, re.M))
    if npa < len(thms):
        res['errors'].append('%d theorems but only %d Print Assumptions' % (len(thms), npa))
    if closed != npa:
        res['errors'].append('%d Print Assumptions but %d of them answer "Closed under the global context"' % (npa, closed))
    for t in thms:
        if t not in pins and not t.startswith('ex_'):
            res['errors'].append('theorem %s is not pinned by a Check' % t)
    if not res['errors']:
        res['ok'] = True
        res['discharged'] = len(thms)
    res['closed_count'] = closed
    return res


def coqchk(prop):
    """Independent re-check of the compiled closure of Props/<prop>.v (and <prop>b.v) with coqchk -o.
    -> dict(ok, axioms, summary)"""
    mods = ['CG.Props.' + prop]
    if os.path.exists(os.path.join(paths.COQ, 'theories', 'Props', prop + 'b.v')):
        mods.append('CG.Props.' + prop + 'b')
    p = subprocess.run(['timeout', '3000', 'coqchk', '-silent', '-o', '-Q', 'theories', 'CG', '-Q', 'gen', 'CGgen'] + mods,
                       cwd=paths.COQ, stdout=subprocess.PIPE, stderr=subprocess.STDOUT)
    out = p.stdout.decode('utf-8', 'replace')
    m = re.search(r'\* Axioms:(.*?)\n\s*\n\* Constants', out, re.S)
    axioms = m.group(1).strip() if m else '?'
    clean = all(('* %s: <none>' % k) in out or ('%s: <none>' % k) in out for k in
                ('Axioms', 'Constants/Inductives relying on type-in-type', 'Constants/Inductives relying on unsafe (co)fixpoints',
                 'Inductives whose positivity is assumed'))
    return dict(ok=(p.returncode == 0 and clean), axioms=axioms, summary=out[-1200:])
