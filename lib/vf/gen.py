"""Grammar generation and printing in .usage syntax.

Source-level trees (Python tuples):
  ('lit', text, descr|None)   ('nt', name)   ('cmd', text)
  ('seq', [e..])  ('alt', [e..])  ('fb', [e..])  ('opt', e)  ('many', e)
  ('sub', [e..])              within-word juxtaposition of >= 2 factors
  ('dd', e, descr)            parenthesised/any expression followed by a description
A grammar is a list of statements:
  ('call', name, e)   ('def', name, shell|None, e)
"""
import itertools

REGULAR = set('abcdefghijklmnopqrstuvwxyzABCDEFGHIJKLMNOPQRSTUVWXYZ0123456789' "!#$%&'*+,-/:=?@^_`~")
ESCAPABLE = set('()[]<>|;"{}\\.')

PREC = {'fb': 0, 'alt': 1, 'seq': 2, 'dd': 3, 'sub': 3, 'many': 4, 'lit': 5, 'nt': 5, 'cmd': 5, 'opt': 5}


def spell_literal(text, first_in_statement_context=False):
    """Shortest spelling: regular characters plain, specials backslash-escaped; dots plain (the
    caller must not generate three dots in a row unescaped: they are escaped from the third on)."""
    out = []
    run = 0
    for ch in text:
        if ch == '.':
            run += 1
            if run >= 3:
                out.append('\\.')
                run = 0
            else:
                out.append('.')
            continue
        run = 0
        if ch in REGULAR:
            out.append(ch)
        elif ch in ESCAPABLE:
            out.append('\\' + ch)
        else:
            raise ValueError('character %r cannot occur in a literal' % ch)
    s = ''.join(out)
    if s.endswith('.') and not s.endswith('\\.'):
        # a trailing plain dot could merge with a following "..." operator
        s = s[:-1] + '\\.'
    return s


def spell_descr(d):
    return '"' + d.replace('\\', '\\\\').replace('"', '\\"') + '"'


def show(e, ctx=0):
    k = e[0]
    p = PREC[k]
    if k == 'lit':
        s = spell_literal(e[1])
        if s.startswith('#'):
            s = s  # '#' starts a comment only after blanks; the printer never puts a literal there unescaped
        if e[2] is not None:
            s += ' ' + spell_descr(e[2])
    elif k == 'nt':
        s = '<' + e[1] + '>'
    elif k == 'cmd':
        s = '{{{ ' + e[1] + ' }}}'
    elif k == 'opt':
        s = '[' + show(e[1], 0) + ']'
    elif k == 'many':
        s = show(e[1], 5) + '...'
    elif k == 'sub':
        s = ''.join(show(c, 4) for c in e[1])
    elif k == 'dd':
        s = show(e[1], 4) + ' ' + spell_descr(e[2])
    elif k == 'seq':
        s = ' '.join(show(c, 3) for c in e[1])
    elif k == 'alt':
        s = ' | '.join(show(c, 2) for c in e[1])
    elif k == 'fb':
        s = ' || '.join(show(c, 1) for c in e[1])
    else:
        raise ValueError(k)
    if p < ctx:
        return '(' + s + ')'
    return s


def show_statement(st):
    if st[0] == 'call':
        if st[2] is None:
            return st[1] + ';'
        return st[1] + ' ' + show(st[2]) + ';'
    name = st[1] if st[2] is None else st[1] + '@' + st[2]
    return '<' + name + '> ::= ' + show(st[3]) + ';'


def show_grammar(stmts):
    return '\n'.join(show_statement(s) for s in stmts) + '\n'


# ---------------------------------------------------------------------------------------------
# exhaustive enumeration of small trees

def trees(n, leaves, ops=('seq', 'alt', 'fb', 'opt', 'many'), allow_sub=False):
    """All trees with exactly n nodes over the given leaves (tuples)."""
    memo = {}

    def go(k):
        if k in memo:
            return memo[k]
        out = []
        if k == 1:
            out = list(leaves)
        else:
            for op in ops:
                if op in ('opt', 'many'):
                    for c in go(k - 1):
                        if op == 'many' and c[0] == 'many':
                            continue
                        out.append((op, c))
                else:
                    # binary only, associativity broken by forbidding same op on the left
                    for a in range(1, k - 1):
                        for l in go(a):
                            if l[0] == op:
                                continue
                            for r in go(k - 1 - a):
                                cs = [l] + (list(r[1]) if r[0] == op else [r])
                                out.append((op, cs))
            if allow_sub:
                for a in range(1, k - 1):
                    for l in go(a):
                        if l[0] in ('sub', 'seq', 'alt', 'fb', 'dd'):
                            continue
                        for r in go(k - 1 - a):
                            if r[0] in ('seq', 'alt', 'fb', 'dd'):
                                continue
                            fs = [l] + (list(r[1]) if r[0] == 'sub' else [r])
                            if any(x[0] == 'lit' and y[0] == 'lit' for x, y in zip(fs, fs[1:])):
                                continue
                            out.append(('sub', fs))
        memo[k] = out
        return out

    return go(n)


def trees_upto(n, leaves, **kw):
    return list(itertools.chain.from_iterable(trees(k, leaves, **kw) for k in range(1, n + 1)))


# ---------------------------------------------------------------------------------------------
# random grammars

class Gen:
    """Random grammar generator; every choice comes from the given random.Random."""

    def __init__(self, rng, lits=None, descrs=None, cmds=None, names=None,
                 p_descr=0.2, p_sub=0.15, p_cmd=0.1, p_nt=0.15, p_fb=0.15, max_depth=4,
                 sub_lits=None):
        self.r = rng
        self.lits = lits or ['a', 'b', 'c', 'foo', 'bar', '--opt', '-x', 'add', 'rm']
        self.descrs = descrs or ['d1', 'd2', 'some description']
        self.cmds = cmds or ['echo x', 'echo y z', 'printf "q\\n"']
        self.names = names or ['A', 'B', 'C', 'D']
        self.sub_lits = sub_lits or ['--k=', 'x', 'y', 'zz', ':', '-', 'p']
        self.p_descr, self.p_sub, self.p_cmd, self.p_nt, self.p_fb = p_descr, p_sub, p_cmd, p_nt, p_fb
        self.max_depth = max_depth

    def leaf(self, in_sub=False):
        r = self.r
        x = r.random()
        if not in_sub and x < self.p_sub:
            return self.subword()
        if x < self.p_sub + self.p_cmd:
            return ('cmd', r.choice(self.cmds))
        if x < self.p_sub + self.p_cmd + self.p_nt:
            return ('nt', r.choice(self.names + ['UNDEF', '_']))
        d = r.choice(self.descrs) if (not in_sub and r.random() < self.p_descr) else None
        return ('lit', r.choice(self.sub_lits if in_sub else self.lits), d)

    def subword(self):
        r = self.r
        n = r.choice([2, 2, 3])
        fs = []
        for i in range(n):
            last = i == n - 1
            x = r.random()
            if x < 0.45 and not (fs and fs[-1][0] == 'lit'):
                fs.append(('lit', r.choice(self.sub_lits), None))
            elif x < 0.75:
                alts = [('lit', t, None) for t in r.sample(self.sub_lits, r.choice([2, 2, 3]))]
                op = 'fb' if r.random() < 0.2 else 'alt'
                fs.append((op, alts))
            elif x < 0.85 and last:
                fs.append(('nt', r.choice(self.names + ['UNDEF'])))
            elif x < 0.93 and last:
                fs.append(('cmd', r.choice(self.cmds)))
            elif x < 0.97:
                fs.append(('opt', ('lit', r.choice(self.sub_lits), None)))
            else:
                fs.append(('lit', r.choice(self.sub_lits), None) if not (fs and fs[-1][0] == 'lit') else ('alt', [('lit', 'm', None), ('lit', 'n', None)]))
        if sum(1 for f in fs) < 2:
            fs.append(('alt', [('lit', 'u', None), ('lit', 'v', None)]))
        return ('sub', fs)

    def expr(self, depth=0):
        r = self.r
        if depth >= self.max_depth or r.random() < 0.3:
            return self.leaf()
        x = r.random()
        if x < 0.3:
            return ('seq', [self.expr(depth + 1) for _ in range(r.choice([2, 2, 3]))])
        if x < 0.55:
            return ('alt', [self.expr(depth + 1) for _ in range(r.choice([2, 2, 3]))])
        if x < 0.55 + self.p_fb:
            return ('fb', [self.expr(depth + 1) for _ in range(r.choice([2, 2, 3]))])
        if x < 0.8:
            return ('opt', self.expr(depth + 1))
        if x < 0.9:
            c = self.expr(depth + 1)
            return ('many', c) if c[0] != 'many' else c
        if x < 0.95:
            return ('dd', self.expr(depth + 1), r.choice(self.descrs))
        return self.leaf()

    def grammar(self, ndefs=None, cmd='cmd', nvariants=1, acyclic=True, shells=('bash', 'fish', 'zsh', 'pwsh'),
                p_spec=0.2):
        r = self.r
        ndefs = r.choice([0, 0, 1, 2, 3]) if ndefs is None else ndefs
        names = self.names[:ndefs]
        stmts = []
        for _ in range(nvariants):
            stmts.append(('call', cmd, self.expr()))
        defs = []
        for i, n in enumerate(names):
            saved = self.names
            if acyclic:
                self.names = names[i + 1:] or ['UNDEF']
            if r.random() < p_spec:
                defs.append(('def', n, r.choice(shells), ('cmd', r.choice(self.cmds))))
                if r.random() < 0.5:
                    defs.append(('def', n, None, ('cmd', r.choice(self.cmds))))
            else:
                defs.append(('def', n, None, self.expr(1)))
            self.names = saved
        r.shuffle(defs)
        return stmts + defs


def normalize(e):
    """Make a generated tree printable as what the parser would return for it: flatten nested
    same-operator nodes and merge adjacent description-less literals inside a word."""
    k = e[0]
    if k in ('seq', 'alt', 'fb'):
        cs = []
        for c in e[1]:
            c = normalize(c)
            if c[0] == k:
                cs.extend(c[1])
            else:
                cs.append(c)
        return (k, cs) if len(cs) > 1 else cs[0]
    if k in ('opt', 'many'):
        c = normalize(e[1])
        if k == 'many' and c[0] == 'many':
            return c
        return (k, c)
    if k == 'dd':
        c = normalize(e[1])
        if c[0] == 'lit' and c[2] is None:
            return ('lit', c[1], e[2])
        return ('dd', c, e[2])
    if k == 'sub':
        fs = []
        for c in e[1]:
            c = normalize(c)
            if c[0] == 'sub':
                fs.extend(c[1])
            else:
                fs.append(c)
        return ('sub', fs)
    return e
