"""Shared by the C01 and C09 checks: grammar generators aimed at (or just around) C01's domain,
vocabulary extraction from Rust's validated tree, the extracted Spec/Meaning.v oracle, real bash.

Source trees are those of gen.py.  Commands are probes (bashrun.probe) with fixed output; the
environment handed to Meaning maps the command text (as it appears in the validated tree) to
its output lines."""
import itertools

from . import bashrun, gen, sexp
from .sexp import Q

DEFAULT_WB = ' \t\n"\'@><=;|&(:'
FOREIGN = 'zz9'

TOP_LITS = ['a', 'b', 'c', 'ab', 'add', 'rm', '--opt', '-x', 'foo', 'bar']
DESCRS = ['d1', 'some description', 'D']
TOP_OUTS = ['P1', 'P2x', 'Q', 'P1\tdescribed', 'R:s', 'S=t']
SUB_HEADS = ['--k=', 'p:', '-o', 'v']
SUB_VALS = ['x', 'y', 'zz', 'q1', 'w']
SUB_OUTS = ['K1', 'K2', 'M', 'M\twith descr', 'N=1']


# ------------------------------------------------------------------------------------------
# generators

class Probes:
    """Allocates probe commands; remembers the output of each command text."""

    def __init__(self):
        self.outs = {}      # stripped command text -> output lines

    def new(self, outs):
        k = len(self.outs) + 1
        text = bashrun.probe(k, outs)
        self.outs[text.strip()] = list(outs)
        return ('cmd', text)

    def env(self):
        return [[Q(t)] + [Q(o) for o in outs] for t, outs in self.outs.items()]


def exhaustive_leaves(pr):
    return [('lit', 'a', None), ('lit', 'b', None), ('nt', 'U'),
            pr.new(['c1', 'c2\tdescr']),
            ('sub', [('lit', '--k=', None), ('alt', [('lit', 'x', None), ('lit', 'y', None)])])]


def exhaustive_family(n):
    """All trees with <= n nodes over two literals, one undefined nonterminal, one probe and one
    two-piece within-word expression (each counted as one node)."""
    pr = Probes()
    leaves = exhaustive_leaves(pr)
    out = []
    for t in gen.trees_upto(n, leaves):
        out.append(([('call', 'cmd', t)], pr))
    return out


def targeted_family():
    """Grammars aimed at the clauses of the specification, each with the queries that tell the
    clause apart: which item reads a word when several kinds of items are expected at one point
    (literal first, catch-all last), under | and under ||; word-break stripping with the same
    break character twice.  -> (pairs of kinds, others), lists of (statements, probes, forced queries)"""
    out = []

    def item(pr, k, n):
        if k == 'lit':
            return ('lit', ['ab', 'cq'][n], None)
        if k == 'sub':
            return ('sub', [('lit', ['a', 'c'][n], None), ('alt', [('lit', t, None) for t in (['b', 'c'], ['q', 'r'])[n]])])
        if k == 'cmd':
            return pr.new([['ab', 'cq'], ['ac', 'zz1']][n])
        return ('nt', ['U', 'V'][n])
    words = ['ab', 'ac', 'cq', 'cr', 'zz1', FOREIGN, 'a', 'c']
    for k1 in ('lit', 'sub', 'cmd', 'any'):
        for k2 in ('lit', 'sub', 'cmd', 'any'):
            if k1 == 'any' and k2 == 'any':
                continue
            for op in ('alt', 'fb'):
                pr = Probes()
                e = ('seq', [(op, [('seq', [item(pr, k1, 0), ('lit', 'x', None)]), ('seq', [item(pr, k2, 1), ('lit', 'y', None)])]),
                             ('lit', 'end', None)])
                qs = [([w], '') for w in words] + [([], p) for p in ('', 'a', 'c', 'ab', 'cq')] + [(['ab', 'x'], ''), (['cq', 'y'], 'e')]
                out.append(([('call', 'cmd', e)], pr, qs))
    pairs, out = out, []

    # || inside a word, and the two tiers
    def lit(t):
        return ('lit', t, None)
    pr = Probes()
    e = ('alt', [('sub', [lit('--k='), ('fb', [lit('x'), lit('y')])]),
                 ('sub', [lit('p:'), ('fb', [lit('q1'), ('alt', [lit('w'), lit('zz')]), lit('y')])])])
    out.append(([('call', 'cmd', e)], pr, [([], p) for p in ('--k=', '--k=x', '--k=y', 'p:', 'p:z', 'p:y', 'p:q')]))
    pr = Probes()
    e = ('seq', [('fb', [lit('add'), ('sub', [lit('--k='), ('fb', [lit('x'), lit('y')])]), pr.new(['P1', '--z'])]), lit('end')])
    out.append(([('call', 'cmd', e)], pr, [([], p) for p in ('', 'a', '-', '--', '--k=', '--k=y', '--z', 'P')] + [(['--k=y'], '')]))
    pr = Probes()
    e = ('sub', [lit('v'), ('fb', [pr.new(['K1', 'K2']), lit('x')]), ('opt', ('sub', [lit(','), ('fb', [lit('m'), lit('n')])]))])
    out.append(([('call', 'cmd', e)], pr, [([], p) for p in ('v', 'vK', 'vx', 'vK1', 'vK1,', 'vK1,n', 'vx,')] + [(['vK1,n'], '')]))
    # word breaks: the same break character twice in the typed word
    pr = Probes()
    e = ('seq', [('sub', [('lit', 'a:', None), ('alt', [('lit', 'b', None), ('lit', 'c', None)]), ('lit', ':', None),
                          ('alt', [('lit', 'd', None), ('lit', 'e', None)])]), ('lit', 'f', None)])
    out.append(([('call', 'cmd', e)], pr, [([], p) for p in ('a:', 'a:b', 'a:b:', 'a:b:d', 'a:c:e')] + [(['a:b:d'], '')]))
    pr = Probes()
    e = ('alt', [('lit', 'x=y=z', None), ('lit', 'x=y=w', None), pr.new(['k=1=2', 'k=1:3'])])
    out.append(([('call', 'cmd', e)], pr, [([], p) for p in ('x=', 'x=y', 'x=y=', 'k=1', 'k=1=', 'k=1:')]))
    return pairs, out


def shape_family():
    """Within-word expressions with the same transition shape but different accepting sets in one
    grammar (optional tail `P[Q]` against mandatory tail `R<D>` / `R(S|S')`), two or three such
    words per grammar, in both orders.  bash.rs groups within-word automata by shape into one
    shared function; whatever is specific to one automaton (its accepting states) must stay in the
    per-automaton wrapper.  Every grammar comes with queries that have such a word before the
    cursor (complete `P`, `PQ`, `R`, `RS`) and under the cursor.
    -> list of (statements, probes, forced queries)"""
    def lit(t):
        return ('lit', t, None)

    def opt_tail(p, qs):            # P[Q] / P[Q|Q']
        tail = lit(qs[0]) if len(qs) == 1 else ('alt', [lit(q) for q in qs])
        return ('sub', [lit(p), ('opt', tail)])

    def nt_tail(r, name):           # R<D>
        return ('sub', [lit(r), ('nt', name)])

    def alt_tail(r, ss):            # R(S|S')
        return ('sub', [lit(r), ('alt', [lit(x) for x in ss])])

    out = []

    def add(branches, defs, words):
        # branches: list of (within-word expression, literal that follows it)
        for order in (branches, list(reversed(branches))):
            e = ('alt', [('seq', [w, lit(nxt)]) for w, nxt in order])
            qs = [([w], '') for w in words] + [([], w) for w in words] + [([], '')]
            out.append(([('call', 'cmd', e)] + defs, Probes(), qs))

    d_def = [('def', 'D', None, lit('d'))]
    add([(opt_tail('a', ['b']), 'x'), (nt_tail('c', 'D'), 'y')], d_def, ['a', 'ab', 'c', 'cd'])
    add([(opt_tail('a', ['b', 'f']), 'x'), (alt_tail('c', ['d', 'e']), 'y')], [], ['a', 'ab', 'af', 'c', 'cd', 'ce'])
    add([(opt_tail('a', ['b']), 'x'), (nt_tail('c', 'D'), 'y'), (opt_tail('g', ['h']), 'z')], d_def,
        ['a', 'ab', 'c', 'cd', 'g', 'gh'])
    add([(alt_tail('c', ['d', 'e']), 'y'), (opt_tail('a', ['b', 'f']), 'x'), (alt_tail('g', ['h', 'i']), 'z')], [],
        ['a', 'af', 'c', 'ce', 'g', 'gi'])
    return out


def greedy_family():
    """A literal and an undefined nonterminal (or a command) expected at the same point inside a
    word: the script's within-word matcher is greedy (first literal that begins the rest, no
    backtracking), the text says the nonterminal matches anything.  -> list of (statements, probes, forced queries)"""
    def lit(t):
        return ('lit', t, None)
    out = []
    e = ('seq', [('sub', [lit('--x='), ('alt', [lit('abc'), ('nt', 'U')])]), lit('z')])
    out.append(([('call', 'cmd', e)], Probes(),
                [(['--x=abcd'], ''), (['--x=abc'], ''), (['--x=q'], ''), (['--x=ab'], ''), ([], '--x=a'), ([], '--x=abcd'), ([], '')]))
    e = ('alt', [('seq', [('sub', [lit('k:'), ('alt', [lit('on'), lit('off'), ('nt', 'V')])]), lit('y')]), lit('w')])
    out.append(([('call', 'cmd', e)], Probes(),
                [(['k:one'], ''), (['k:on'], ''), (['k:offer'], ''), (['k:x'], ''), ([], 'k:o'), ([], 'k:')]))
    pr = Probes()
    e = ('seq', [('sub', [lit('p='), ('fb', [lit('ab'), ('nt', 'U')])]), lit('z')])
    out.append(([('call', 'cmd', e)], pr, [(['p=abc'], ''), (['p=ab'], ''), (['p=q'], ''), ([], 'p=')]))
    return out


def level_shape_family():
    """Within-word expressions with the same automaton shape and the same number of || levels but
    the || placed differently (`P(a | b || c)` against `Q(d || e | f)`): whatever table is shared
    between same-shaped automata must not include the per-level candidate tables.
    -> list of (statements, probes, forced queries)"""
    def lit(t):
        return ('lit', t, None)
    out = []

    def word(p, groups):            # P(g1 || g2 || ...), each group an alternative of values
        branches = [lit(g[0]) if len(g) == 1 else ('alt', [lit(v) for v in g]) for g in groups]
        return ('sub', [lit(p), branches[0] if len(branches) == 1 else ('fb', branches)])

    def add(words):                 # words: list of (prefix, groups)
        for order in (words, list(reversed(words))):
            e = ('alt', [('seq', [word(p, gs), lit('n%d' % i)]) for i, (p, gs) in enumerate(order)])
            qs = [([], '')]
            for p, gs in order:
                qs.append(([], p))
                for g in gs:
                    for v in g:
                        qs.append(([], p + v[:1]))
                        qs.append(([p + v], ''))
            out.append(([('call', 'cmd', e)], Probes(), qs))

    add([('--x=', [['a', 'b'], ['cc']]), ('--y=', [['d'], ['ee', 'f']])])
    add([('--x=', [['a'], ['b'], ['cc', 'g']]), ('--y=', [['d', 'h'], ['ee'], ['f']]), ('--z=', [['i'], ['j', 'k'], ['l']])])
    add([('p:', [['a', 'b', 'c']]), ('q:', [['d'], ['e', 'f']]), ('r:', [['g', 'h'], ['i']])])
    return out


def descr_family():
    """The same literal text carrying different descriptions at DIFFERENT points of the grammar
    (never two labels at one point, so inside C01's domain): the emitted literal list is keyed by
    (text, description), so one text occupies several ids and the word matcher must try all of
    them.  Top-level and inside words, two and three ids, in both orders.
    -> list of (statements, probes, forced queries)"""
    def lit(t, d=None):
        return ('lit', t, d)
    out = []

    def add(branches, words_seqs):
        for order in (branches, list(reversed(branches))):
            e = ('alt', [('seq', list(b)) for b in order])
            qs = []
            for ws in words_seqs:
                for k in range(len(ws) + 1):
                    qs.append((list(ws[:k]), ''))
                    if k < len(ws):
                        qs.append((list(ws[:k]), ws[k][:1]))
            out.append(([('call', 'cmd', e)], Probes(), qs))

    add([[lit('p'), lit('a', 'first'), lit('x')], [lit('q'), lit('a', 'second'), lit('y')]],
        [['p', 'a', 'x'], ['q', 'a', 'y'], ['p', 'a', 'y']])
    add([[lit('p'), lit('a', 'first'), lit('x')], [lit('q'), lit('a', 'second'), lit('y')], [lit('r'), lit('a'), lit('z')]],
        [['p', 'a', 'x'], ['q', 'a', 'y'], ['r', 'a', 'z']])
    add([[lit('p'), lit('a'), lit('x')], [lit('q'), lit('a', 'D'), lit('y')], [lit('r'), lit('a', 'E'), lit('a', 'D'), lit('z')]],
        [['p', 'a', 'x'], ['q', 'a', 'y'], ['r', 'a', 'a', 'z']])
    # the same inside words: one within-word literal text with two descriptions in two words
    add([[('sub', [lit('--p='), ('alt', [lit('v', 'first'), lit('w')])]), lit('x')],
         [('sub', [lit('--q='), ('alt', [lit('v', 'second'), lit('u')])]), lit('y')]],
        [['--p=v', 'x'], ['--q=v', 'y'], ['--p=w', 'x'], ['--q=u', 'y']])
    return out


class RGen:
    """Random grammars biased to stay inside C01's domain: per-text descriptions are consistent,
    within-word literal sets are prefix-free, probe outputs come from alphabets disjoint from the
    literals (a small share deliberately does not, to exercise the literal priority)."""

    def __init__(self, rng, max_depth=3, p_fb=0.2):
        self.r = rng
        self.pr = Probes()
        self.max_depth = max_depth
        self.p_fb = p_fb
        self.descr_of = {}
        self.names = []

    def lit(self):
        r = self.r
        t = r.choice(TOP_LITS)
        if t not in self.descr_of:
            self.descr_of[t] = r.choice(DESCRS) if r.random() < 0.25 else None
        return ('lit', t, self.descr_of[t])

    def probe(self, pool):
        r = self.r
        outs = r.sample(pool, r.choice([1, 2, 2, 3]))
        # two lines with the same candidate text would be the same candidate: keep one
        seen, keep = set(), []
        for o in outs:
            c = o.split('\t')[0]
            if c not in seen:
                seen.add(c)
                keep.append(o)
        if pool is TOP_OUTS and r.random() < 0.08:
            keep.append(r.choice(TOP_LITS))
        return self.pr.new(keep)

    def vals(self):
        r = self.r
        vs = r.sample(SUB_VALS, r.choice([1, 2, 2, 3]))
        alts = [('lit', v, None) for v in vs]
        if len(alts) == 1:
            return alts[0]
        return ('fb' if r.random() < 0.3 else 'alt', alts)

    def subword(self):
        r = self.r
        head = ('lit', r.choice(SUB_HEADS), None)
        x = r.random()
        if x < 0.45:
            v = self.vals()
            fs = [head, v if v[0] != 'lit' else ('alt', [v, ('lit', 'u', None)])]
        elif x < 0.6:
            fs = [head, self.probe(SUB_OUTS)]
        elif x < 0.72:
            fs = [head, ('nt', r.choice(['UNDEF', '_']))]
        elif x < 0.84:
            sep = ('lit', r.choice([',', '+']), None)
            v = self.vals()
            if v[0] == 'lit':
                v = ('alt', [v, ('lit', 'u', None)])
            fs = [head, v, ('many', ('opt', ('sub', [sep, v])))]
        elif x < 0.92:
            v = self.vals()
            if v[0] == 'lit':
                v = ('alt', [v, ('lit', 'u', None)])
            fs = [head, ('opt', ('lit', '!', None)), v]
        else:
            v = self.vals()
            if v[0] == 'lit':
                v = ('alt', [v, ('lit', 'u', None)])
            fs = [head, v, ('lit', ':', None), self.vals_paren()]
        return ('sub', fs)

    def vals_paren(self):
        v = self.vals()
        if v[0] == 'lit':
            v = ('alt', [v, ('lit', 'u', None)])
        return v

    def leaf(self):
        r = self.r
        x = r.random()
        if x < 0.14:
            return self.subword()
        if x < 0.24:
            return self.probe(TOP_OUTS)
        if x < 0.34:
            return ('nt', r.choice(self.names + ['UNDEF', '_']))
        return self.lit()

    def expr(self, depth=0):
        r = self.r
        if depth >= self.max_depth or r.random() < 0.25:
            return self.leaf()
        x = r.random()
        if x < 0.3:
            return ('seq', [self.expr(depth + 1) for _ in range(r.choice([2, 2, 3]))])
        if x < 0.52:
            return ('alt', [self.expr(depth + 1) for _ in range(r.choice([2, 2, 3]))])
        if x < 0.52 + self.p_fb:
            return ('fb', [self.expr(depth + 1) for _ in range(r.choice([2, 2, 3]))])
        if x < 0.85:
            return ('opt', self.expr(depth + 1))
        if x < 0.95:
            c = self.expr(depth + 1)
            return ('many', c) if c[0] != 'many' else c
        return self.leaf()

    def grammar(self):
        r = self.r
        ndefs = r.choice([0, 0, 1, 2, 3])
        names = ['A', 'B', 'C'][:ndefs]
        defs = []
        # definitions may only refer to later names: acyclic by construction
        for i in reversed(range(ndefs)):
            self.names = names[i + 1:]
            defs.append(('def', names[i], None, self.expr(1)))
        self.names = names
        nvar = r.choice([1, 1, 1, 2])
        stmts = [('call', 'cmd', self.expr(0)) for _ in range(nvar)]
        r.shuffle(defs)
        g = stmts + defs
        if r.random() < 0.5:
            r.shuffle(g)
        return [normalize_stmt(s) for s in g]


def normalize_stmt(s):
    if s[0] == 'call':
        return ('call', s[1], gen.normalize(s[2]))
    return ('def', s[1], s[2], gen.normalize(s[3]))


# ------------------------------------------------------------------------------------------
# validated trees (Rust's CHECK stage), vocabulary

def check_expr(check_payload):
    """-> (expr s-expression, its text) of an accepted grammar's CHECK payload, else None."""
    sx = sexp.parse(check_payload)
    if sx[0] != 'ok':
        return None
    return sx[2]


def cut_tab(o):
    return o.split('\t')[0]


def words_of(e, outs, cap=12):
    """Some words of a within-word expression (validated tree), shortest first."""
    k = e[0]
    if k == 'lit':
        return [str(e[1])]
    if k == 'cmd':
        return [cut_tab(o) for o in outs.get(str(e[1]).strip(), [])]
    if k == 'nt':
        return ['ANY']
    if k == 'seq':
        acc = ['']
        for c in e[2:]:
            ws = words_of(c, outs, cap)
            acc = [a + w for a in acc for w in ws][:cap * 4]
        return sorted(set(acc), key=lambda w: (len(w), w))[:cap]
    if k in ('alt', 'fb'):
        acc = []
        for c in e[2:]:
            acc += words_of(c, outs, cap)
        return sorted(set(acc), key=lambda w: (len(w), w))[:cap]
    if k == 'opt':
        return [''] + words_of(e[2], outs, cap)
    if k == 'many':
        ws = words_of(e[2], outs, cap)
        two = [a + b for a in ws[:3] for b in ws[:3]]
        return sorted(set(ws + two), key=lambda w: (len(w), w))[:cap]
    if k == 'sub':
        return words_of(e[3], outs, cap)
    if k == 'dd':
        return words_of(e[3], outs, cap)
    raise ValueError(k)


def vocabulary(e, outs):
    """Words worth typing for the validated tree `e`: literals, command candidates, some words of
    every within-word expression, one foreign word."""
    voc = set()

    def go(x):
        k = x[0]
        if k == 'lit':
            voc.add(str(x[1]))
        elif k == 'cmd':
            for o in outs.get(str(x[1]).strip(), []):
                voc.add(cut_tab(o))
        elif k == 'nt':
            pass
        elif k == 'sub':
            for w in words_of(x[3], outs, 8):
                if w:
                    voc.add(w)
        elif k in ('seq', 'alt', 'fb'):
            for c in x[2:]:
                go(c)
        elif k in ('opt', 'many'):
            go(x[2])
        elif k == 'dd':
            go(x[3])
    go(e)
    voc.discard('')
    return sorted(voc) + [FOREIGN]


def tree_stats(e):
    """(has ||, has sub-word, has command, has any-word, number of leaves)"""
    st = dict(fb=False, sub=False, cmd=False, nt=False, leaves=0, maxlevel=0)

    def go(x):
        k = x[0]
        if k == 'lit':
            st['leaves'] += 1
            st['maxlevel'] = max(st['maxlevel'], int(x[3]))
        elif k == 'cmd':
            st['cmd'] = True
            st['leaves'] += 1
            st['maxlevel'] = max(st['maxlevel'], int(x[3]))
        elif k == 'nt':
            st['nt'] = True
            st['leaves'] += 1
        elif k == 'sub':
            st['sub'] = True
            go(x[3])
        elif k in ('seq', 'alt', 'fb'):
            if k == 'fb':
                st['fb'] = True
            for c in x[2:]:
                go(c)
        elif k in ('opt', 'many'):
            go(x[2])
        elif k == 'dd':
            go(x[3])
    go(e)
    return st


# ------------------------------------------------------------------------------------------
# the oracle (extracted Spec/Meaning.v)

def env_sx(outs):
    return sexp.dump([[Q(t)] + [Q(o) for o in lines] for t, lines in outs.items()])


def q_sx(queries):
    return sexp.dump([[[Q(w) for w in ws], Q(p)] for ws, p in queries])


def meaning_request(expr_text, outs, wb, queries):
    return 'meaning %s %s %s %s' % (expr_text, sexp.quote(wb), env_sx(outs), q_sx(queries))


def paths_request(expr_text, outs, maxlen, cap, vocab):
    return 'paths %s %s %d %d %s' % (expr_text, env_sx(outs), maxlen, cap, sexp.dump([Q(w) for w in vocab]))


def parse_meaning(line):
    """-> list of (None | (required set, allowed set), flags dict)"""
    out = []
    for r in sexp.parse(line):
        if r[0] == 'none':
            out.append((None, flags(r[1])))
        else:
            out.append(((set(str(x) for x in r[1]), set(str(x) for x in r[2])), flags(r[3])))
    return out


def flags(a):
    return dict(ambiguous=a[0] == '1', piece_boundary=a[1] == '1', last_word_escape=a[2] == '1',
                greedy_shadow=len(a) > 3 and a[3] == '1')


def judge(spec, got):
    """spec: None | (required, allowed); got: dict(rc, reply) from bashrun.  -> '' if it conforms,
    else a short description of the disagreement."""
    if got is None:
        return 'bash produced no answer (died or timed out)'
    if spec is None:
        if got['rc'] == 1 and not got['reply']:
            return ''
        return 'words cannot be matched (expected status 1, nothing offered) but bash returned %d %r' % (got['rc'], sorted(set(got['reply'])))
    req, allowed = spec
    if got['rc'] != 0:
        return 'expected status 0 with %r, bash returned status %d' % (sorted(req), got['rc'])
    reply = set(got['reply'])
    if not req <= reply:
        return 'missing candidates %r (bash offered %r)' % (sorted(req - reply), sorted(reply))
    if not reply <= allowed:
        return 'unexpected candidates %r (allowed %r)' % (sorted(reply - allowed), sorted(allowed))
    return ''
