"""Builds everything a check needs, incrementally, from /repo's current working tree:
translator (T3) -> Coq (make) -> extraction -> dune -> cargo (harness, complgen binary)."""
import fcntl
import os
import subprocess
import sys
import time

from . import paths

# variables through which the environment could pass options to coqc/make (-type-in-type, another coqc, ...) are dropped
_COQ_VARS = ('COQEXTRAFLAGS', 'COQFLAGS', 'COQLIBS', 'COQC', 'COQDEP', 'COQTOP', 'COQCHK', 'OPT', 'COQDOCEXTRAFLAGS',
             'COQMF_OTHERFLAGS', 'COQPATH', 'OCAMLPATH_EXTRA', 'MAKEFLAGS', 'MFLAGS')
ENV = {k: v for k, v in dict(os.environ, CARGO_NET_OFFLINE='true').items() if k not in _COQ_VARS}


def clean_env():
    return dict(ENV)


class BuildError(Exception):
    def __init__(self, step, output):
        Exception.__init__(self, step)
        self.step = step
        self.output = output


def run(step, cmd, cwd=None, timeout=3600, env=None):
    t0 = time.time()
    p = subprocess.run(cmd, cwd=cwd, env=env or ENV, stdout=subprocess.PIPE,
                       stderr=subprocess.STDOUT, timeout=timeout)
    out = p.stdout.decode('utf-8', 'replace')
    if p.returncode != 0:
        raise BuildError(step, out)
    return out, time.time() - t0


class Lock:
    def __enter__(self):
        os.makedirs(paths.CACHE, exist_ok=True)
        self.f = open(os.path.join(paths.CACHE, 'build.lock'), 'w')
        fcntl.flock(self.f, fcntl.LOCK_EX)
        return self

    def __exit__(self, *a):
        fcntl.flock(self.f, fcntl.LOCK_UN)
        self.f.close()


def translator():
    """T3: regenerate coq/gen/*.v from /repo/src (write-if-changed)."""
    out, _ = run('translator', [sys.executable, os.path.join(paths.ROOT, 'translator', 'rs2v.py'),
                                paths.REPO, os.path.join(paths.COQ, 'gen')])
    return out


def coq_makefile():
    mk = os.path.join(paths.COQ, 'Makefile')
    proj = os.path.join(paths.COQ, '_CoqProject')
    if not os.path.exists(mk) or os.path.getmtime(mk) < os.path.getmtime(proj):
        run('coq_makefile', ['coq_makefile', '-f', '_CoqProject', '-o', 'Makefile'], cwd=paths.COQ)


def coq(targets=None, timeout=3000):
    """Full .vo build of the given targets (default: everything)."""
    coq_makefile()
    cmd = ['timeout', str(timeout), 'make', '-j%d' % paths.NCPU]
    if targets:
        cmd += targets
    return run('coq', cmd, cwd=paths.COQ, timeout=timeout + 60)


def model_sources():
    out = []
    for d in ('theories/Base', 'theories/Model', 'theories/Spec', 'gen', 'extract'):
        p = os.path.join(paths.COQ, d)
        if os.path.isdir(p):
            out += [os.path.join(p, f) for f in os.listdir(p) if f.endswith('.v')]
    return out


def extraction():
    """Re-extract when any model source is newer than the last extraction, then dune build."""
    exdir = os.path.join(paths.OCAML, 'extracted')
    os.makedirs(exdir, exist_ok=True)
    stamp = os.path.join(paths.CACHE, 'extract.stamp')
    newest = max(os.path.getmtime(f) for f in model_sources())
    if not os.path.exists(stamp) or os.path.getmtime(stamp) < newest \
            or not os.path.exists(os.path.join(exdir, 'Ast.ml')):
        # the models must be compiled first
        deps = extract_deps()
        coq(deps)
        for f in os.listdir(exdir):
            if f.endswith('.ml') or f.endswith('.mli'):
                os.unlink(os.path.join(exdir, f))
        run('extraction', ['timeout', '600', 'coqc', '-Q', os.path.join(paths.COQ, 'theories'), 'CG',
                           '-Q', os.path.join(paths.COQ, 'gen'), 'CGgen',
                           os.path.join(paths.COQ, 'extract', 'Extract.v')], cwd=exdir)
        open(stamp, 'w').write('ok')
    run('dune', ['dune', 'build', './main.exe'], cwd=paths.OCAML)


def extract_deps():
    """.vo targets that Extract.v requires (read from its `From X Require Import M.` lines)."""
    import re
    deps = []
    text = open(os.path.join(paths.COQ, 'extract', 'Extract.v')).read()
    for m in re.finditer(r'^From (CG|CGgen) Require Import ([A-Za-z0-9_. ]+)\.\s*$', text, re.M):
        root, mods = m.group(1), m.group(2).split()
        for mod in mods:
            base = 'theories/' if root == 'CG' else 'gen/'
            deps.append(base + mod.replace('.', '/') + '.vo')
    return deps


def harness(release=False):
    """cg-dump built against paths.REPO.  harness/Cargo.toml names /repo; for another repository
    (VERIF_REPO=<scratch worktree>, used to try mutations without touching /repo) a copy of the
    harness with the path rewritten is built in its own target directory."""
    hdir, target = paths.HARNESS, paths.HARNESS_TARGET
    if os.path.realpath(paths.REPO) != '/repo':
        import hashlib
        import shutil
        tag = hashlib.sha1(os.path.realpath(paths.REPO).encode()).hexdigest()[:10]
        hdir = os.path.join(paths.CACHE, 'harness-' + tag)
        target = os.path.join(paths.CACHE, 'harness-target-' + tag)
        os.makedirs(os.path.join(hdir, 'src'), exist_ok=True)
        os.makedirs(os.path.join(hdir, '.cargo'), exist_ok=True)
        toml = open(os.path.join(paths.HARNESS, 'Cargo.toml')).read().replace('"/repo"', '"%s"' % os.path.realpath(paths.REPO))
        for rel, text in (('Cargo.toml', toml),
                          ('Cargo.lock', open(os.path.join(paths.HARNESS, 'Cargo.lock')).read()),
                          ('.cargo/config.toml', open(os.path.join(paths.HARNESS, '.cargo', 'config.toml')).read()),
                          ('src/main.rs', open(os.path.join(paths.HARNESS, 'src', 'main.rs')).read())):
            dst = os.path.join(hdir, rel)
            if not os.path.exists(dst) or open(dst).read() != text:
                open(dst, 'w').write(text)
    cmd = ['cargo', 'build', '--offline']
    if release:
        cmd.append('--release')
    env = dict(ENV, CARGO_TARGET_DIR=target)
    run('cargo-harness', cmd, cwd=hdir, env=env)
    return os.path.join(target, 'release' if release else 'debug', 'cg-dump')


def complgen(release=False):
    cmd = ['cargo', 'build', '--offline', '--bin', 'complgen',
           '--manifest-path', os.path.join(paths.REPO, 'Cargo.toml'),
           '--target-dir', repo_target()]
    if release:
        cmd.append('--release')
    run('cargo-complgen', cmd, cwd=paths.REPO)
    return os.path.join(repo_target(), 'release' if release else 'debug', 'complgen')


def repo_target():
    if os.path.realpath(paths.REPO) == '/repo':
        return paths.REPO_TARGET
    import hashlib
    return paths.REPO_TARGET + '-' + hashlib.sha1(os.path.realpath(paths.REPO).encode()).hexdigest()[:10]
