"""Canonical form of a dumped automaton up to the numbering of its states (the start-anchored
isomorphism is unique: states are renumbered in breadth-first order, transitions followed in
input-id order).  Inputs and within-word automata keep their order (it is deterministic)."""
from . import sexp


def canon_dfa(d):
    """d: parsed `(dfa (start s) (trans ...) (acc ...) (inputs ...) (subdfas ...))`"""
    start = int(d[1][1])
    trans = {}
    for row in d[2][1:]:
        trans[int(row[0])] = sorted((int(p[0]), int(p[1])) for p in row[1:])
    acc = set(int(x) for x in d[3][1:])
    inputs = [sexp.dump(x) for x in d[4][1:]]
    subs = [canon_dfa(x) for x in d[5][1:]]
    order = {start: 0}
    queue = [start]
    edges = []
    while queue:
        s = queue.pop(0)
        for i, t in trans.get(s, []):
            if t not in order:
                order[t] = len(order)
                queue.append(t)
            edges.append((order[s], i, order[t]))
    return (len(order), tuple(sorted(edges)), tuple(sorted(order[a] for a in acc if a in order)),
            tuple(inputs), tuple(subs))
