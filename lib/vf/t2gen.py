"""Generators for tie T2 and the checks built on it (C12, C17; reusable by C01/C09).

  g = GrammarGen(rng, nasty=False).make()   ->  g.text (.usage source), g.probes {k: [candidate lines]},
                                                g.vocab (words worth typing), g.tree (the call's expression)
  queries(rng, g, n)                        ->  [(words_before_cursor, prefix)]: sentences sampled from the grammar, cut at
                                                every position, the cut word shortened to each of its prefixes; plus lines
                                                with a foreign / swapped / dropped word, plus vocabulary soup

Grammars use literals, within-word expressions (a literal piece followed by an alternation (prefix chains
included), a `||` chain, a probe command, an undefined nonterminal, a repetition), probes at top level, `[]`, `...`,
`|`, `||`, definitions (nested, in shuffled order) and <X@bash> definitions (with decoys for other shells).
Probe candidates: plain words, words with spaces, tab-separated descriptions, `-n`/`-e`, empty lines, glob
characters (the last four only with nasty=True)."""
from . import bashrun, gen

LITS = ['a', 'ab', 'b', 'cd', '--x', '-y', 'foo', 'abc']
NASTY_LITS = ['*', 'a*', '?b', 'x[y', 'q]']
CANDS = ['ca', 'cb', 'cab', 'x1', 'a', 'ab', 'v', 'vw']
NASTY_CANDS = ['my file', 'a\tdesc', 'cab\tother', '-n', '-e', '', 'x*', 'q?', ' lead', 'ca b\tc', '12', '7', 'two\tsecond item\tthird', 't2\t\tx']
PREFIXES = ['--k=', 'p:', '-o', 'k=']
VALUES = ['v', 'w', 'xy', 'q', 'vw', 'vwx', 'x', 'a', 'ab', 'abc']


class G:
    pass


class GrammarGen:
    def __init__(self, rng, nasty=False, depth=None):
        self.rng = rng
        self.nasty = nasty
        self.probes = {}
        self.vocab = set(['zz'])
        self.defs = []
        self.depth = depth

    # --- leaves
    def cmd(self):
        r = self.rng
        k = len(self.probes) + 1
        pool = CANDS + (NASTY_CANDS if self.nasty else [])
        outs = r.sample(pool, r.randint(1, 3))
        self.probes[k] = outs
        for o in outs:
            self.vocab.add(o)
            self.vocab.add(o.split('\t')[0])
            self.vocab.add(o.strip(' ').split(' ')[0].split('\t')[0])
        return ('cmd', bashrun.probe(k, outs))

    def lit(self):
        l = self.rng.choice(LITS + (NASTY_LITS if self.nasty else []))
        self.vocab.add(l)
        d = None
        if self.rng.random() < 0.1:
            d = 'descr ' + l.replace('\\', '')
        return ('lit', l, d)

    def sub(self):
        r = self.rng
        pre = r.choice(PREFIXES)
        self.vocab.add(pre)
        kind = r.random()
        if kind < 0.45:
            vals = r.sample(VALUES, r.randint(1, 4))
            for v in vals:
                self.vocab.add(pre + v)
            op = 'fb' if r.random() < 0.3 else 'alt'
            inner = (op, [('lit', v, None) for v in vals]) if len(vals) > 1 else ('lit', vals[0], None)
            if inner[0] == 'lit':
                # two adjacent literals inside a word are rejected: wrap the single value
                inner = ('alt', [inner, ('lit', vals[0] + 'z', None)])
                self.vocab.add(pre + vals[0] + 'z')
            if r.random() < 0.15:
                inner = ('many', inner)
            return ('sub', [('lit', pre, None), inner])
        if kind < 0.75:
            c = self.cmd()
            k = len(self.probes)
            for o in self.probes[k]:
                self.vocab.add(pre + o.split('\t')[0])
            if r.random() < 0.25:
                vals = r.sample(VALUES, r.randint(1, 2))
                for v in vals:
                    self.vocab.add(pre + v)
                op = 'fb' if r.random() < 0.5 else 'alt'
                return ('sub', [('lit', pre, None), (op, [('lit', v, None) for v in vals] + [c])])
            if r.random() < 0.1:
                return ('sub', [('lit', pre, None), ('many', c)])
            return ('sub', [('lit', pre, None), c])
        self.vocab.add(pre + 'any')
        return ('sub', [('lit', pre, None), ('nt', 'U')])

    def ref(self, d):
        """a reference to a fresh definition (plain or @bash)"""
        r = self.rng
        name = 'D%d' % (len(self.defs) + 1)
        if r.random() < 0.4:
            c = self.cmd()
            self.defs.append(('def', name, 'bash', c))
            if r.random() < 0.5:
                self.defs.append(('def', name, r.choice(['fish', 'zsh']), ('cmd', 'echo decoy')))
            if r.random() < 0.3:
                self.defs.append(('def', name, None, ('cmd', 'echo plain_decoy')))
        else:
            self.defs.append(('def', name, None, None))     # reserve the slot (keeps numbering stable)
            slot = len(self.defs) - 1
            body = self.gen(max(0, d - 1))
            self.defs[slot] = ('def', name, None, body)
        return ('nt', name)

    def gen(self, d):
        r = self.rng
        if d == 0:
            k = r.random()
            if k < 0.5:
                return self.lit()
            if k < 0.68:
                return self.sub()
            if k < 0.85:
                return self.cmd()
            return ('nt', 'U')
        k = r.random()
        if k < 0.27:
            return ('alt', [self.gen(d - 1) for _ in range(r.randint(2, 3))])
        if k < 0.38:
            return ('fb', [self.gen(d - 1) for _ in range(r.randint(2, 3))])
        if k < 0.65:
            return ('seq', [self.gen(d - 1) for _ in range(r.randint(2, 3))])
        if k < 0.75:
            return ('opt', self.gen(d - 1))
        if k < 0.85:
            return ('many', self.gen(d - 1))
        if k < 0.93:
            return self.ref(d)
        return self.gen(0)

    def make(self):
        r = self.rng
        d = self.depth if self.depth is not None else r.randint(1, 3)
        tree = self.gen(d)
        tree = flatten(tree)
        stmts = [('call', 'cmd', tree)] + [(s[0], s[1], s[2], flatten(s[3])) for s in self.defs]
        r.shuffle(stmts)
        g = G()
        g.tree = tree
        g.defs = {s[1]: s[3] for s in stmts if s[0] == 'def' and (s[2] == 'bash' or
                                                                  (s[2] is None and not any(t[0] == 'def' and t[1] == s[1] and t[2] == 'bash' for t in stmts)))}
        g.stmts = stmts
        try:
            g.text = gen.show_grammar(stmts)
        except ValueError:
            return None
        g.probes = self.probes
        g.vocab = sorted(v for v in self.vocab if v != '')
        return g


def flatten(e):
    """same-operator children merged (the printer does not parenthesise them)"""
    k = e[0]
    if k in ('seq', 'alt', 'fb'):
        cs = []
        for c in e[1]:
            c = flatten(c)
            if c[0] == k:
                cs += list(c[1])
            else:
                cs.append(c)
        return (k, cs)
    if k in ('opt', 'many'):
        c = flatten(e[1])
        if k == 'many' and c[0] == 'many':
            return c
        return (k, c)
    if k == 'sub':
        return (k, [flatten(c) for c in e[1]])
    return e


def sample(rng, g, e, depth=0):
    """a sentence of the expression: list of words (within a word: list with one string)"""
    k = e[0]
    if k == 'lit':
        return [e[1]]
    if k == 'cmd':
        import re
        m = re.match(r'echo "(\d+)\x1e', e[1])
        if m:
            outs = g.probes[int(m.group(1))]
            o = rng.choice(outs)
            w = rng.choice([o.split('\t')[0], o.strip(' ').split(' ')[0].split('\t')[0]])
            return [w if w else 'zz']
        return ['zz']
    if k == 'nt':
        if e[1] in g.defs and depth < 6:
            return sample(rng, g, g.defs[e[1]], depth + 1)
        return ['zz']
    if k == 'seq':
        out = []
        for c in e[1]:
            out += sample(rng, g, c, depth)
        return out
    if k in ('alt', 'fb'):
        return sample(rng, g, rng.choice(e[1]), depth)
    if k == 'opt':
        return sample(rng, g, e[1], depth) if rng.random() < 0.6 else []
    if k == 'many':
        out = []
        for _ in range(rng.randint(1, 2)):
            out += sample(rng, g, e[1], depth)
        return out
    if k == 'sub':
        return [''.join(''.join(sample(rng, g, c, depth)) for c in e[1])]
    if k == 'dd':
        return sample(rng, g, e[1], depth)
    raise ValueError(k)


def queries(rng, g, n, foreign=('zz', 'ab', 'a', '--k=', 'q')):
    out = []
    seen = set()

    def add(ws, p):
        key = (tuple(ws), p)
        if key not in seen and len(out) < n:
            seen.add(key)
            out.append((list(ws), p))

    tries = 0
    while len(out) < n and tries < 6:
        tries += 1
        s = sample(rng, g, g.tree)[:5]
        # every cut position x every prefix of the cut word
        for i in range(len(s) + 1):
            if i < len(s):
                w = s[i]
                ps = list(range(len(w) + 1))
                if len(ps) > 4:
                    ps = sorted(set([0, 1, len(w) - 1, len(w)] + rng.sample(ps, 2)))
                for j in ps:
                    add(s[:i], w[:j])
            else:
                add(s, '')
                add(s, rng.choice(g.vocab)[:rng.randint(0, 3)])
        # mutations: foreign word inserted, word dropped, word replaced by a vocabulary item
        if s:
            i = rng.randrange(len(s))
            add(s[:i] + [rng.choice(foreign)], '')
            add(s[:i] + [rng.choice(g.vocab)] + s[i + 1:], '')
            add(s[:i] + s[i + 1:], rng.choice(g.vocab)[:1])
            v = rng.choice(g.vocab)
            add(s[:i] + [rng.choice(foreign)], v[:rng.randint(0, len(v))])
    # vocabulary soup
    for _ in range(4 * n):
        if len(out) >= n:
            break
        ws = [rng.choice(g.vocab) for _ in range(rng.randint(0, 3))]
        v = rng.choice(g.vocab + list(foreign))
        add(ws, v[:rng.randint(0, len(v))])
    return out
