"""Regenerates MANIFEST.json from the table below (kept in one place so it stays valid)."""
import json
import os

from . import paths

BASE_NOTE = ('Trusted base: Coq 8.16.1 kernel (full .vo builds, vm_compute for closed side conditions, no native_compute); '
             'no axioms (Print Assumptions under every property theorem: "Closed under the global context"); '
             'extraction with ExtrOcamlBasic+ExtrOcamlString only; translator/rs2v.py (T3); the dump harness built with '
             '--features verif, the OCaml driver and lib/vf comparison code; hand-written Gallina model of the Rust passes, '
             'tied to /repo by differential execution on every run (T1/T2), not verified against the Rust directly.')

NOT_YET = {}


def collect_checks():
    """Every lib/vf/checks/cXX.py that defines MANIFEST = dict(text=, design=, technique=[, note=])."""
    import importlib
    out = {}
    d = os.path.join(os.path.dirname(os.path.abspath(__file__)), 'checks')
    for f in sorted(os.listdir(d)):
        if f.startswith('c') and f.endswith('.py'):
            mod = importlib.import_module('vf.checks.' + f[:-3])
            props = os.path.join(paths.COQ, 'theories', 'Props', f[:-3].upper() + '.v')
            if hasattr(mod, 'MANIFEST') and os.path.exists(props):
                out[f[:-3].upper()] = mod.MANIFEST
    return out


def main():
    CHECKS = collect_checks()
    props = [json.loads(l) for l in open(os.path.join(paths.ROOT, 'properties.jsonl'))]
    checks = []
    na = []
    for p in props:
        pid = p['id']
        if pid in CHECKS:
            c = CHECKS[pid]
            checks.append({
                'property_id': pid,
                'quick_cmd': 'bin/check %s --tier quick' % pid,
                'thorough_cmd': 'bin/check %s --tier thorough' % pid,
                'evidence_file': 'evidence/%s.json' % pid,
                'replay_cmd_template': 'bin/check %s --replay {path}' % pid,
                'engine': 'coq-model',
                'level_claimed': {'category': 'proof', 'text': c['text'], 'design_ref': 'DESIGN.md section ' + c['design']},
                'level_note': c.get('note', BASE_NOTE),
                'technique': c['technique'],
            })
        else:
            na.append({'property_id': pid, 'reason': NOT_YET.get(pid, 'check not built yet in this session (the design covers it; see DESIGN.md section 6); not claimed until its proof and tie run')})
    m = {
        'version': 1,
        'setup_cmd': 'bin/setup',
        'hooks': {
            'guard': 'cargo feature `verif`',
            'enable': 'harness/Cargo.toml depends on complgen with features=["verif"]; cargo build --offline in harness/',
            'baseline_off_cmd': 'cd /repo && cargo test --workspace --no-fail-fast --offline',
            'source_commits': ['1a00a37'],
            'add_only': True,
        },
        'engines': [{'name': 'coq-model', 'path': 'coq/', 'serves_properties': sorted(CHECKS),
                     'kind_free_text': 'Gallina model + theorems (Coq 8.16.1), extracted to OCaml and run against the Rust implementation through harness/cg-dump'}],
        'checks': checks,
        'not_applicable': na,
        'notes': 'All checks: bin/check <ID> [--tier quick|thorough]. VERIF_SEED seeds every random choice.',
    }
    json.dump(m, open(os.path.join(paths.ROOT, 'MANIFEST.json'), 'w'), indent=1)


if __name__ == '__main__':
    main()
