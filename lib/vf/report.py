"""Evidence files, replays, known findings, verdict lines."""
import json
import os
import time

from . import paths

TRUSTED_BASE = [
    'Coq 8.16.1 kernel (coqc, full .vo builds; vm_compute for closed finite side conditions; no native_compute)',
    'no axioms: Print Assumptions under every property theorem must say "Closed under the global context"',
    'extraction: ExtrOcamlBasic + ExtrOcamlString only (no Extract Constant/Inductive of our own), OCaml 4.13.1, dune',
    'translator/rs2v.py (T3: literal extraction of constants/templates from /repo/src)',
    'harness/cg-dump (prints Rust values through the cfg(feature="verif") accessors), ocaml/*.ml driver, lib/vf/*.py comparison',
    'bash 5.2.15 and the 3-line _get_comp_words_by_ref stub where bash is executed',
]


class Violation:
    def __init__(self, what, replay, cls=None, found_input=True):
        self.what = what          # short text
        self.replay = replay      # dict written to the replay file
        self.cls = cls            # known-finding class attributed by the classifier (or None)
        self.found_input = found_input


class Result:
    def __init__(self):
        self.evaluations = 0
        self.nontrivial = 0
        self.rule = ''
        self.samples = []
        self.violations = []
        self.traces_validated = 0
        self.exhaustive = False
        self.extra = {}
        self.assumptions = []
        self.notes = []


# Floors on what a run must have judged (quick tier; the thorough tier judges more).  A run that stays below them has
# decided nothing -- crashes skipped, a tool that died at start-up, a budget eaten by a rebuild -- and must not pass.
# About a quarter of what a quick run on an idle machine reports (a tenth for the checks whose corpus is cut by a time budget).
FLOORS = {
    'C01': (200, 150, 200), 'C02': (2000, 600, 2000), 'C03': (2500, 200, 1000), 'C04': (1800, 1200, 1800),
    'C05': (4500, 4000, 4500), 'C06': (400, 80, 400), 'C07': (30000, 9000, 500), 'C08': (200, 170, 250),
    'C09': (300, 200, 200), 'C10': (5000, 60, 5000), 'C11': (800, 700, 800), 'C12': (150, 100, 150),
    'C13': (40, 35, 40), 'C14': (180, 45, 180), 'C15': (60, 55, 60), 'C16': (1700, 650, 1700), 'C17': (100, 70, 100),
}


def load_known():
    if not os.path.exists(paths.KNOWN):
        return []
    return json.load(open(paths.KNOWN))['findings']


def finish(prop, tier, seed, t0, res, proof):
    """Writes evidence, prints KNOWN-FINDING / VIOLATION lines, returns the exit code."""
    os.makedirs(paths.EVIDENCE, exist_ok=True)
    os.makedirs(paths.REPLAYS, exist_ok=True)
    known = [k for k in load_known() if k['property'] == prop and k['status'] == 'known']
    known_classes = {k['class']: k for k in known}
    seen_known = {}
    new = []
    for v in res.violations:
        if v.cls is not None and v.cls in known_classes:
            seen_known.setdefault(v.cls, []).append(v)
        else:
            new.append(v)
    # proof obligations
    if proof is not None and not proof['ok']:
        new.append(Violation('proof obligations of %s no longer check' % prop,
                             dict(kind='proof-obligation', property=prop, errors=proof['errors'],
                                  theorems=proof['theorems']), found_input=False))
    fl = FLOORS.get(prop)
    if fl is not None and not res.extra.get('replay_mode'):
        got = (res.evaluations, res.nontrivial, res.traces_validated)
        names = ('evaluations', 'distinct non-trivial cases', 'cases validated against the implementation')
        short = ['%s %d < %d' % (n, g, f) for n, g, f in zip(names, got, fl) if g < f]
        if short and not any(v.found_input for v in new):
            new.append(Violation('the run judged too little to decide %s (%s): something skipped or cut the corpus'
                                 % (prop, '; '.join(short)),
                                 dict(kind='coverage-floor', property=prop, got=dict(zip(names, got)), floors=dict(zip(names, fl)),
                                      notes=res.notes[:20]), found_input=False))
    concrete = [v for v in new if v.found_input]
    broken = [v for v in new if not v.found_input]
    if concrete and broken:
        # the search found a failing input: that is the replay; keep what broke alongside it
        for v in concrete:
            v.replay['broken_obligations_or_ties'] = [b.what for b in broken]
        new = concrete
    elif broken:
        for b in broken:
            b.replay['note'] = 'the search found no concrete failing input on this run'
    for cls, vs in seen_known.items():
        print('KNOWN-FINDING: property=%s %s [%s: %d instance(s) this run]'
              % (prop, known_classes[cls]['what'], cls, len(vs)))
    for k in known:
        if k['class'] not in seen_known:
            res.notes.append('known finding %s was not re-observed on this run' % k['class'])
    rc = 0
    for i, v in enumerate(new[:5]):
        path = os.path.join(paths.REPLAYS, '%s-%s-%d-%d.json' % (prop, tier, seed, i))
        v.replay.setdefault('property', prop)
        v.replay.setdefault('what', v.what)
        json.dump(v.replay, open(path, 'w'), indent=1, default=str)
        print('VIOLATION property=%s replay=%s%s' % (prop, path, '' if v.found_input else ' no-failing-input-found'))
        rc = 1
    cov = {
        'evaluations': res.evaluations,
        'distinct_nontrivial': res.nontrivial,
        'rule': res.rule,
        'samples': res.samples[:8],
        'traces_validated_against_impl': res.traces_validated,
        'exhaustive': res.exhaustive,
        'obligations': proof['obligations'] if proof else 0,
        'discharged': proof['discharged'] if proof else 0,
        'checker_cmd': proof['checker_cmd'] if proof else '',
        'trusted_base': TRUSTED_BASE,
        'theorems': proof['theorems'] if proof else [],
        'print_assumptions': (proof['assumptions'] or ['Closed under the global context']) if proof else [],
        'known_findings_observed': {c: len(v) for c, v in seen_known.items()},
        'notes': res.notes,
    }
    cov.update(res.extra)
    ev = {
        'property_id': prop, 'tier': tier, 'seed': seed, 'level': 'proof', 'coverage': cov,
        'assumptions': res.assumptions, 'wall_s': round(time.time() - t0, 2), 'violations': len(new),
    }
    json.dump(ev, open(os.path.join(paths.EVIDENCE, prop + '.json'), 'w'), indent=1, default=str)
    return rc
