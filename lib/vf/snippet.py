"""The located messages of the complgen binary (main.rs ErrMsg / WarnMsg through crates chic 1.2.2 and annotate-snippets
0.6.1) as text: splitting stderr into blocks, and the annotation line annotate-snippets draws under the quoted line.

What annotate-snippets 0.6.1 does (src/display_list/from_snippet.rs format_body, src/formatter/mod.rs), transcribed:
the quoted line is printed verbatim -- a tab, form feed or carriage return is NOT expanded or escaped -- and the
annotation range (cs, ce) that main.rs computes in BYTES (snippet_columns) is compared with the length n of the line in
CHARACTERS: with line_end = n + 1
  * cs > line_end                 -> no annotation line at all (underline and annotation text are lost);
  * ce <= line_end + 1            -> ' ' * (cs + 1), the mark (^ error, - warning) * (ce - cs), ' ' + text;
  * otherwise (cs <= line_end)    -> taken for the start of a multi-line annotation: '_' * (cs + 1) and ONE mark, no
                                     text (cs = 0: a mark inside the quoted line instead; not transcribed: ANY).
On an ASCII line n = bytes and ce <= n + 1, so the second case applies; the other two need multi-byte characters on
the line (in a description or a comment), at or before the construct."""
import re

BLOCK = re.compile(rb'^(?P<path>[^\n:]*):(?P<line>\d+):(?P<col>\d+):(?P<kind>error|warning)(?:: (?P<label>[^\n]*))?\n'
                   rb' *\|\n'
                   rb' *(?P<no>\d+) \| (?P<src>[^\n]*)\n'
                   rb'(?: *\|(?P<ann>[^\n]+)\n)?'
                   rb' *\|\n'
                   rb'(?: *= help: (?P<help>[^\n]*)\n)?', re.M)

ANY = object()


def block_of(m):
    d = {k: (v.decode('latin-1') if v is not None else None) for k, v in m.groupdict().items()}
    return dict(header='%s:%s:%s:' % (d['path'], d['line'], d['col']), warning=d['kind'] == 'warning',
                label=d['label'] or '', no=int(d['no']), src=d['src'], ann=d['ann'], help=d['help'], path=d['path'])


def blocks(stderr):
    return [block_of(m) for m in BLOCK.finditer(stderr)]


def nchars(line):
    """characters of a UTF-8 line given as a latin-1 str (one char per byte)"""
    return sum(1 for ch in line if (ord(ch) & 0xC0) != 0x80)


def annotation(line, cs, ce, warning, what):
    """-> the text after the gutter bar of the annotation line, None when there is none, ANY when not transcribed"""
    line_end = nchars(line) + 1
    mark = '-' if warning else '^'
    if cs > line_end:
        return None
    if ce <= line_end + 1:
        return ' ' * (cs + 1) + mark * (ce - cs) + (' ' + what if what else '')
    if cs == 0:
        return ANY
    return '_' * (cs + 1) + mark


def same_annotation(printed, expected):
    if expected is ANY:
        return True
    if printed is None or expected is None:
        return printed is None and expected is None
    return printed.rstrip(' ') == expected.rstrip(' ')


def kind_of(line, cs, ce):
    """which of the cases applies (for the coverage counts of the checks)"""
    if all(32 <= ord(ch) < 127 for ch in line):
        return 'printable_ascii'
    if all(ord(ch) < 128 for ch in line):
        return 'ascii_with_tab_ff_cr'
    a = annotation(line, cs, ce, False, '')
    return 'non_ascii_' + ('dropped' if a is None else 'any' if a is ANY else 'multiline_start' if a.startswith('_') else 'shifted')
