import os

ROOT = os.path.dirname(os.path.dirname(os.path.dirname(os.path.abspath(__file__))))
REPO = os.environ.get('VERIF_REPO', '/repo')
CACHE = os.path.join(ROOT, '.cache')
COQ = os.path.join(ROOT, 'coq')
OCAML = os.path.join(ROOT, 'ocaml')
HARNESS = os.path.join(ROOT, 'harness')
# runs against a scratch repository (VERIF_REPO, seeded changes) must not overwrite the evidence of /repo
_SCRATCH = os.path.realpath(REPO) != '/repo'
EVIDENCE = os.path.join(CACHE, 'evidence-scratch') if _SCRATCH else os.path.join(ROOT, 'evidence')
REPLAYS = os.path.join(ROOT, 'replays')
KNOWN = os.path.join(ROOT, 'known_findings.json')
HARNESS_TARGET = os.path.join(CACHE, 'harness-target')
REPO_TARGET = os.path.join(CACHE, 'repo-target')
MODEL_EXE = os.path.join(OCAML, '_build', 'default', 'main.exe')
NCPU = int(os.environ.get('VERIF_JOBS', os.cpu_count() or 4))
