"""C17 reference: what the property text prescribes for the invocations of external commands and the candidates
they contribute, computed from cg-dump's TABLES (+ MIN for within-word acceptance).  Written from the property,
not from the script; the known deviations of the script are switchable QUIRKS, used only to attribute an observed
deviation to a mechanism: a deviation is "explained" by the smallest set of quirks under which the reference
reproduces real bash.

  ref = Ref(tables_sx, min_sx, outputs={cid: text}, wordbreaks=...)
  ref.run(words, prefix, quirks=frozenset()) -> (rc, reply list, log [(cid, a1, a2)]) or 'hang'

Reading of the property (quirks off):
  * walking a complete word w at state s: a literal of s equal to w wins; else a within-word expression of s that
    matches w; else every command expected at s is run with ("", "") (in bash's enumeration order of the ids, an
    oracle) until one has w among its candidates; else <any word>; else the line is not matched: rc 1.
  * candidates of a command = the text before the first tab of every line of its output.
  * at the cursor: per fallback level, literals (with a trailing space), within-word completions, and for every
    command expected at the state one run with (prefix, ""); offered = candidates extending the prefix; the first
    level with anything wins; bash's word-break stripping is applied to the reply.
  * inside a word: pieces are consumed longest-first among what is expected at that point; a command there is run
    with (rest of the word, part already matched); when completing, the walk stops in front of a piece that the
    rest is a proper prefix of, and completion runs the commands expected there with (rest, matched part).
    A complete word matches a within-word expression iff it is consumed entirely ending in an accepting state.

QUIRKS (mechanisms of the script that deviate; see REPORT-bashsem.md):
  space     `read -r f1 _` cuts candidates at the first space as well (and drops leading blanks)
  echo      `echo "$f1"` swallows -n / -e / -E candidates (and -n glues the next one)
  escape    `word_index+1 == cword`: after a command with candidates that does not accept the last complete word,
            completion starts from the state before that word (and further commands there are not tried)
  glob      unquoted right-hand sides: the typed word / a literal / a candidate is used as a glob pattern
  stoptest  within-word loop as pinned: array order, "rest is a prefix of this literal/candidate => stop" also when
            matching and for literals not expected at that point
  subaccept a complete word matches a within-word expression as soon as it is exhausted, whatever the state
  emptycand an empty candidate inside a word is consumed without progress (the loop may not end)
  stale     arrays of candidates are not reset between fallback levels"""
import re

QUIRKS = ['space', 'echo', 'escape', 'glob', 'stoptest', 'subaccept', 'emptycand', 'stale']


# --- bash associative-array key order (validated against bash by t2.primitives_tie through the model)
def fnv_order(keys):
    def h(s):
        i = 2166136261
        for c in s.encode():
            i = (i * 16777619) & 0xffffffff
            i ^= c
        return i
    buckets = {}
    for k in keys:
        buckets.setdefault(h(str(k)) & 1023, []).insert(0, k)
    out = []
    for b in sorted(buckets):
        out += buckets[b]
    return out


# --- glob (a port of Model/Glob.v, ext=True), used only under the quirk `glob`
def _scan(s):
    items, i, first = [], 0, True
    while True:
        if i >= len(s):
            return 'lit'
        c = s[i]
        if c == ']' and not first:
            return (items, s[i + 1:])
        first = False
        if c == '[' and i + 1 < len(s) and s[i + 1] in ':=.':
            return None
        if c == '\\':
            if i + 1 >= len(s):
                return None
            cs, i = s[i + 1], i + 2
        else:
            cs, i = c, i + 1
        if i >= len(s):
            return 'lit'
        if s[i] == '-':
            if i + 1 >= len(s):
                return None
            e = s[i + 1]
            if e == ']':
                items.append((cs, cs))
                continue
            if e == '\\':
                if i + 2 >= len(s):
                    return None
                ce, j = s[i + 2], i + 3
            else:
                ce, j = e, i + 2
            if ce == '[' and j < len(s) and s[j] == '.':
                return None
            if cs <= ce:
                items.append((cs, ce))
            if j >= len(s):
                return 'lit'
            if s[j] == ']':
                return (items, s[j + 1:])
            i = j
            continue
        items.append((cs, cs))


def glob_parse(p):
    toks = []
    while p:
        c, r = p[0], p[1:]
        if c in '?*+@!' and r[:1] == '(':
            return None
        if c == '\\':
            if not r:
                toks.append(('c', '\\'))
                p = r
            else:
                toks.append(('c', r[0]))
                p = r[1:]
        elif c == '?':
            toks.append(('?',)); p = r
        elif c == '*':
            toks.append(('*',)); p = r
        elif c == '[':
            neg, body = (True, r[1:]) if r[:1] in ('!', '^') and r[:1] else (False, r)
            sc = _scan(body)
            if sc is None:
                return None
            if sc == 'lit':
                toks.append(('c', '[')); p = r
            else:
                toks.append(('s', neg, sc[0])); p = sc[1]
        else:
            toks.append(('c', c)); p = r
    return toks


def _gm(ts, i, s, j):
    while i < len(ts):
        t = ts[i]
        if t[0] == '*':
            for k in range(j, len(s) + 1):
                if _gm(ts, i + 1, s, k):
                    return True
            return False
        if j >= len(s):
            return False
        ch = s[j]
        if t[0] == 'c' and t[1] != ch:
            return False
        if t[0] == 's' and (any(lo <= ch <= hi for lo, hi in t[2]) == t[1]):
            return False
        i += 1
        j += 1
    return j == len(s)


class Unsupported(Exception):
    pass


def glob(pattern, s):
    ts = glob_parse(pattern)
    if ts is None:
        raise Unsupported(pattern)
    return _gm(ts, 0, s, 0)


# --- tables
def _rows(sx):
    return {int(r[0]): [(int(p[0]), int(p[1])) for p in r[1:]] for r in sx}


def _levels(sx):
    return [{int(r[0]): [int(x) for x in r[1:]] for r in lv} for lv in sx]


def _field(sx, name):
    for x in sx:
        if isinstance(x, list) and x and x[0] == name:
            return x[1:]
    raise KeyError(name)


def _opt(v):
    return None if v == ['-'] else v[0]


class T:
    def __init__(self, sx):
        self.literals = [str(l[1]) for l in _field(sx, 'literals')]
        self.mlit = _rows(_field(sx, 'mlit')[0])
        m = _opt(_field(sx, 'mcmd'))
        self.mcmd = None if m is None else _rows(m)
        m = _opt(_field(sx, 'mstar'))
        self.mstar = None if m is None else {int(p[0]): int(p[1]) for p in m}
        self.maxlevel = int(_field(sx, 'maxlevel')[0])
        self.clit = _levels(_field(sx, 'clit')[0])
        m = _opt(_field(sx, 'ccmd'))
        self.ccmd = None if m is None else _levels(m)
        self.accepting = set()


def lvl(levels, k, state):
    if levels is None or k >= len(levels):
        return []
    return levels[k].get(state, [])


class Ref:
    def __init__(self, tables_sx, min_sx, outputs, wordbreaks, start=0):
        self.ncmds = len(_field(tables_sx, 'commands'))
        self.main = T(_field(tables_sx, 'main')[0])
        self.subs = {}
        pool_to_id = {}
        for s in _field(tables_sx, 'subwords'):
            pool_to_id[int(s[0])] = int(s[1])
            self.subs[int(s[1])] = T(s[2])
        self.subtrans = {int(r[0]): [(pool_to_id[int(p[0])], int(p[1])) for p in r[1:]] for r in _field(tables_sx, 'subtrans')}
        self.csub = _levels(_field(tables_sx, 'csub')[0])
        # accepting states of the within-word automata (MIN: (ok (dfa .. (subdfas (dfa ..)...))))
        if min_sx is not None and min_sx[0] == 'ok':
            subd = _field(min_sx[1], 'subdfas')
            for pool, sid in pool_to_id.items():
                if pool < len(subd):
                    self.subs[sid].accepting = set(int(x) for x in _field(subd[pool], 'acc'))
        self.outputs = outputs
        self.wordbreaks = wordbreaks
        self.start = start

    # candidates of a command
    def cands(self, cid, q):
        out = self.outputs.get(cid, '')
        lines = out.split('\n')[:-1]
        text = ''
        for ln in lines:
            if 'space' in q:
                s = ln.lstrip(' \t')
                f = re.match(r'[^ \t]*', s).group(0)
            else:
                f = ln.split('\t')[0]
            if 'echo' in q and re.fullmatch(r'-[neE]+', f):
                text += '' if 'n' in f else '\n'
            else:
                text += f + '\n'
        arr = text.split('\n')
        if arr and arr[-1] == '':
            arr.pop()
        return arr

    def call(self, cid, a1, a2, q, log):
        log.append((cid, a1, a2))
        return self.cands(cid, q)

    @staticmethod
    def by_length(cands):
        """the order of `sort -nrk2,2 -rk3` over "i len text": length, then the text as a decimal number, then the whole
        line, all decreasing (among equal lengths the order only matters under `glob`)"""
        import functools

        def numkey(c):
            m = re.match(r'(-?)(\d*)(?:\.(\d*))?', c)
            ip, fp = m.group(2).lstrip('0'), (m.group(3) or '').rstrip('0')
            if not ip and not fp:
                return (False, '', '')
            return (bool(m.group(1)), ip, fp)

        def mag(a, b):
            if len(a[1]) != len(b[1]):
                return -1 if len(a[1]) < len(b[1]) else 1
            if a[1] != b[1]:
                return -1 if a[1] < b[1] else 1
            if a[2] != b[2]:
                return -1 if a[2] < b[2] else 1
            return 0

        def num(a, b):
            if a[0] != b[0]:
                return -1 if a[0] else 1
            return mag(b, a) if a[0] else mag(a, b)

        def cmp(i, j):
            a, b = cands[i], cands[j]
            if len(a) != len(b):
                return -1 if len(a) > len(b) else 1
            c = num(numkey(a), numkey(b))
            if c:
                return -c
            la, lb = '%d %d %s' % (i, len(a), a), '%d %d %s' % (j, len(b), b)
            return -1 if la > lb else (1 if la < lb else 0)

        idx = sorted(range(len(cands)), key=functools.cmp_to_key(cmp))
        return [cands[i] for i in idx]

    def pref(self, p, s, q):
        """does s extend p (is p a prefix of s)?"""
        return s.startswith(p)

    # --- inside a word
    def sub_loop(self, Tb, word, complete, q, log):
        """-> (matched, state, ci) or 'hang'"""
        state, ci, seen = 0, 0, set()
        while True:
            if ci >= len(word):
                return True, state, ci
            if (state, ci) in seen:
                return 'hang'
            seen.add((state, ci))
            rest = word[ci:]
            step = None                                   # ('cont', state, adv) | 'break'
            if state in Tb.mlit:
                st = dict(Tb.mlit[state])
                if 'stoptest' in q:
                    for lid, lit in enumerate(Tb.literals):
                        if (glob(lit, rest) if 'glob' in q else lit == rest) and lid in st:
                            step = ('cont', st[lid], len(lit)); break
                        if (glob(rest + '*', lit) if 'glob' in q else lit.startswith(rest)):
                            step = 'break'; break
                        if (glob(lit + '*', rest) if 'glob' in q else rest.startswith(lit)) and lid in st:
                            step = ('cont', st[lid], len(lit)); break
                else:
                    en = sorted(((Tb.literals[lid], to) for lid, to in st.items() if lid < len(Tb.literals)),
                                key=lambda x: -len(x[0]))
                    if complete and any(l.startswith(rest) and l != rest for l, _ in en):
                        step = 'break'
                    else:
                        for l, to in en:
                            if rest.startswith(l):
                                step = ('cont', to, len(l)); break
            if step is None and Tb.mcmd is not None and state in Tb.mcmd:
                sc = dict(Tb.mcmd[state])
                for cid in fnv_order([c for c, _ in Tb.mcmd[state]]):
                    cands = self.call(cid, rest, word[:ci], q, log)
                    if not cands:
                        continue
                    for c in self.by_length(cands):
                        if 'stoptest' in q:
                            if (glob(rest, c) if 'glob' in q else c == rest):
                                step = ('cont', sc[cid], len(c)); break
                            if (glob(rest + '*', c) if 'glob' in q else c.startswith(rest)):
                                step = 'break'; break
                            if (glob(c + '*', rest) if 'glob' in q else rest.startswith(c)):
                                if c == '' and 'emptycand' not in q:
                                    continue
                                step = ('cont', sc[cid], len(c)); break
                        else:
                            if c == '' and 'emptycand' not in q:
                                continue
                            if complete and c.startswith(rest) and c != rest:
                                step = 'break'; break
                            if rest.startswith(c):
                                step = ('cont', sc[cid], len(c)); break
                    if step is not None:
                        break
            if step == 'break':
                return False, state, ci
            if step is not None:
                state, ci = step[1], ci + step[2]
                continue
            if Tb.mstar is not None and state in Tb.mstar:
                return True, state, ci
            return False, state, ci

    def sub_matches(self, Tb, word, q, log):
        r = self.sub_loop(Tb, word, False, q, log)
        if r == 'hang':
            return 'hang'
        matched, state, ci = r
        if matched and 'subaccept' not in q:
            # the word must be in the language: exhausted in an accepting state (a star match ends the word)
            if ci >= len(word):
                return state in Tb.accepting
            return Tb.mstar[state] in Tb.accepting
        return matched

    def sub_complete(self, Tb, word, q, log, matches):
        r = self.sub_loop(Tb, word, True, q, log)
        if r == 'hang':
            return 'hang'
        _, state, ci = r
        mp, cp = word[:ci], word[ci:]
        sc, sm = [], []
        for k in range(Tb.maxlevel + 1):
            if 'stale' not in q:
                sc = []
            for lid in lvl(Tb.clit, k, state):
                sc.append(mp + (Tb.literals[lid] if lid < len(Tb.literals) else ''))
            sm += [c for c in sc if c.startswith(word)]
            if Tb.mcmd is not None:
                for cid in lvl(Tb.ccmd, k, state):
                    sc = self.call(cid, cp, mp, q, log)
                    sm += [mp + c for c in sc if c.startswith(cp)]
            if sm:
                matches += sm
                break
        return None

    # --- top level
    def run(self, words, prefix, q=frozenset()):
        log = []
        try:
            return self._run(words, prefix, q, log)
        except Unsupported:
            return 'unsupported'

    def _run(self, words, prefix, q, log):
        M = self.main
        state = self.start
        n = len(words)
        i = 0
        while i < n:
            w = words[i]
            nxt = None
            if state in M.mlit:
                st = dict(M.mlit[state])
                for lid, lit in enumerate(M.literals):
                    if lit == w and lid in st:
                        nxt = st[lid]; break
            if nxt is None and state in self.subtrans:
                st = dict(self.subtrans[state])
                for sid in fnv_order([s for s, _ in self.subtrans[state]]):
                    r = self.sub_matches(self.subs[sid], w, q, log)
                    if r == 'hang':
                        return 'hang'
                    if r:
                        nxt = st[sid]; break
            escape = False
            if nxt is None and M.mcmd is not None and state in M.mcmd:
                sc = dict(M.mcmd[state])
                for cid in fnv_order([c for c, _ in M.mcmd[state]]):
                    cands = self.call(cid, '', '', q, log)
                    if not cands:
                        continue
                    ok = any(glob(w, c) for c in self.by_length(cands)) if 'glob' in q else (w in cands)
                    if ok:
                        nxt = sc[cid]; break
                    if 'escape' in q and i + 1 == n:
                        escape = True; break
            if escape:
                break
            if nxt is None and M.mstar is not None and state in M.mstar:
                nxt = M.mstar[state]
            if nxt is None:
                return 1, [], log
            state = nxt
            i += 1
        cands, matches = [], []
        for k in range(M.maxlevel + 1):
            if 'stale' not in q:
                cands = []
            for lid in lvl(M.clit, k, state):
                cands.append((M.literals[lid] if lid < len(M.literals) else '') + ' ')
            matches += [c for c in cands if c.startswith(prefix)]
            for sid in lvl(self.csub, k, state):
                if self.sub_complete(self.subs[sid], prefix, q, log, matches) == 'hang':
                    return 'hang'
            if M.mcmd is not None:
                for cid in lvl(M.ccmd, k, state):
                    cands = self.call(cid, prefix, '', q, log)
                    matches += [c for c in cands if c.startswith(prefix)]
            if matches:
                cut = max([prefix.rfind(ch) for ch in self.wordbreaks] + [-1]) + 1
                sup = prefix[:cut]
                if 'glob' in q and sup:
                    # ${matches[@]#$superfluous_prefix}: the removed text is a pattern
                    ts = glob_parse(sup)
                    if ts is None or any(t[0] != 'c' for t in ts) or '\\' in sup:
                        raise Unsupported(sup)
                return 0, [m[len(sup):] if m.startswith(sup) else m for m in matches], log
        return 0, [], log


def explain(ref, words, prefix, observed):
    """smallest set of quirks under which the reference reproduces `observed` = (rc, reply, log) or 'hang';
    -> frozenset, or None when nothing explains it.  The reply is compared as a set."""
    import itertools

    def same(r):
        if r == 'unsupported':
            return False
        if observed == 'hang' or r == 'hang':
            return observed == r
        return r[0] == observed[0] and set(r[1]) == set(observed[1]) and r[2] == observed[2]

    for k in range(0, len(QUIRKS) + 1):
        for qs in itertools.combinations(QUIRKS, k):
            if same(ref.run(words, prefix, frozenset(qs))):
                return frozenset(qs)
    return None
