// cg-dump: runs the complgen library pipeline exactly as src/main.rs does and prints every
// intermediate stage in a canonical one-line s-expression form.
//
// stdin : grammar texts separated by a NUL byte
// args  : --stages a,b,c   (parse check regex raw min amb tables script dfadot regexdot)
//         --shells bash,fish,zsh,pwsh
// stdout: "\x01CASE <idx> <shell>" then "\x01<STAGE> <payload>" lines; a stage that panics prints
//         "\x01PANIC <stage> <message>" and ends the case.
use complgen::check::ValidGrammar;
use complgen::dfa::{DFA, Inp};
use complgen::parse::{Expr, ExprId, Grammar, HumanSpan, Shell, Statement};
use complgen::regex::{Regex, RegexInput, RegexInternPool, RegexNode};
use complgen::verif;
use complgen::Error;
use std::collections::BTreeMap;
use std::fmt::Write as _;
use std::io::{Read, Write};
use std::panic::{AssertUnwindSafe, catch_unwind};

fn q(s: &str) -> String {
    let mut out = String::with_capacity(s.len() + 2);
    out.push('"');
    for b in s.bytes() {
        match b {
            b'\\' => out.push_str("\\\\"),
            b'"' => out.push_str("\\\""),
            b'\n' => out.push_str("\\n"),
            b'\t' => out.push_str("\\t"),
            0x20..=0x7e => out.push(b as char),
            _ => {
                let _ = write!(out, "\\x{:02x}", b);
            }
        }
    }
    out.push('"');
    out
}

fn oq(s: &Option<ustr::Ustr>) -> String {
    match s {
        Some(d) => q(d),
        None => "-".to_string(),
    }
}

fn sp(s: &HumanSpan) -> String {
    format!("{}:{}:{}", s.line, s.column_start, s.column_end)
}

fn show(a: &[Expr], id: ExprId) -> String {
    match &a[id.0] {
        Expr::Terminal { term, descr, fallback, span } => {
            format!("(lit {} {} {} {})", q(term), oq(descr), fallback, sp(span))
        }
        Expr::NontermRef { nonterm, fallback, span } => {
            format!("(nt {} {} {})", q(nonterm), fallback, sp(span))
        }
        Expr::Command { cmd, zsh_compadd, fallback, span } => format!(
            "(cmd {} {} {} {})",
            q(cmd),
            if *zsh_compadd { 1 } else { 0 },
            fallback,
            sp(span)
        ),
        Expr::Sequence { children, span } => format!(
            "(seq {} {})",
            sp(span),
            children.iter().map(|c| show(a, *c)).collect::<Vec<_>>().join(" ")
        ),
        Expr::Alternative { children, span } => format!(
            "(alt {} {})",
            sp(span),
            children.iter().map(|c| show(a, *c)).collect::<Vec<_>>().join(" ")
        ),
        Expr::Fallback { children, span } => format!(
            "(fb {} {})",
            sp(span),
            children.iter().map(|c| show(a, *c)).collect::<Vec<_>>().join(" ")
        ),
        Expr::Optional { child, span } => format!("(opt {} {})", sp(span), show(a, *child)),
        Expr::Many1 { child, span } => format!("(many {} {})", sp(span), show(a, *child)),
        Expr::DistributiveDescription { child, descr, span } => {
            format!("(dd {} {} {})", q(descr), sp(span), show(a, *child))
        }
        Expr::Subword { root_id, fallback, span } => {
            format!("(sub {} {} {})", fallback, sp(span), show(a, *root_id))
        }
    }
}

fn show_grammar(g: &Grammar) -> String {
    let mut out = vec![];
    for st in &g.statements {
        match st {
            Statement::CallVariant { name, name_span, expr } => out.push(format!(
                "(call {} {} {})",
                q(name),
                sp(name_span),
                show(&g.arena, *expr)
            )),
            Statement::NonterminalDefinition(d) => {
                let (name, span, shell, rhs) = verif::nonterm_defn_fields(d);
                let sh = match shell {
                    Some((s, ss)) => format!("({} {})", q(&s), sp(&ss)),
                    None => "-".to_string(),
                };
                out.push(format!(
                    "(def {} {} {} {})",
                    q(&name),
                    sp(&span),
                    sh,
                    show(&g.arena, rhs)
                ));
            }
        }
    }
    format!("({})", out.join(" "))
}

fn show_inp(i: &Inp) -> String {
    match i {
        Inp::Literal { literal, description, fallback_level } => {
            format!("(lit {} {} {})", q(literal), oq(description), fallback_level)
        }
        Inp::Subword { subdfa, fallback_level } => {
            format!("(sub {} {})", subdfa.index(), fallback_level)
        }
        Inp::Command { cmd, fallback_level } => format!("(cmd {} {})", q(cmd), fallback_level),
        Inp::Compadd { cmd, fallback_level } => format!("(compadd {} {})", q(cmd), fallback_level),
        Inp::Star => "(star)".to_string(),
    }
}

fn show_error(e: &Error) -> String {
    let spans = |v: &[HumanSpan]| v.iter().map(sp).collect::<Vec<_>>().join(" ");
    match e {
        Error::ParseError(s) => format!("(ParseError {})", sp(s)),
        Error::MissingCallVariants => "(MissingCallVariants)".to_string(),
        Error::InvalidCommandName(s) => format!("(InvalidCommandName {})", sp(s)),
        Error::VaryingCommandNames(v) => format!("(VaryingCommandNames {})", spans(v)),
        Error::NonterminalDefinitionsCycle(v) => {
            format!("(NonterminalDefinitionsCycle {})", spans(v))
        }
        Error::DuplicateNonterminalDefinition(a, b) => {
            format!("(DuplicateNonterminalDefinition {} {})", sp(a), sp(b))
        }
        Error::UnknownShell(s) => format!("(UnknownShell {})", sp(s)),
        Error::NonCommandSpecialization(s) => format!("(NonCommandSpecialization {})", sp(s)),
        Error::UnboundedMatchable(a, b) => format!("(UnboundedMatchable {} {})", sp(a), sp(b)),
        Error::ConflictingDescriptions(path, lit, l, r) => format!(
            "(ConflictingDescriptions ({}) {} {} {})",
            path.iter().map(show_inp).collect::<Vec<_>>().join(" "),
            q(lit),
            q(l),
            q(r)
        ),
        Error::SubwordSpaces(a, b, t) => format!("(SubwordSpaces {} {} ({}))", sp(a), sp(b), spans(t)),
        Error::AmbiguousDFA(path, inps) => format!(
            "(AmbiguousDFA ({}) ({}))",
            path.iter().map(show_inp).collect::<Vec<_>>().join(" "),
            inps.iter().map(show_inp).collect::<Vec<_>>().join(" ")
        ),
        Error::FromUtf8Error(_) => "(FromUtf8Error)".to_string(),
        Error::FmtError(_) => "(FmtError)".to_string(),
        Error::IoError(_) => "(IoError)".to_string(),
    }
}

fn show_dfa(d: &DFA) -> String {
    let mut out = String::new();
    let _ = write!(out, "(dfa (start {}) (trans", d.starting_state);
    for (from, tos) in &d.transitions {
        let _ = write!(out, " ({}", from);
        for (inp, to) in tos {
            let _ = write!(out, " ({} {})", inp.index(), to);
        }
        out.push(')');
    }
    out.push_str(") (acc");
    for s in &d.accepting_states {
        let _ = write!(out, " {}", s);
    }
    out.push_str(") (inputs");
    let inputs = verif::dfa_inputs(d);
    let mut max_sub: Option<usize> = None;
    for (_, inp) in &inputs {
        out.push(' ');
        out.push_str(&show_inp(inp));
        if let Inp::Subword { subdfa, .. } = inp {
            max_sub = Some(max_sub.map_or(subdfa.index(), |m| m.max(subdfa.index())));
        }
    }
    out.push_str(") (subdfas");
    if let Some(m) = max_sub {
        // ids are dense: 0..=m were all interned
        for (_, inp) in &inputs {
            if let Inp::Subword { subdfa, .. } = inp {
                let _ = subdfa;
            }
        }
        let mut by_index: BTreeMap<usize, &DFA> = BTreeMap::new();
        for (_, inp) in &inputs {
            if let Inp::Subword { subdfa, .. } = inp {
                by_index.insert(subdfa.index(), verif::dfa_subdfa(d, *subdfa));
            }
        }
        for i in 0..=m {
            match by_index.get(&i) {
                Some(sd) => {
                    out.push(' ');
                    out.push_str(&show_dfa(sd));
                }
                None => out.push_str(" (unreferenced)"),
            }
        }
    }
    out.push_str("))");
    out
}

fn show_regex_input(i: &RegexInput) -> String {
    match i {
        RegexInput::Literal { literal, description, fallback_level, span } => format!(
            "(lit {} {} {} {})",
            q(literal),
            oq(description),
            fallback_level,
            sp(span)
        ),
        RegexInput::Nonterminal { nonterm, fallback_level, span } => {
            format!("(nt {} {} {})", q(nonterm), fallback_level, sp(span))
        }
        RegexInput::Command { cmd, zsh_compadd, fallback_level, span } => format!(
            "(cmd {} {} {} {})",
            q(cmd),
            if *zsh_compadd { 1 } else { 0 },
            fallback_level,
            sp(span)
        ),
        RegexInput::Subword { subword_regex_id, fallback_level, span } => format!(
            "(sub {} {} {})",
            verif::regex_id_index(*subword_regex_id),
            fallback_level,
            sp(span)
        ),
    }
}

fn show_regex_node(n: &RegexNode) -> String {
    let ids = |v: &Vec<complgen::regex::RegexNodeId>| {
        v.iter().map(|c| c.index().to_string()).collect::<Vec<_>>().join(" ")
    };
    match n {
        RegexNode::Epsilon => "(eps)".to_string(),
        RegexNode::Terminal(p) => format!("(term {})", p),
        RegexNode::Nonterminal(p) => format!("(nonterm {})", p),
        RegexNode::Command(p) => format!("(command {})", p),
        RegexNode::Subword(p) => format!("(subword {})", p),
        RegexNode::EndMarker(p) => format!("(end {})", p),
        RegexNode::Cat(v) => format!("(cat {})", ids(v)),
        RegexNode::Or(v) => format!("(or {})", ids(v)),
        RegexNode::Star(c) => format!("(star {})", c.index()),
    }
}

fn show_regex(r: &Regex) -> String {
    let mut out = String::new();
    let _ = write!(out, "(regex (root {}) (end {}) (inputs", r.root_id.index(), r.endmarker_position);
    for i in &r.input_from_position {
        out.push(' ');
        out.push_str(&show_regex_input(i));
    }
    out.push_str(") (nodes");
    for n in &r.arena {
        out.push(' ');
        out.push_str(&show_regex_node(n));
    }
    out.push_str(") (first");
    for p in r.firstpos() {
        let _ = write!(out, " {}", p);
    }
    out.push_str(") (follow");
    for (p, set) in verif::regex_followpos(r) {
        let _ = write!(out, " ({}", p);
        for x in set {
            let _ = write!(out, " {}", x);
        }
        out.push(')');
    }
    out.push_str("))");
    out
}

fn max_subword_regex_id(r: &Regex, pool: &RegexInternPool, acc: &mut Option<usize>) {
    for i in &r.input_from_position {
        if let RegexInput::Subword { subword_regex_id, .. } = i {
            let idx = verif::regex_id_index(*subword_regex_id);
            if acc.is_none_or(|m| idx > m) {
                *acc = Some(idx);
            }
            max_subword_regex_id(verif::regex_pool_lookup(pool, *subword_regex_id), pool, acc);
        }
    }
}

fn collect_pool<'a>(
    r: &'a Regex,
    pool: &'a RegexInternPool,
    acc: &mut BTreeMap<usize, &'a Regex>,
) {
    for i in &r.input_from_position {
        if let RegexInput::Subword { subword_regex_id, .. } = i {
            let idx = verif::regex_id_index(*subword_regex_id);
            let sub = verif::regex_pool_lookup(pool, *subword_regex_id);
            if acc.insert(idx, sub).is_none() {
                collect_pool(sub, pool, acc);
            }
        }
    }
}

fn show_levels_u32(levels: &[BTreeMap<u32, Vec<u32>>]) -> String {
    let mut out = String::from("(");
    for (k, level) in levels.iter().enumerate() {
        if k > 0 {
            out.push(' ');
        }
        out.push('(');
        let mut first = true;
        for (s, ids) in level {
            if !first {
                out.push(' ');
            }
            first = false;
            let _ = write!(out, "({}", s);
            for i in ids {
                let _ = write!(out, " {}", i);
            }
            out.push(')');
        }
        out.push(')');
    }
    out.push(')');
    out
}

fn show_levels_usize(levels: &[BTreeMap<u32, Vec<usize>>]) -> String {
    let conv: Vec<BTreeMap<u32, Vec<u32>>> = levels
        .iter()
        .map(|l| l.iter().map(|(s, v)| (*s, v.iter().map(|x| *x as u32).collect())).collect())
        .collect();
    show_levels_u32(&conv)
}

fn show_nested(m: &BTreeMap<u32, BTreeMap<u32, u32>>) -> String {
    let mut out = String::from("(");
    let mut first = true;
    for (s, tos) in m {
        if !first {
            out.push(' ');
        }
        first = false;
        let _ = write!(out, "({}", s);
        for (k, to) in tos {
            let _ = write!(out, " ({} {})", k, to);
        }
        out.push(')');
    }
    out.push(')');
    out
}

fn show_tables(t: &verif::TablesDump) -> String {
    let mut out = String::from("(tables (literals");
    for (id, lit, descr) in &t.all_literals {
        let _ = write!(out, " ({} {} {})", id, q(lit), q(descr));
    }
    let _ = write!(out, ") (mlit {})", show_nested(&t.match_literal));
    match &t.match_command {
        Some(m) => {
            let _ = write!(out, " (mcmd {})", show_nested(m));
        }
        None => out.push_str(" (mcmd -)"),
    }
    match &t.match_compadd {
        Some(m) => {
            let _ = write!(out, " (mcompadd {})", show_nested(m));
        }
        None => out.push_str(" (mcompadd -)"),
    }
    match &t.match_star {
        Some(v) => {
            out.push_str(" (mstar (");
            for (i, (f, to)) in v.iter().enumerate() {
                if i > 0 {
                    out.push(' ');
                }
                let _ = write!(out, "({} {})", f, to);
            }
            out.push_str("))");
        }
        None => out.push_str(" (mstar -)"),
    }
    let _ = write!(out, " (maxlevel {})", t.max_fallback_level);
    let _ = write!(out, " (clit {})", show_levels_u32(&t.completion_literal));
    match &t.completion_command {
        Some(l) => {
            let _ = write!(out, " (ccmd {})", show_levels_u32(l));
        }
        None => out.push_str(" (ccmd -)"),
    }
    match &t.completion_compadd {
        Some(l) => {
            let _ = write!(out, " (ccompadd {})", show_levels_usize(l));
        }
        None => out.push_str(" (ccompadd -)"),
    }
    let _ = write!(out, " (shapehash {}))", t.shape_hash);
    out
}

fn array_start(shell: Shell) -> u32 {
    match shell {
        Shell::Bash => complgen::bash::ARRAY_START,
        Shell::Fish => complgen::fish::ARRAY_START,
        Shell::Zsh => complgen::zsh::ARRAY_START,
        Shell::Pwsh => complgen::pwsh::ARRAY_START,
    }
}

fn show_all_tables(d: &DFA, shell: Shell) -> String {
    let start = array_start(shell) as usize;
    let needs = verif::dfa_needs(d);
    let [_subwords, top_cmds, sub_cmds, top_compadds, sub_compadds, top_star, sub_star] = needs;
    let cmds = verif::dfa_commands(d);
    // bash, fish and pwsh pass `false` for compadds; zsh passes the real switches
    let (tc, sc) = match shell {
        Shell::Zsh => (top_compadds, sub_compadds),
        _ => (false, false),
    };
    let mut out = String::from("(alltables (needs");
    for n in needs {
        out.push_str(if n { " 1" } else { " 0" });
    }
    out.push_str(") (commands");
    for c in &cmds {
        out.push(' ');
        out.push_str(&q(c));
    }
    out.push_str(") (states");
    for s in verif::dfa_all_states(d) {
        let _ = write!(out, " {}", s);
    }
    let main = verif::lookup_tables(d, &cmds, start, top_cmds, tc, top_star);
    let _ = write!(out, ") (main {})", show_tables(&main));
    out.push_str(" (subtrans");
    for s in verif::dfa_all_states(d) {
        let v = verif::dfa_subword_transitions_from(d, s);
        if v.is_empty() {
            continue;
        }
        let _ = write!(out, " ({}", s);
        for (id, to) in v {
            let _ = write!(out, " ({} {})", id.index(), to);
        }
        out.push(')');
    }
    let _ = write!(
        out,
        ") (csub {})",
        show_levels_usize(&verif::dfa_completion_subwords(d, start, main.max_fallback_level))
    );
    out.push_str(" (subwords");
    for (dfaid, id) in verif::dfa_subwords(d, start) {
        let sub = verif::dfa_subdfa(d, dfaid);
        let t = verif::lookup_tables(sub, &cmds, start, sub_cmds, sc, sub_star);
        let _ = write!(out, " ({} {} {})", dfaid.index(), id, show_tables(&t));
    }
    out.push_str("))");
    out
}

struct Opts {
    stages: Vec<String>,
    shells: Vec<(String, Shell)>,
}

fn want(o: &Opts, s: &str) -> bool {
    o.stages.iter().any(|x| x == s)
}

fn run_case(out: &mut impl Write, text: &str, shell: Shell, o: &Opts) -> std::io::Result<()> {
    let stage = std::cell::Cell::new("parse");
    let mut buf: Vec<u8> = vec![];
    let res = catch_unwind(AssertUnwindSafe(|| -> std::io::Result<()> {
        let buf = &mut buf;
        let g = match Grammar::parse(text) {
            Ok(g) => g,
            Err(e) => {
                writeln!(buf, "\x01PARSE (err {})", show_error(&e))?;
                return Ok(());
            }
        };
        if want(o, "parse") {
            writeln!(buf, "\x01PARSE (ok {})", show_grammar(&g))?;
        }
        stage.set("check");
        let v = match ValidGrammar::from_grammar(g, shell) {
            Ok(v) => v,
            Err(e) => {
                writeln!(buf, "\x01CHECK (err {})", show_error(&e))?;
                return Ok(());
            }
        };
        if want(o, "check") {
            let m = |m: &ustr::UstrMap<HumanSpan>| {
                let mut v: Vec<String> =
                    m.iter().map(|(k, s)| format!("({} {})", q(k), sp(s))).collect();
                v.sort();
                v.join(" ")
            };
            writeln!(
                buf,
                "\x01CHECK (ok {} {} (undefined {}) (unused {}) (unusedspecs {}))",
                q(&v.command),
                show(&v.arena, v.expr),
                m(&v.undefined_nonterminals),
                m(&v.unused_nonterminals),
                m(&v.unused_specializations)
            )?;
        }
        stage.set("regex");
        let mut pool = RegexInternPool::default();
        // from_valid_grammar = from_expr + check_ambiguities; keep them apart so that the regex
        // is visible even when the ambiguity check rejects it
        let r = match Regex::from_valid_grammar(&v, &mut pool) {
            Ok(r) => r,
            Err(e) => {
                writeln!(buf, "\x01REGEX (err {})", show_error(&e))?;
                return Ok(());
            }
        };
        if want(o, "regex") {
            let mut subs: BTreeMap<usize, &Regex> = BTreeMap::new();
            collect_pool(&r, &pool, &mut subs);
            let mut m = None;
            max_subword_regex_id(&r, &pool, &mut m);
            let mut s = format!("\x01REGEX (ok {} (pool", show_regex(&r));
            for (idx, sub) in &subs {
                let _ = write!(s, " ({} {})", idx, show_regex(sub));
            }
            s.push_str("))");
            writeln!(buf, "{}", s)?;
        }
        if want(o, "subraw") {
            stage.set("subraw");
            // every within-word regex: its raw automaton and what minimize() makes of it
            let mut subs: BTreeMap<usize, &Regex> = BTreeMap::new();
            collect_pool(&r, &pool, &mut subs);
            let mut s = String::from("\x01SUBRAW (");
            for (idx, sub) in &subs {
                match DFA::from_regex_raw((*sub).clone(), &pool) {
                    Ok(raw) => {
                        let min = raw.clone().minimize();
                        let _ = write!(s, "({} {} {})", idx, show_dfa(&raw), show_dfa(&min));
                    }
                    Err(e) => {
                        let _ = write!(s, "({} (err {}))", idx, show_error(&e));
                    }
                }
            }
            s.push(')');
            writeln!(buf, "{}", s)?;
        }
        if want(o, "regexdot") {
            let mut dot: Vec<u8> = vec![];
            r.to_dot(&mut dot, &pool)?;
            writeln!(buf, "\x01REGEXDOT {}", q(&String::from_utf8_lossy(&dot)))?;
        }
        stage.set("raw");
        let raw = match DFA::from_regex_raw(r, &pool) {
            Ok(d) => d,
            Err(e) => {
                writeln!(buf, "\x01RAW (err {})", show_error(&e))?;
                return Ok(());
            }
        };
        if want(o, "raw") {
            writeln!(buf, "\x01RAW (ok {})", show_dfa(&raw))?;
        }
        stage.set("min");
        let min = raw.minimize();
        if want(o, "min") {
            writeln!(buf, "\x01MIN (ok {})", show_dfa(&min))?;
        }
        if want(o, "dfadot") {
            let mut dot: Vec<u8> = vec![];
            match min.to_dot(&mut dot, array_start(shell)) {
                Ok(()) => writeln!(buf, "\x01DFADOT {}", q(&String::from_utf8_lossy(&dot)))?,
                Err(e) => writeln!(buf, "\x01DFADOT (err {})", show_error(&e))?,
            }
        }
        stage.set("amb");
        if let Err(e) = min.check_ambiguity_best_effort() {
            writeln!(buf, "\x01AMB (err {})", show_error(&e))?;
            return Ok(());
        }
        if want(o, "amb") {
            writeln!(buf, "\x01AMB (ok)")?;
        }
        if want(o, "tables") {
            stage.set("tables");
            writeln!(buf, "\x01TABLES {}", show_all_tables(&min, shell))?;
        }
        if want(o, "script") {
            stage.set("script");
            let mut script: Vec<u8> = vec![];
            let r = match shell {
                Shell::Bash => complgen::bash::write_completion_script(&mut script, &v.command, &min),
                Shell::Fish => complgen::fish::write_completion_script(&mut script, &v.command, &min),
                Shell::Zsh => complgen::zsh::write_completion_script(&mut script, &v.command, &min),
                Shell::Pwsh => complgen::pwsh::write_completion_script(&mut script, &v.command, &min),
            };
            match r {
                Ok(()) => writeln!(buf, "\x01SCRIPT {}", q(&String::from_utf8_lossy(&script)))?,
                Err(e) => writeln!(buf, "\x01SCRIPT (err {})", show_error(&e))?,
            }
        }
        Ok(())
    }));
    out.write_all(&buf)?;
    match res {
        Ok(r) => r?,
        Err(p) => {
            let msg = if let Some(s) = p.downcast_ref::<&str>() {
                s.to_string()
            } else if let Some(s) = p.downcast_ref::<String>() {
                s.clone()
            } else {
                "?".to_string()
            };
            writeln!(out, "\x01PANIC {} {}", stage.get(), q(&msg))?;
        }
    }
    Ok(())
}

fn main() -> std::io::Result<()> {
    let args: Vec<String> = std::env::args().collect();
    let mut o = Opts {
        stages: vec!["parse".into(), "check".into()],
        shells: vec![("bash".into(), Shell::Bash)],
    };
    let mut i = 1;
    while i < args.len() {
        match args[i].as_str() {
            "--stages" => {
                o.stages = args[i + 1].split(',').map(|s| s.to_string()).collect();
                i += 2;
            }
            "--shells" => {
                o.shells = args[i + 1]
                    .split(',')
                    .map(|s| {
                        let sh = match s {
                            "bash" => Shell::Bash,
                            "fish" => Shell::Fish,
                            "zsh" => Shell::Zsh,
                            "pwsh" => Shell::Pwsh,
                            _ => panic!("unknown shell {s}"),
                        };
                        (s.to_string(), sh)
                    })
                    .collect();
                i += 2;
            }
            other => panic!("unknown argument {other}"),
        }
    }
    std::panic::set_hook(Box::new(|_| {}));
    let mut input: Vec<u8> = vec![];
    std::io::stdin().read_to_end(&mut input)?;
    let stdout = std::io::stdout();
    let mut out = std::io::BufWriter::new(stdout.lock());
    for (idx, raw) in input.split(|b| *b == 0).enumerate() {
        for (name, shell) in &o.shells {
            writeln!(out, "\x01CASE {} {}", idx, name)?;
            match std::str::from_utf8(raw) {
                Ok(text) => run_case(&mut out, text, *shell, &o)?,
                Err(_) => writeln!(out, "\x01PARSE (err (InvalidUtf8))")?,
            }
            out.flush()?;
        }
    }
    writeln!(out, "\x01END")?;
    Ok(())
}
