#!/usr/bin/env python3
"""T3 for the bash skeleton: every r#"..."# template of src/bash.rs, keyed by enclosing function and ordinal.

  templates(repo) -> {key: text}                 key = "<fn name>#<ordinal within the function>"
  digest(text)    -> sha256 hex
  status(repo)    -> dict(variant='pinned'|'fixed'|None, changed=[keys whose hash is in no known set],
                          missing=[keys of the lock not found], extra=[keys not in the lock])

translator/bash_templates.lock.json (committed) holds, per key, the hash of the template Model/BashSem.v was
written against ("pinned") and, where the repair proposed in REPORT-bashsem.md touches it, the hash after the
repair ("fixed").  A template with any other hash means the skeleton changed under the model: the tie is broken
until the model is re-read against the new text (lib/vf/t2.py reports it).

usage: bash_templates.py <repo> [--write-lock pinned|fixed|repaired]   (prints the status / updates the lock file)"""
import hashlib
import json
import os
import re
import sys

LOCK = os.path.join(os.path.dirname(os.path.abspath(__file__)), 'bash_templates.lock.json')


def templates(repo):
    src = open(os.path.join(repo, 'src', 'bash.rs'), encoding='utf-8').read()
    out = {}
    fn = '<top>'
    count = {}
    pos = 0
    tok = re.compile(r'\bfn\s+([A-Za-z0-9_]+)|r#"', re.S)
    while True:
        m = tok.search(src, pos)
        if not m:
            break
        if m.group(1):
            fn = m.group(1)
            pos = m.end()
            continue
        end = src.find('"#', m.end())
        if end < 0:
            raise ValueError('unterminated raw string in bash.rs')
        k = count.get(fn, 0)
        count[fn] = k + 1
        out['%s#%d' % (fn, k)] = src[m.end():end]
        pos = end + 2
    return out


def digest(text):
    return hashlib.sha256(text.encode('utf-8')).hexdigest()


def load_lock():
    if not os.path.exists(LOCK):
        return {}
    return json.load(open(LOCK))


VARIANTS = ['pinned', 'fixed', 'repaired']


def status(repo):
    """variant = the first of VARIANTS whose hashes (falling back to `pinned` where a variant leaves a template
    alone) all match the current templates; None if no variant matches."""
    lock = load_lock()
    cur = {k: digest(t) for k, t in templates(repo).items()}
    missing = [k for k in lock if k not in cur]
    extra = [k for k in cur if k not in lock]
    variant = None
    if not missing and not extra:
        for cand in VARIANTS:
            if all(cur[k] == lock[k].get(cand, lock[k].get('pinned')) for k in cur):
                variant = cand
                break
    known = lambda k: cur[k] in lock.get(k, {}).values()
    changed = [k for k in cur if k in lock and not known(k)]
    if variant is None and not changed and not missing and not extra:
        changed = ['(mixture of known variants)']
    return dict(variant=variant, changed=changed, missing=missing, extra=extra)


def main():
    repo = sys.argv[1]
    if len(sys.argv) > 3 and sys.argv[2] == '--write-lock':
        which = sys.argv[3]
        lock = load_lock()
        for k, t in templates(repo).items():
            h = digest(t)
            e = lock.setdefault(k, {})
            if which == 'pinned':
                e['pinned'] = h
            elif h != e.get('pinned'):
                e[which] = h
        json.dump(lock, open(LOCK, 'w'), indent=1, sort_keys=True)
        print('wrote', LOCK)
        return
    print(json.dumps(status(repo), indent=1))


if __name__ == '__main__':
    main()
