#!/usr/bin/env python3
"""T3 translator: regenerates the *data* parts of the Coq model from /repo/src/*.rs.

usage: rs2v.py <repo> <outdir>

Extracts by anchored regular expressions (a missing anchor is an error: the tie is broken):
  - check.rs  make_builtin_specializations: (name, shell) -> command text
  - {bash,fish,zsh,pwsh}.rs  ARRAY_START, the .replace chains of make_string_constant
  - parse.rs  is_regular_terminal_char / escapable characters
Writes <outdir>/Consts.v only when its content changes (so make does not rebuild needlessly)."""
import os
import re
import sys


class Anchor(Exception):
    pass


def need(m, what):
    if not m:
        raise Anchor('anchor not found: ' + what)
    return m


def coq_string(b):
    """Coq string literal for a python str (ASCII printable only; others via String constructor)."""
    out = []
    plain = all(0x20 <= ord(c) <= 0x7e for c in b)
    if plain:
        return '"' + b.replace('"', '""') + '"'
    # fall back to explicit bytes
    parts = ''.join('(String (ascii_of_N %d) ' % ord(c) for c in b)
    return parts + 'EmptyString' + ')' * len(b)


def rust_str(lit):
    """Decode a Rust string literal body: r#"..."# raw or "..." with escapes."""
    return lit


def builtins(src):
    body = need(re.search(r'fn make_builtin_specializations\(shell: Shell\).*?\n}\n', src, re.S),
                'make_builtin_specializations').group(0)
    out = {}
    for name, var in (('PATH', 'path_spec'), ('DIRECTORY', 'directory_spec')):
        blk = need(re.search(r'let %s = match shell \{(.*?)\n    \};' % var, body, re.S), var).group(1)
        need(re.search(r'ustr\("%s"\)' % name, body), 'entry ' + name)
        for sh in ('Bash', 'Fish', 'Zsh', 'Pwsh'):
            m = need(re.search(r'Shell::%s => BuiltinSpec \{.*?cmd: ustr\(r#"(.*?)"#\)' % sh, blk, re.S),
                     '%s %s' % (var, sh))
            out[(name, sh)] = m.group(1)
    return out


def replace_chain(src, fname):
    fn = need(re.search(r'fn make_string_constant\(s: &str\) -> String \{(.*?)\n}\n', src, re.S),
              fname + ' make_string_constant').group(1)
    chain = []
    for m in re.finditer(r'''\.replace\(\s*('(?:\\.|[^'])+'|"(?:\\.|[^"])*")\s*,\s*("(?:\\.|[^"])*")\s*\)''', fn):
        a, b = m.group(1), m.group(2)
        chain.append((unescape(a[1:-1]), unescape(b[1:-1])))
    fmt = need(re.search(r'format!\(\s*r#"(.*?)"#', fn, re.S), fname + ' format').group(1)
    return fmt, chain


def unescape(s):
    out = []
    i = 0
    while i < len(s):
        if s[i] == '\\':
            c = s[i + 1]
            out.append({'n': '\n', 't': '\t', 'r': '\r', '\\': '\\', '"': '"', "'": "'", '0': '\0'}[c])
            i += 2
        else:
            out.append(s[i]); i += 1
    return ''.join(out)


def array_start(src, fname):
    return int(need(re.search(r'pub const ARRAY_START: u32 = (\d+);', src), fname + ' ARRAY_START').group(1))


def rust_char(lit):
    """Decode the body of a Rust char literal ('a', '\\\\', '\\'', '\\u{000C}', '\\n')."""
    if lit.startswith('\\u{') and lit.endswith('}'):
        return chr(int(lit[3:-1], 16))
    if lit.startswith('\\'):
        return unescape(lit)
    if len(lit) != 1:
        raise Anchor('unreadable char literal %r' % lit)
    return lit


CHAR_LIT = r"""'((?:\\u\{[0-9A-Fa-f]+\}|\\.|[^'\\]))'"""


def fn_body(src, name):
    """Text of `fn name(...) ... {` up to the closing brace at the same indentation."""
    m = need(re.search(r'^( *)fn %s\b[^\n]*\{\n(.*?)^\1\}\n' % re.escape(name), src, re.S | re.M), 'fn ' + name)
    return m.group(2)


def terminal_chars(src):
    """parse.rs `terminal`: regular characters, escapable characters, and whether the remaining
    input is re-wrapped into a fresh LocatedSpan (`.into()` from a bare &str) after the backslash
    and after the escaped character."""
    term = fn_body(src, 'terminal')
    reg = need(re.search(r'fn is_regular_terminal_char\(c: char\) -> bool \{(.*?)\n    \}', term, re.S),
               'is_regular_terminal_char').group(1)
    alnum = bool(re.search(r'c\.is_ascii_alphanumeric\(\)', reg))
    mm = need(re.search(r'matches!\(\s*c,(.*?)\)\s*$', reg, re.S), 'is_regular_terminal_char matches!').group(1)
    punct = [rust_char(x) for x in re.findall(CHAR_LIT, mm)]
    leftover = re.sub(CHAR_LIT, '', mm)
    if re.sub(r'[\s|,]', '', leftover):
        raise Anchor('is_regular_terminal_char: unexpected pattern text %r' % leftover.strip())
    rest = re.sub(CHAR_LIT, '', re.sub(r'matches!\(.*\)\s*$', '', reg, flags=re.S))
    if re.sub(r'\s|\|\|', '', rest.replace('c.is_ascii_alphanumeric()', '')):
        raise Anchor('is_regular_terminal_char: unexpected clause %r' % rest.strip())
    loop = term[term.index('let mut term'):]
    esc = need(re.search(r"while (?:let Some\(after\) = input\.strip_prefix\('\\\\'\)|input\.starts_with\('\\\\'\)) \{(.*?)\n        \}\n",
                         loop, re.S), 'terminal escape loop').group(1)
    sw = need(re.search(r'input\.starts_with\(\[(.*?)\]\)', esc, re.S), 'escapable set').group(1)
    escapable = [rust_char(x) for x in re.findall(CHAR_LIT, sw)]
    if re.sub(r'[\s,]', '', re.sub(CHAR_LIT, '', sw)):
        raise Anchor('escapable set: unexpected text')
    # how the loop continues after the backslash / after the escaped character
    a = need(re.search(r'^\s*input = ([^;]*);', esc, re.M), 'terminal: continuation after backslash').group(1)
    b = need(re.search(r'consumed \+= 1;\s*input = ([^;]*);', esc, re.S), 'terminal: continuation after escaped char').group(1)

    def resets(expr, what):
        e = re.sub(r'\s', '', expr)
        if e in ('after.into()', 'chars.as_str().into()', 'Span::new(after)', 'Span::new(chars.as_str())'):
            return True      # a fresh LocatedSpan: offset 0, line 1
        if re.fullmatch(r'(input\.)?(take_from|slice|take_split)\(.*\)(\.[01])?|after|rest|input\.take_from\(\d+\)', e):
            return False     # stays inside the original LocatedSpan
        raise Anchor('terminal: cannot classify continuation %s: %r' % (what, expr))
    for tag in ('"..."',):
        need(re.search(r'input\.starts_with\(%s\)' % re.escape(tag), loop), 'terminal: ... check')
    return alnum, punct, escapable, resets(a, 'after backslash'), resets(b, 'after escaped char')


def blank_chars(src):
    c = need(re.search(r"fn comment\(input: Span\).*?char\(" + CHAR_LIT + r"\)\(input\)\?;.*?take_till\(\|c\| c == " + CHAR_LIT + r"\)",
                       src, re.S), 'comment')
    f = need(re.search(r"fn form_feed\(input: Span\).*?char\(" + CHAR_LIT + r"\)\(input\)\?;", src, re.S), 'form_feed')
    need(re.search(r'alt\(\(multispace1, comment, form_feed\)\)', src), 'blanks = multispace1 | comment | form_feed')
    return rust_char(c.group(1)), rust_char(c.group(2)), rust_char(f.group(1))


def coq_ascii(ch):
    return '(ascii_of_N %d)' % ord(ch)


def main():
    repo, outdir = sys.argv[1], sys.argv[2]
    rd = lambda f: open(os.path.join(repo, 'src', f), encoding='utf-8').read()
    lines = ['(* GENERATED by translator/rs2v.py from %s/src -- do not edit *)' % repo,
             'From Coq Require Import List String Ascii NArith.', 'Import ListNotations.',
             'From CG Require Import Model.Ast.', 'Open Scope string_scope.', '']
    b = builtins(rd('check.rs'))
    lines.append('Definition builtins (sh : shell) : list (string * string) :=')
    lines.append('  match sh with')
    for sh in ('Bash', 'Fish', 'Zsh', 'Pwsh'):
        lines.append('  | %s => [("PATH", %s); ("DIRECTORY", %s)]'
                     % (sh, coq_string(b[('PATH', sh)]), coq_string(b[('DIRECTORY', sh)])))
    lines.append('  end.')
    lines.append('')
    for sh, f in (('bash', 'bash.rs'), ('fish', 'fish.rs'), ('zsh', 'zsh.rs'), ('pwsh', 'pwsh.rs')):
        src = rd(f)
        lines.append('Definition array_start_%s : N := %d%%N.' % (sh, array_start(src, f)))
        fmt, chain = replace_chain(src, f)
        lines.append('Definition quote_chain_%s : list (string * string) := [%s].'
                     % (sh, '; '.join('(%s, %s)' % (coq_string(a), coq_string(c)) for a, c in chain)))
        pre, post = fmt.split('{}')
        lines.append('Definition quote_open_%s : string := %s.' % (sh, coq_string(pre)))
        lines.append('Definition quote_close_%s : string := %s.' % (sh, coq_string(post)))
        lines.append('')
    # parse.rs: character classes of the terminal lexer and the blank characters
    psrc = rd('parse.rs')
    alnum, punct, escapable, r1, r2 = terminal_chars(psrc)
    cstart, cend, ff = blank_chars(psrc)
    lines.append('Definition terminal_regular_alnum : bool := %s.' % ('true' if alnum else 'false'))
    lines.append('Definition terminal_regular_punct : string := %s.' % coq_string(''.join(punct)))
    lines.append('Definition terminal_escapable : string := %s.' % coq_string(''.join(escapable)))
    lines.append('Definition terminal_reset_after_backslash : bool := %s.' % ('true' if r1 else 'false'))
    lines.append('Definition terminal_reset_after_escaped : bool := %s.' % ('true' if r2 else 'false'))
    lines.append('Definition comment_start_char : ascii := %s.' % coq_ascii(cstart))
    lines.append('Definition comment_end_char : ascii := %s.' % coq_ascii(cend))
    lines.append('Definition form_feed_char : ascii := %s.' % coq_ascii(ff))
    lines.append('')
    text = '\n'.join(lines) + '\n'
    os.makedirs(outdir, exist_ok=True)
    path = os.path.join(outdir, 'Consts.v')
    if not os.path.exists(path) or open(path).read() != text:
        open(path, 'w').write(text)
        print('regenerated', path)


def bash_skeleton_note(repo):
    """T3 for the bash skeleton (Model/BashSem.v): hashes of bash.rs's r#".."# templates against the committed
    lock; the checks that rest on BashSem (lib/vf/t2.py: template_status) turn a changed template into a broken tie."""
    import bash_templates
    st = bash_templates.status(repo)
    print('BASH-TEMPLATES variant=%s changed=%s missing=%s extra=%s' % (st['variant'], st['changed'], st['missing'], st['extra']))


if __name__ == '__main__':
    try:
        main()
        bash_skeleton_note(sys.argv[1])
    except Anchor as e:
        print('TRANSLATOR-ANCHOR-MISSING:', e)
        sys.exit(3)
