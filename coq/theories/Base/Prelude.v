(** Shared prelude: imports, the outcome type, association lists, small string helpers. *)
From Coq Require Export List String Ascii Bool NArith Arith Lia.
Export ListNotations.
Open Scope string_scope.
Open Scope N_scope.
Open Scope list_scope.

Arguments N.add : simpl never.
Arguments N.sub : simpl never.
Arguments N.mul : simpl never.
Arguments N.eqb : simpl never.
Arguments N.ltb : simpl never.
Arguments N.leb : simpl never.

(** What a Rust function can do: return, return an [Err], panic at a named site, or (in the
    model only) run out of fuel.  [Panic] and [OutOfFuel] are values theorems talk about. *)
Inductive outcome (E A : Type) : Type :=
| Ok (a : A)
| Err (e : E)
| Panic (site : string)
| OutOfFuel.
Arguments Ok {E A} a.
Arguments Err {E A} e.
Arguments Panic {E A} site.
Arguments OutOfFuel {E A}.

Definition obind {E A B} (x : outcome E A) (f : A -> outcome E B) : outcome E B :=
  match x with
  | Ok a => f a
  | Err e => Err e
  | Panic s => Panic s
  | OutOfFuel => OutOfFuel
  end.
Notation "'do' x <- a ; b" := (obind a (fun x => b))
  (at level 200, x pattern, a at level 100, b at level 200).

Definition is_ok {E A} (x : outcome E A) : bool :=
  match x with Ok _ => true | _ => false end.

Fixpoint omap {E A B} (f : A -> outcome E B) (l : list A) : outcome E (list B) :=
  match l with
  | [] => Ok []
  | x :: r => do y <- f x; do ys <- omap f r; Ok (y :: ys)
  end.

(** Association lists keyed by strings, in insertion order. *)
Fixpoint assoc {V} (k : string) (l : list (string * V)) : option V :=
  match l with
  | [] => None
  | (k', v) :: r => if String.eqb k k' then Some v else assoc k r
  end.

Definition mem_str (k : string) (l : list string) : bool :=
  existsb (String.eqb k) l.

Fixpoint assocN {V} (k : N) (l : list (N * V)) : option V :=
  match l with
  | [] => None
  | (k', v) :: r => if N.eqb k k' then Some v else assocN k r
  end.

Definition memN (k : N) (l : list N) : bool := existsb (N.eqb k) l.

Definition nthN {A} (l : list A) (i : N) : option A := nth_error l (N.to_nat i).

Definition lenN {A} (l : list A) : N := N.of_nat (List.length l).

(** Does [s] contain the character [c]? *)
Fixpoint contains_char (c : ascii) (s : string) : bool :=
  match s with
  | EmptyString => false
  | String a r => if Ascii.eqb a c then true else contains_char c r
  end.

Definition option_eqb {A} (eqb : A -> A -> bool) (x y : option A) : bool :=
  match x, y with
  | None, None => true
  | Some a, Some b => eqb a b
  | _, _ => false
  end.

(** Fuel by doubling, so that no large [nat] literal is ever written. *)
Fixpoint pow2 (n : nat) : nat := match n with O => 1%nat | S k => (2 * pow2 k)%nat end.
