(** C10 -- output is a pure function of the input.
    A Gallina function is deterministic by construction, so the model's determinism says nothing.
    What is proved here is the soundness of the one comparison through which a per-process random
    hash seed could (and, before the repair, did) reach the output: interning of within-word
    automata.  Everything else C10 rests on (fixed-key hashing of hashbrown/ustr, orders of
    IndexMap/BTreeMap) is checked per run by lib/vf/checks/c10.py, not proved: see DESIGN section 6 C10.
    Order-insensitivity theorems that live elsewhere: minimisation does not depend on the work-list
    order (Props/C03.v), the validated tree does not depend on the order of definitions
    (Props/C14.v). *)
From CG Require Import Base.Prelude Model.Dfa Model.DfaEqb Proofs.DfaEq.

Theorem C10_intern_equality_exact :
  forall a b : dfa, dfa_eqb a b = true <-> a = b.
Proof. exact dfa_eqb_eq. Qed.
Check C10_intern_equality_exact : forall a b : dfa, dfa_eqb a b = true <-> a = b.
Print Assumptions C10_intern_equality_exact.

Theorem C10_interned_same_language :
  forall a b : dfa, dfa_eqb a b = true -> forall w, accepts a w = accepts b w.
Proof. exact dfa_eqb_same_language. Qed.
Check C10_interned_same_language :
  forall a b : dfa, dfa_eqb a b = true -> forall w, accepts a w = accepts b w.
Print Assumptions C10_interned_same_language.

(** The comparison of the pinned code (input pools as sets) is refuted: it identifies the
    within-word automata of a[b] and b[a].  Which of the two survived depended on the hash seed. *)
Theorem C10_unordered_comparison_refuted :
  dfa_eqb_unordered wit_ab wit_ba = true /\ dfa_eqb wit_ab wit_ba = false
  /\ accepts wit_ab [0] = true /\ texts wit_ab [0] = [Some (ILit "a" None 0)]
  /\ accepts wit_ba [0] = true /\ texts wit_ba [0] = [Some (ILit "b" None 0)].
Proof. exact unordered_comparison_refuted. Qed.
Check C10_unordered_comparison_refuted :
  dfa_eqb_unordered wit_ab wit_ba = true /\ dfa_eqb wit_ab wit_ba = false
  /\ accepts wit_ab [0] = true /\ texts wit_ab [0] = [Some (ILit "a" None 0)]
  /\ accepts wit_ba [0] = true /\ texts wit_ba [0] = [Some (ILit "b" None 0)].
Print Assumptions C10_unordered_comparison_refuted.

Example ex_C10_inhabited : dfa_eqb wit_ab wit_ab = true /\ wit_ab <> wit_ba.
Proof. split; [reflexivity|discriminate]. Qed.
Print Assumptions ex_C10_inhabited.
