(** C06 -- the compiler never crashes or hangs (checker part).
    Statements only; proofs in Proofs/CheckTotal.v and Proofs/CheckCycle.v.

    The model of [ValidGrammar::from_grammar] returns [Ok] or [Err] on every grammar and every
    shell: it never reaches its only panic site (a [DistributiveDescription] met by
    [check_subword_spaces]) and none of its fuel-bounded loops runs out of fuel -- in
    particular the walk of [check_subword_spaces], which follows nonterminal references itself
    (unbounded recursion in the real code), is guarded by the success of the cycle search. *)
From CG Require Import Base.Prelude Model.Ast Model.Check.
From CG Require Import Proofs.CheckLemmas Proofs.CheckCycle Proofs.CheckTotal.
From CGgen Require Import Consts.

Theorem C06_checker_total :
  forall builtins g sh,
    (exists v, from_grammar builtins g sh = Ok v) \/ (exists e, from_grammar builtins g sh = Err e).
Proof. exact from_grammar_total. Qed.
Check C06_checker_total :
  forall builtins g sh,
    (exists v, from_grammar builtins g sh = Ok v) \/ (exists e, from_grammar builtins g sh = Err e).
Print Assumptions C06_checker_total.

(** (a) the cycle search, with the fuel [S (length defs)], on any list of definitions *)
Theorem C06_cycle_search_total :
  forall defs,
    (exists ord, resolution_order defs = Ok ord) \/ (exists e, resolution_order defs = Err e).
Proof. exact resolution_order_total. Qed.
Check C06_cycle_search_total :
  forall defs,
    (exists ord, resolution_order defs = Ok ord) \/ (exists e, resolution_order defs = Err e).
Print Assumptions C06_cycle_search_total.

(** (b) once the cycle search succeeded, no entry of the resolved table refers to a definition
    any more ... *)
Theorem C06_resolved_table_closed :
  forall defs2 ord,
    table_dd_free (table0_of defs2) ->
    resolution_order defs2 = Ok ord ->
    let table := resolve_in_order ord (table0_of defs2) in
    forall n rhs, assoc n table = Some rhs -> closed (map fst table) rhs.
Proof. exact resolved_table_closed. Qed.
Check C06_resolved_table_closed :
  forall defs2 ord,
    table_dd_free (table0_of defs2) ->
    resolution_order defs2 = Ok ord ->
    let table := resolve_in_order ord (table0_of defs2) in
    forall n rhs, assoc n table = Some rhs -> closed (map fst table) rhs.
Print Assumptions C06_resolved_table_closed.

(** ... so the walk of [check_subword_spaces] terminates within the fuel it is given. *)
Theorem C06_subword_walk_total :
  forall defs2 ord e,
    table_dd_free (table0_of defs2) -> dd_free e ->
    resolution_order defs2 = Ok ord ->
    let table := resolve_in_order ord (table0_of defs2) in
    spaces table (spaces_fuel table e) e [] false false = Ok tt \/
    exists err, spaces table (spaces_fuel table e) e [] false false = Err err.
Proof. exact spaces_after_search_total. Qed.
Check C06_subword_walk_total :
  forall defs2 ord e,
    table_dd_free (table0_of defs2) -> dd_free e ->
    resolution_order defs2 = Ok ord ->
    let table := resolve_in_order ord (table0_of defs2) in
    spaces table (spaces_fuel table e) e [] false false = Ok tt \/
    exists err, spaces table (spaces_fuel table e) e [] false false = Err err.
Print Assumptions C06_subword_walk_total.

(** Non-vacuity: a chain of definitions as deep as there are definitions is accepted; a cycle
    that no root reaches is an error; a [DistributiveDescription] reaching the walk would be a
    panic (so the guard is needed), but [from_grammar] removes it first. *)
Definition ex_sp := mkspan 1 1 2.
Definition ex_chain : grammar :=
  [ CallVariant "cmd" ex_sp (Subword (Sequence [Terminal "a" None 0 ex_sp; NontermRef "A" 0 ex_sp] ex_sp) 0 ex_sp);
    NontermDef "C" ex_sp None (DistDescr (Terminal "c" None 0 ex_sp) "d" ex_sp);
    NontermDef "B" ex_sp None (Optional (NontermRef "C" 0 ex_sp) ex_sp);
    NontermDef "A" ex_sp None (Alternative [NontermRef "B" 0 ex_sp; NontermRef "C" 0 ex_sp] ex_sp) ].
Definition ex_cycle : grammar :=
  [ CallVariant "cmd" ex_sp (Terminal "a" None 0 ex_sp);
    NontermDef "A" ex_sp None (NontermRef "B" 0 ex_sp);
    NontermDef "B" ex_sp None (NontermRef "A" 0 ex_sp) ].
Example ex_C06_inhabited :
  is_ok (from_grammar builtins ex_chain Bash) = true
  /\ (exists spans, from_grammar builtins ex_cycle Zsh = Err (NonterminalDefinitionsCycle spans))
  /\ (exists s, spaces [] 5 (DistDescr (Terminal "c" None 0 ex_sp) "d" ex_sp) [] false false = Panic s)
  /\ spaces [("A", NontermRef "A" 0 ex_sp)] 5 (NontermRef "A" 0 ex_sp) [] false false = OutOfFuel.
Proof. vm_compute. repeat split; try reflexivity; eexists; reflexivity. Qed.
Print Assumptions ex_C06_inhabited.
