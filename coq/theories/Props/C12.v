(** C12 -- inside a word, overlapping alternatives are told apart.
    Statements only; proofs live in Proofs/C12Proofs.v, Proofs/C12Chain.v (on Model/BashSem.v, the interpreter of
    the emitted bash skeleton, tied to real bash by T2).

    [Fixed] is the within-word loop after the repair proposed in REPORT-bashsem.md (the "typed text is a prefix of
    this literal => stop" test only when completing and only for literals that have a transition from the current
    state); [Pinned] is the loop in /repo, which violates the first half of the property
    ([C12_refuted_shorter_value]). *)
From CG Require Import Base.Prelude Model.Dfa Model.Glob Model.BashSem Model.ChainTables.
From CG Require Import Proofs.GlobFacts Proofs.SubwordFacts Proofs.C12Proofs Proofs.C12Chain Proofs.C12Pinned.

(** (a), on ANY within-word tables: in a state [s] where the typed rest [v] is the text of a literal that has a
    transition (to [to]), the repaired matcher consumes exactly [v] and ends matched in [to] -- whatever longer or
    shorter literals exist, enabled in [s] or not.  The literal array is in decreasing length (dfa.rs). *)
Theorem C12_values_recognised :
  forall fuel tabs e T word s st ci v to log,
    all_plain (lits_of T) -> plain word = true -> sorted_desc (lits_of T) ->
    assocN s (t_mlit T) = Some st ->
    sdrop ci word = v -> (ci < String.length word)%nat ->
    first_enabled (lits_of T) st v = Some to ->
    sw_loop (S (S fuel)) Fixed false tabs e T word s ci log = Ok (true, to, String.length word, log).
Proof. exact fixed_value_recognised. Qed.
Check C12_values_recognised :
  forall fuel tabs e T word s st ci v to log,
    all_plain (lits_of T) -> plain word = true -> sorted_desc (lits_of T) ->
    assocN s (t_mlit T) = Some st ->
    sdrop ci word = v -> (ci < String.length word)%nat ->
    first_enabled (lits_of T) st v = Some to ->
    sw_loop (S (S fuel)) Fixed false tabs e T word s ci log = Ok (true, to, String.length word, log).
Print Assumptions C12_values_recognised.

(** The loop pinned in /repo, exactly: it also recognises [v] when no literal of the array -- expected at this
    point or not -- properly extends [v] (and [v]'s text is not shadowed by a disabled duplicate) ... *)
Theorem C12_pinned_outside_known :
  forall fuel tabs e T word s st ci v to log,
    all_plain (lits_of T) -> plain word = true -> sorted_desc (lits_of T) ->
    assocN s (t_mlit T) = Some st ->
    sdrop ci word = v -> (ci < String.length word)%nat ->
    first_enabled (lits_of T) st v = Some to ->
    (forall id l, In (id, l) (lits_of T) -> String.prefix v l = true -> l = v /\ assocN id st <> None) ->
    sw_loop (S (S fuel)) Pinned false tabs e T word s ci log = Ok (true, to, String.length word, log).
Proof. exact pinned_value_recognised_outside_known. Qed.
Check C12_pinned_outside_known :
  forall fuel tabs e T word s st ci v to log,
    all_plain (lits_of T) -> plain word = true -> sorted_desc (lits_of T) ->
    assocN s (t_mlit T) = Some st ->
    sdrop ci word = v -> (ci < String.length word)%nat ->
    first_enabled (lits_of T) st v = Some to ->
    (forall id l, In (id, l) (lits_of T) -> String.prefix v l = true -> l = v /\ assocN id st <> None) ->
    sw_loop (S (S fuel)) Pinned false tabs e T word s ci log = Ok (true, to, String.length word, log).
Print Assumptions C12_pinned_outside_known.

(** ... and it refuses [v] as soon as some literal of the array properly extends it (the known finding: this is the
    class lib/vf/checks/c12.py attributes violations to). *)
Theorem C12_pinned_known_class :
  forall fuel tabs e T word s st ci v log,
    all_plain (lits_of T) -> plain word = true -> sorted_desc (lits_of T) ->
    assocN s (t_mlit T) = Some st ->
    sdrop ci word = v -> (ci < String.length word)%nat ->
    (exists id l, In (id, l) (lits_of T) /\ String.prefix v l = true /\ l <> v) ->
    sw_loop (S fuel) Pinned false tabs e T word s ci log = Ok (false, s, ci, log).
Proof. exact pinned_value_refused. Qed.
Check C12_pinned_known_class :
  forall fuel tabs e T word s st ci v log,
    all_plain (lits_of T) -> plain word = true -> sorted_desc (lits_of T) ->
    assocN s (t_mlit T) = Some st ->
    sdrop ci word = v -> (ci < String.length word)%nat ->
    (exists id l, In (id, l) (lits_of T) /\ String.prefix v l = true /\ l <> v) ->
    sw_loop (S fuel) Pinned false tabs e T word s ci log = Ok (false, s, ci, log).
Print Assumptions C12_pinned_known_class.

(** (b), on ANY within-word tables: when the typed rest is a proper prefix of a literal enabled in [s], the
    repaired matcher stays in [s] in front of it ... *)
Theorem C12_partial_stops :
  forall fuel tabs e T word s st ci log,
    all_plain (lits_of T) -> plain word = true -> sorted_desc (lits_of T) ->
    assocN s (t_mlit T) = Some st ->
    (exists id v to, In (id, v) (lits_of T) /\ assocN id st = Some to
                     /\ String.prefix (sdrop ci word) v = true /\ sdrop ci word <> v) ->
    exists m, sw_loop (S fuel) Fixed true tabs e T word s ci log = Ok (m, s, ci, log).
Proof. exact fixed_partial_stops. Qed.
Check C12_partial_stops :
  forall fuel tabs e T word s st ci log,
    all_plain (lits_of T) -> plain word = true -> sorted_desc (lits_of T) ->
    assocN s (t_mlit T) = Some st ->
    (exists id v to, In (id, v) (lits_of T) /\ assocN id st = Some to
                     /\ String.prefix (sdrop ci word) v = true /\ sdrop ci word <> v) ->
    exists m, sw_loop (S fuel) Fixed true tabs e T word s ci log = Ok (m, s, ci, log).
Print Assumptions C12_partial_stops.

(** ... and the completion part then offers exactly the level-0 literals of [s] that extend the typed word. *)
Theorem C12_partial_offers :
  forall n tabs e T word s ci log,
    e_ignore_case e = false -> printable_str word = true ->
    t_ccmd T = None ->
    filter (String.prefix word) (map (fun id => (stake ci word ++ literal_at T id)%string) (level_row (t_clit T) 0 s)) <> [] ->
    sw_levels (S n) 0 tabs e T s (stake ci word) (sdrop ci word) [] [] log
    = Ok (filter (String.prefix word) (map (fun id => (stake ci word ++ literal_at T id)%string) (level_row (t_clit T) 0 s)), log).
Proof. exact levels_offer_extensions. Qed.
Check C12_partial_offers :
  forall n tabs e T word s ci log,
    e_ignore_case e = false -> printable_str word = true ->
    t_ccmd T = None ->
    filter (String.prefix word) (map (fun id => (stake ci word ++ literal_at T id)%string) (level_row (t_clit T) 0 s)) <> [] ->
    sw_levels (S n) 0 tabs e T s (stake ci word) (sdrop ci word) [] [] log
    = Ok (filter (String.prefix word) (map (fun id => (stake ci word ++ literal_at T id)%string) (level_row (t_clit T) 0 s)), log).
Print Assumptions C12_partial_offers.

(** End to end, on the tables the pipeline emits for  cmd <pre>(<v1>|...|<vn>) <next>;  ([chain_alltables],
    compared with Rust's TABLES dump by lib/vf/checks/c12.py for every grammar of the exhaustive family): for an
    arbitrary literal set in decreasing length -- any prefix chains --
    (a) a fully typed value followed by the cursor: return code 0 and [next] is offered; *)
Theorem C12_chain_value_recognised :
  forall lits ipre pre next,
    nthN lits ipre = Some pre ->
    (forall l, In l lits -> plain l = true) ->
    (forall l, In l lits -> l <> EmptyString) ->
    sorted_len lits ->
    forall e v,
      e_wordbreaks e = EmptyString \/ e_wordbreaks e = default_wordbreaks ->
      is_value lits pre v ->
      run_from Fixed 0 (chain_alltables lits ipre next) e [(pre ++ v)%string] EmptyString
      = Ok (mkresult 0 [(next ++ " ")%string] []).
Proof. exact chain_value_recognised. Qed.
Check C12_chain_value_recognised :
  forall lits ipre pre next,
    nthN lits ipre = Some pre ->
    (forall l, In l lits -> plain l = true) ->
    (forall l, In l lits -> l <> EmptyString) ->
    sorted_len lits ->
    forall e v,
      e_wordbreaks e = EmptyString \/ e_wordbreaks e = default_wordbreaks ->
      is_value lits pre v ->
      run_from Fixed 0 (chain_alltables lits ipre next) e [(pre ++ v)%string] EmptyString
      = Ok (mkresult 0 [(next ++ " ")%string] []).
Print Assumptions C12_chain_value_recognised.

(** (b) a partially typed value under the cursor: exactly the values extending it, in table order. *)
Theorem C12_chain_partial_offers :
  forall lits ipre pre next,
    nthN lits ipre = Some pre ->
    (forall l, In l lits -> plain l = true) ->
    (forall l, In l lits -> printable_str l = true) ->
    (forall l, In l lits -> l <> EmptyString) ->
    sorted_len lits ->
    forall e p,
      e_ignore_case e = false -> e_wordbreaks e = EmptyString ->
      plain p = true -> printable_str p = true ->
      (exists v, is_value lits pre v /\ String.prefix p v = true /\ p <> v) ->
      run_from Fixed 0 (chain_alltables lits ipre next) e [] (pre ++ p)
      = Ok (mkresult 0 (map (append pre) (filter (String.prefix p) (values lits ipre))) []).
Proof. exact chain_partial_offers. Qed.
Check C12_chain_partial_offers :
  forall lits ipre pre next,
    nthN lits ipre = Some pre ->
    (forall l, In l lits -> plain l = true) ->
    (forall l, In l lits -> printable_str l = true) ->
    (forall l, In l lits -> l <> EmptyString) ->
    sorted_len lits ->
    forall e p,
      e_ignore_case e = false -> e_wordbreaks e = EmptyString ->
      plain p = true -> printable_str p = true ->
      (exists v, is_value lits pre v /\ String.prefix p v = true /\ p <> v) ->
      run_from Fixed 0 (chain_alltables lits ipre next) e [] (pre ++ p)
      = Ok (mkresult 0 (map (append pre) (filter (String.prefix p) (values lits ipre))) []).
Print Assumptions C12_chain_partial_offers.

(** The second half of the property also holds for the loop pinned in /repo on this family, provided no value
    extends the literal piece itself (otherwise its stop test fires in state 0 on a literal not expected there). *)
Theorem C12_chain_partial_offers_pinned :
  forall lits ipre pre next,
    nthN lits ipre = Some pre -> NoDup lits ->
    (forall l, In l lits -> plain l = true) ->
    (forall l, In l lits -> printable_str l = true) ->
    (forall l, In l lits -> l <> EmptyString) ->
    sorted_len lits ->
    (forall v, is_value lits pre v -> String.prefix pre v = false) ->
    forall e p,
      e_ignore_case e = false -> e_wordbreaks e = EmptyString ->
      plain p = true -> printable_str p = true ->
      (exists v, is_value lits pre v /\ String.prefix p v = true /\ p <> v) ->
      run_from Pinned 0 (chain_alltables lits ipre next) e [] (pre ++ p)
      = Ok (mkresult 0 (map (append pre) (filter (String.prefix p) (values lits ipre))) []).
Proof. exact chain_partial_offers_pinned. Qed.
Check C12_chain_partial_offers_pinned :
  forall lits ipre pre next,
    nthN lits ipre = Some pre -> NoDup lits ->
    (forall l, In l lits -> plain l = true) ->
    (forall l, In l lits -> printable_str l = true) ->
    (forall l, In l lits -> l <> EmptyString) ->
    sorted_len lits ->
    (forall v, is_value lits pre v -> String.prefix pre v = false) ->
    forall e p,
      e_ignore_case e = false -> e_wordbreaks e = EmptyString ->
      plain p = true -> printable_str p = true ->
      (exists v, is_value lits pre v /\ String.prefix p v = true /\ p <> v) ->
      run_from Pinned 0 (chain_alltables lits ipre next) e [] (pre ++ p)
      = Ok (mkresult 0 (map (append pre) (filter (String.prefix p) (values lits ipre))) []).
Print Assumptions C12_chain_partial_offers_pinned.

(** The loop pinned in /repo violates (a):  cmd --opt=(a | abc | abcd) next;  with  --opt=a  typed and a
    following word returns 1, where the repaired loop continues with [next]; (b) is not affected. *)
Definition witness_tables : alltables := chain_alltables ["--opt="; "abcd"; "abc"; "a"] 0 "next".
Definition witness_env : env := mkenv default_wordbreaks [] false.

Theorem C12_refuted_shorter_value :
  run_from Pinned 0 witness_tables witness_env ["--opt=a"] "" = Ok (mkresult 1 [] [])
  /\ run_from Pinned 0 witness_tables witness_env ["--opt=abc"] "" = Ok (mkresult 1 [] [])
  /\ run_from Pinned 0 witness_tables witness_env ["--opt=abcd"] "" = Ok (mkresult 0 ["next "] [])
  /\ run_from Fixed 0 witness_tables witness_env ["--opt=a"] "" = Ok (mkresult 0 ["next "] [])
  /\ run_from Pinned 0 witness_tables witness_env [] "--opt=a" = Ok (mkresult 0 ["abcd"; "abc"; "a"] [])
  /\ run_from Fixed 0 witness_tables witness_env [] "--opt=a" = Ok (mkresult 0 ["abcd"; "abc"; "a"] []).
Proof. vm_compute. repeat split; reflexivity. Qed.
Check C12_refuted_shorter_value :
  run_from Pinned 0 witness_tables witness_env ["--opt=a"] "" = Ok (mkresult 1 [] [])
  /\ run_from Pinned 0 witness_tables witness_env ["--opt=abc"] "" = Ok (mkresult 1 [] [])
  /\ run_from Pinned 0 witness_tables witness_env ["--opt=abcd"] "" = Ok (mkresult 0 ["next "] [])
  /\ run_from Fixed 0 witness_tables witness_env ["--opt=a"] "" = Ok (mkresult 0 ["next "] [])
  /\ run_from Pinned 0 witness_tables witness_env [] "--opt=a" = Ok (mkresult 0 ["abcd"; "abc"; "a"] [])
  /\ run_from Fixed 0 witness_tables witness_env [] "--opt=a" = Ok (mkresult 0 ["abcd"; "abc"; "a"] []).
Print Assumptions C12_refuted_shorter_value.

(** Non-vacuity: the hypotheses of the end-to-end theorems hold for the witness grammar, and its three values
    are values in the sense of the theorems. *)
Example ex_C12_inhabited :
  let lits := ["--opt="; "abcd"; "abc"; "a"] in
  nthN lits 0 = Some "--opt="
  /\ (forall l, In l lits -> plain l = true)
  /\ (forall l, In l lits -> printable_str l = true)
  /\ (forall l, In l lits -> l <> EmptyString)
  /\ sorted_len lits
  /\ is_value lits "--opt=" "a" /\ is_value lits "--opt=" "abc" /\ is_value lits "--opt=" "abcd"
  /\ (exists v, is_value lits "--opt=" v /\ String.prefix "ab" v = true /\ "ab" <> v)
  /\ values lits 0 = ["abcd"; "abc"; "a"].
Proof.
  cbv zeta. repeat split.
  - intros l H. cbn in H. repeat (destruct H as [<-|H]; [reflexivity|]). contradiction.
  - intros l H. cbn in H. repeat (destruct H as [<-|H]; [reflexivity|]). contradiction.
  - intros l H. cbn in H. repeat (destruct H as [<-|H]; [discriminate|]). contradiction.
  - intros b H. cbn in H. repeat (destruct H as [<-|H]; [cbn; lia|]). contradiction.
  - intros b H. cbn in H. repeat (destruct H as [<-|H]; [cbn; lia|]). contradiction.
  - intros b H. cbn in H. repeat (destruct H as [<-|H]; [cbn; lia|]). contradiction.
  - intros b H. cbn in H. contradiction.
  - cbn; tauto.
  - discriminate.
  - cbn; tauto.
  - discriminate.
  - cbn; tauto.
  - discriminate.
  - exists "abc". repeat split; [cbn; tauto|discriminate|discriminate].
Qed.
Print Assumptions ex_C12_inhabited.
