(** C12 -- inside a word, overlapping alternatives are told apart.
    Statements only; proofs live in Proofs/C12Proofs.v, Proofs/C12Chain.v, Proofs/C12Pinned.v (on Model/BashSem.v, the
    interpreter of the emitted bash skeleton, tied to real bash by T2).

    Variants of the skeleton: [Repaired] mirrors /repo HEAD (commits 7d4f01b, ac67eca, 1567cbe: quoted operands, stop
    test only when completing and only for literals with a transition, ...); [Fixed] is the intermediate template with
    only the stop-test repair; [Pinned] is the template before, which violates the first half of the property
    ([C12_refuted_shorter_value], [C12_pinned_known_class]). *)
From CG Require Import Base.Prelude Spec.Meaning Proofs.StripFacts.
From CG Require Import Model.Dfa Model.Glob Model.BashSem Model.ChainTables.
From CG Require Import Proofs.GlobFacts Proofs.SubwordFacts Proofs.C12Proofs Proofs.C12Chain Proofs.C12Pinned Proofs.C12Strip.

(** (a), on ANY within-word tables: in a state [s] where the typed rest [v] is the text of a literal that has a
    transition (to [to]) and [to] is an accepting state of the within-word automaton ([acc]; /repo HEAD checks it since
    df274e8), the repaired matchers consume exactly [v] and end matched in [to] -- whatever longer or shorter literals
    exist, enabled in [s] or not.  The literal array is in decreasing length (dfa.rs).
    [strdom]: no further condition for [Repaired] (operands are quoted); glob-free text for [Fixed].
    [star_first var false T s = false]: the state does not also expect an undefined nonterminal -- a state that does
    accepts whatever is left without looking at the literals ([Repaired], the greedy-shadow fix of C01). *)
Theorem C12_values_recognised :
  forall var fuel tabs e T acc word s st ci v to log,
    var <> Pinned -> strdom var (lits_of T) word -> sorted_desc (lits_of T) ->
    assocN s (t_mlit T) = Some st ->
    sdrop ci word = v -> (ci < String.length word)%nat ->
    first_enabled (lits_of T) st v = Some to ->
    quirky var || memN to acc = true ->
    star_first var false T s = false ->
    sw_loop (S (S fuel)) var false tabs e T acc word s ci log = Ok (true, to, String.length word, log).
Proof. exact fixed_value_recognised. Qed.
Check C12_values_recognised :
  forall var fuel tabs e T acc word s st ci v to log,
    var <> Pinned -> strdom var (lits_of T) word -> sorted_desc (lits_of T) ->
    assocN s (t_mlit T) = Some st ->
    sdrop ci word = v -> (ci < String.length word)%nat ->
    first_enabled (lits_of T) st v = Some to ->
    quirky var || memN to acc = true ->
    star_first var false T s = false ->
    sw_loop (S (S fuel)) var false tabs e T acc word s ci log = Ok (true, to, String.length word, log).
Print Assumptions C12_values_recognised.

(** (b), on ANY within-word tables: when the typed rest is a proper prefix of a literal enabled in [s], the
    repaired matchers stay in [s] in front of it ... *)
Theorem C12_partial_stops :
  forall var fuel tabs e T acc word s st ci log,
    var <> Pinned -> strdom var (lits_of T) word -> sorted_desc (lits_of T) ->
    assocN s (t_mlit T) = Some st ->
    (exists id v to, In (id, v) (lits_of T) /\ assocN id st = Some to
                     /\ String.prefix (sdrop ci word) v = true /\ sdrop ci word <> v) ->
    exists m, sw_loop (S fuel) var true tabs e T acc word s ci log = Ok (m, s, ci, log).
Proof. exact fixed_partial_stops. Qed.
Check C12_partial_stops :
  forall var fuel tabs e T acc word s st ci log,
    var <> Pinned -> strdom var (lits_of T) word -> sorted_desc (lits_of T) ->
    assocN s (t_mlit T) = Some st ->
    (exists id v to, In (id, v) (lits_of T) /\ assocN id st = Some to
                     /\ String.prefix (sdrop ci word) v = true /\ sdrop ci word <> v) ->
    exists m, sw_loop (S fuel) var true tabs e T acc word s ci log = Ok (m, s, ci, log).
Print Assumptions C12_partial_stops.

(** ... and the completion part (every variant) then offers exactly the level-0 literals of [s] that extend the
    typed word. *)
Theorem C12_partial_offers :
  forall var n tabs e T word s ci log,
    e_ignore_case e = false -> printable_str word = true ->
    t_ccmd T = None ->
    filter (String.prefix word) (map (fun id => (stake ci word ++ literal_at T id)%string) (level_row (t_clit T) 0 s)) <> [] ->
    sw_levels (S n) 0 var tabs e T s (stake ci word) (sdrop ci word) [] [] log
    = Ok (filter (String.prefix word) (map (fun id => (stake ci word ++ literal_at T id)%string) (level_row (t_clit T) 0 s)), log).
Proof. exact levels_offer_extensions. Qed.
Check C12_partial_offers :
  forall var n tabs e T word s ci log,
    e_ignore_case e = false -> printable_str word = true ->
    t_ccmd T = None ->
    filter (String.prefix word) (map (fun id => (stake ci word ++ literal_at T id)%string) (level_row (t_clit T) 0 s)) <> [] ->
    sw_levels (S n) 0 var tabs e T s (stake ci word) (sdrop ci word) [] [] log
    = Ok (filter (String.prefix word) (map (fun id => (stake ci word ++ literal_at T id)%string) (level_row (t_clit T) 0 s)), log).
Print Assumptions C12_partial_offers.

(** End to end on /repo HEAD ([Repaired]), on the tables the pipeline emits for  cmd <pre>(<v1>|...|<vn>) <next>;
    ([chain_alltables], compared with Rust's TABLES dump by lib/vf/checks/c12.py for every grammar of the exhaustive
    family): for an arbitrary non-empty literal set in decreasing length -- any prefix chains, any characters --
    (a) a fully typed value followed by the cursor: return code 0 and [next] is offered; *)
Theorem C12_chain_value_recognised :
  forall lits ipre pre next,
    nthN lits ipre = Some pre ->
    (forall l, In l lits -> l <> EmptyString) ->
    sorted_len lits ->
    forall e v,
      e_wordbreaks e = EmptyString \/ e_wordbreaks e = default_wordbreaks ->
      is_value lits pre v ->
      run_from Repaired 0 (chain_alltables lits ipre next) e [(pre ++ v)%string] EmptyString
      = Ok (mkresult 0 [(next ++ " ")%string] []).
Proof.
  intros lits ipre pre next Hpre Hne Hs e v Hw Hv.
  apply (chain_value_recognised lits ipre pre next Hpre Repaired); try assumption; [discriminate|now left].
Qed.
Check C12_chain_value_recognised :
  forall lits ipre pre next,
    nthN lits ipre = Some pre ->
    (forall l, In l lits -> l <> EmptyString) ->
    sorted_len lits ->
    forall e v,
      e_wordbreaks e = EmptyString \/ e_wordbreaks e = default_wordbreaks ->
      is_value lits pre v ->
      run_from Repaired 0 (chain_alltables lits ipre next) e [(pre ++ v)%string] EmptyString
      = Ok (mkresult 0 [(next ++ " ")%string] []).
Print Assumptions C12_chain_value_recognised.

(** (b) a partially typed value under the cursor: exactly the values extending it, in table order. *)
Theorem C12_chain_partial_offers :
  forall lits ipre pre next,
    nthN lits ipre = Some pre ->
    (forall l, In l lits -> printable_str l = true) ->
    (forall l, In l lits -> l <> EmptyString) ->
    sorted_len lits ->
    forall e p,
      e_ignore_case e = false -> e_wordbreaks e = EmptyString ->
      printable_str p = true ->
      (exists v, is_value lits pre v /\ String.prefix p v = true /\ p <> v) ->
      run_from Repaired 0 (chain_alltables lits ipre next) e [] (pre ++ p)
      = Ok (mkresult 0 (map (append pre) (filter (String.prefix p) (values lits ipre))) []).
Proof.
  intros lits ipre pre next Hpre Hpr Hne Hs e p Hi Hw Hp Hex.
  apply (chain_partial_offers lits ipre pre next Hpre Repaired); try assumption; try discriminate; now left.
Qed.
Check C12_chain_partial_offers :
  forall lits ipre pre next,
    nthN lits ipre = Some pre ->
    (forall l, In l lits -> printable_str l = true) ->
    (forall l, In l lits -> l <> EmptyString) ->
    sorted_len lits ->
    forall e p,
      e_ignore_case e = false -> e_wordbreaks e = EmptyString ->
      printable_str p = true ->
      (exists v, is_value lits pre v /\ String.prefix p v = true /\ p <> v) ->
      run_from Repaired 0 (chain_alltables lits ipre next) e [] (pre ++ p)
      = Ok (mkresult 0 (map (append pre) (filter (String.prefix p) (values lits ipre))) []).
Print Assumptions C12_chain_partial_offers.

(** (b) for ANY COMP_WORDBREAKS without glob characters -- bash's default value included ([breaks_ok] holds for it:
    [ex_C12_default_wordbreaks]) --: the reply is the extending values with the typed word removed up to its last
    word-break character ([Meaning.strip]: for `--opt=ab` and the default value, the part after `=`).  The typed word
    must be glob-free here because `${prefix%$shortest_suffix}` and `${matches[@]#$superfluous_prefix}` take it as a
    pattern. *)
Theorem C12_chain_partial_offers_wordbreaks :
  forall lits ipre pre next,
    nthN lits ipre = Some pre ->
    (forall l, In l lits -> plain l = true) ->
    (forall l, In l lits -> printable_str l = true) ->
    (forall l, In l lits -> l <> EmptyString) ->
    sorted_len lits ->
    forall e p,
      e_ignore_case e = false -> breaks_ok (e_wordbreaks e) = true ->
      plain p = true -> printable_str p = true ->
      (exists v, is_value lits pre v /\ String.prefix p v = true /\ p <> v) ->
      run_from Repaired 0 (chain_alltables lits ipre next) e [] (pre ++ p)
      = Ok (mkresult 0 (map (Meaning.strip (e_wordbreaks e) (pre ++ p))
                            (map (append pre) (filter (String.prefix p) (values lits ipre)))) []).
Proof.
  intros lits ipre pre next Hpre Hpl Hpr Hne Hs e p.
  apply (chain_partial_offers_wordbreaks lits ipre pre next Hpre Repaired); try assumption. discriminate.
Qed.
Check C12_chain_partial_offers_wordbreaks :
  forall lits ipre pre next,
    nthN lits ipre = Some pre ->
    (forall l, In l lits -> plain l = true) ->
    (forall l, In l lits -> printable_str l = true) ->
    (forall l, In l lits -> l <> EmptyString) ->
    sorted_len lits ->
    forall e p,
      e_ignore_case e = false -> breaks_ok (e_wordbreaks e) = true ->
      plain p = true -> printable_str p = true ->
      (exists v, is_value lits pre v /\ String.prefix p v = true /\ p <> v) ->
      run_from Repaired 0 (chain_alltables lits ipre next) e [] (pre ++ p)
      = Ok (mkresult 0 (map (Meaning.strip (e_wordbreaks e) (pre ++ p))
                            (map (append pre) (filter (String.prefix p) (values lits ipre)))) []).
Print Assumptions C12_chain_partial_offers_wordbreaks.

Example ex_C12_default_wordbreaks :
  breaks_ok default_wordbreaks = true
  /\ run_from Repaired 0 (chain_alltables ["--opt="; "abcd"; "abc"; "a"] 0 "next") (mkenv default_wordbreaks [] false) [] "--opt=ab"
     = Ok (mkresult 0 ["abcd"; "abc"] []).
Proof. split; vm_compute; reflexivity. Qed.
Print Assumptions ex_C12_default_wordbreaks.

(** The same two statements for every variant with the repaired stop test (for [Fixed]: glob-free literals). *)
Theorem C12_chain_any_repaired_variant :
  forall lits ipre pre next,
    nthN lits ipre = Some pre ->
    forall var, var <> Pinned ->
    (var = Repaired \/ (forall l, In l lits -> plain l = true)) ->
    (forall l, In l lits -> printable_str l = true) ->
    (forall l, In l lits -> l <> EmptyString) ->
    sorted_len lits ->
    (forall e v,
        e_wordbreaks e = EmptyString \/ e_wordbreaks e = default_wordbreaks ->
        is_value lits pre v ->
        run_from var 0 (chain_alltables lits ipre next) e [(pre ++ v)%string] EmptyString
        = Ok (mkresult 0 [(next ++ " ")%string] []))
    /\ (forall e p,
           e_ignore_case e = false -> e_wordbreaks e = EmptyString ->
           (var = Repaired \/ plain p = true) -> printable_str p = true ->
           (exists v, is_value lits pre v /\ String.prefix p v = true /\ p <> v) ->
           run_from var 0 (chain_alltables lits ipre next) e [] (pre ++ p)
           = Ok (mkresult 0 (map (append pre) (filter (String.prefix p) (values lits ipre))) [])).
Proof.
  intros lits ipre pre next Hpre var Hvar Hdom Hpr Hne Hs. split.
  - intros e v Hw Hv. now apply (chain_value_recognised lits ipre pre next Hpre var).
  - intros e p Hi Hw Hp Hpp Hex. now apply (chain_partial_offers lits ipre pre next Hpre var).
Qed.
Check C12_chain_any_repaired_variant :
  forall lits ipre pre next,
    nthN lits ipre = Some pre ->
    forall var, var <> Pinned ->
    (var = Repaired \/ (forall l, In l lits -> plain l = true)) ->
    (forall l, In l lits -> printable_str l = true) ->
    (forall l, In l lits -> l <> EmptyString) ->
    sorted_len lits ->
    (forall e v,
        e_wordbreaks e = EmptyString \/ e_wordbreaks e = default_wordbreaks ->
        is_value lits pre v ->
        run_from var 0 (chain_alltables lits ipre next) e [(pre ++ v)%string] EmptyString
        = Ok (mkresult 0 [(next ++ " ")%string] []))
    /\ (forall e p,
           e_ignore_case e = false -> e_wordbreaks e = EmptyString ->
           (var = Repaired \/ plain p = true) -> printable_str p = true ->
           (exists v, is_value lits pre v /\ String.prefix p v = true /\ p <> v) ->
           run_from var 0 (chain_alltables lits ipre next) e [] (pre ++ p)
           = Ok (mkresult 0 (map (append pre) (filter (String.prefix p) (values lits ipre))) [])).
Print Assumptions C12_chain_any_repaired_variant.

(** *** The template before the repair ([Pinned]) *)
(** it recognises [v] exactly when no literal of the array -- expected at this point or not -- properly extends
    [v] (and [v]'s text is not shadowed by a disabled duplicate) ... *)
Theorem C12_pinned_outside_known :
  forall fuel tabs e T acc word s st ci v to log,
    all_plain (lits_of T) -> plain word = true -> sorted_desc (lits_of T) ->
    assocN s (t_mlit T) = Some st ->
    sdrop ci word = v -> (ci < String.length word)%nat ->
    first_enabled (lits_of T) st v = Some to ->
    (forall id l, In (id, l) (lits_of T) -> String.prefix v l = true -> l = v /\ assocN id st <> None) ->
    sw_loop (S (S fuel)) Pinned false tabs e T acc word s ci log = Ok (true, to, String.length word, log).
Proof. exact pinned_value_recognised_outside_known. Qed.
Check C12_pinned_outside_known :
  forall fuel tabs e T acc word s st ci v to log,
    all_plain (lits_of T) -> plain word = true -> sorted_desc (lits_of T) ->
    assocN s (t_mlit T) = Some st ->
    sdrop ci word = v -> (ci < String.length word)%nat ->
    first_enabled (lits_of T) st v = Some to ->
    (forall id l, In (id, l) (lits_of T) -> String.prefix v l = true -> l = v /\ assocN id st <> None) ->
    sw_loop (S (S fuel)) Pinned false tabs e T acc word s ci log = Ok (true, to, String.length word, log).
Print Assumptions C12_pinned_outside_known.

(** ... and it refuses [v] as soon as some literal of the array properly extends it (the finding repaired by
    ac67eca: this is the class lib/vf/checks/c12.py attributes violations to on a tree with the old template). *)
Theorem C12_pinned_known_class :
  forall fuel tabs e T acc word s st ci v log,
    all_plain (lits_of T) -> plain word = true -> sorted_desc (lits_of T) ->
    assocN s (t_mlit T) = Some st ->
    sdrop ci word = v -> (ci < String.length word)%nat ->
    (exists id l, In (id, l) (lits_of T) /\ String.prefix v l = true /\ l <> v) ->
    sw_loop (S fuel) Pinned false tabs e T acc word s ci log = Ok (false, s, ci, log).
Proof. exact pinned_value_refused. Qed.
Check C12_pinned_known_class :
  forall fuel tabs e T acc word s st ci v log,
    all_plain (lits_of T) -> plain word = true -> sorted_desc (lits_of T) ->
    assocN s (t_mlit T) = Some st ->
    sdrop ci word = v -> (ci < String.length word)%nat ->
    (exists id l, In (id, l) (lits_of T) /\ String.prefix v l = true /\ l <> v) ->
    sw_loop (S fuel) Pinned false tabs e T acc word s ci log = Ok (false, s, ci, log).
Print Assumptions C12_pinned_known_class.

(** the second half of the property held for it on this family, provided no value extends the piece itself *)
Theorem C12_chain_partial_offers_pinned :
  forall lits ipre pre next,
    nthN lits ipre = Some pre -> NoDup lits ->
    (forall l, In l lits -> plain l = true) ->
    (forall l, In l lits -> printable_str l = true) ->
    (forall l, In l lits -> l <> EmptyString) ->
    sorted_len lits ->
    (forall v, is_value lits pre v -> String.prefix pre v = false) ->
    forall e p,
      e_ignore_case e = false -> e_wordbreaks e = EmptyString ->
      plain p = true -> printable_str p = true ->
      (exists v, is_value lits pre v /\ String.prefix p v = true /\ p <> v) ->
      run_from Pinned 0 (chain_alltables lits ipre next) e [] (pre ++ p)
      = Ok (mkresult 0 (map (append pre) (filter (String.prefix p) (values lits ipre))) []).
Proof. exact chain_partial_offers_pinned. Qed.
Check C12_chain_partial_offers_pinned :
  forall lits ipre pre next,
    nthN lits ipre = Some pre -> NoDup lits ->
    (forall l, In l lits -> plain l = true) ->
    (forall l, In l lits -> printable_str l = true) ->
    (forall l, In l lits -> l <> EmptyString) ->
    sorted_len lits ->
    (forall v, is_value lits pre v -> String.prefix pre v = false) ->
    forall e p,
      e_ignore_case e = false -> e_wordbreaks e = EmptyString ->
      plain p = true -> printable_str p = true ->
      (exists v, is_value lits pre v /\ String.prefix p v = true /\ p <> v) ->
      run_from Pinned 0 (chain_alltables lits ipre next) e [] (pre ++ p)
      = Ok (mkresult 0 (map (append pre) (filter (String.prefix p) (values lits ipre))) []).
Print Assumptions C12_chain_partial_offers_pinned.

(** The witness:  cmd --opt=(a | abc | abcd) next;  with  --opt=a  typed and a following word returned 1 with the
    old template; every repaired variant continues with [next]; (b) was not affected. *)
Definition witness_tables : alltables := chain_alltables ["--opt="; "abcd"; "abc"; "a"] 0 "next".
Definition witness_env : env := mkenv default_wordbreaks [] false.

Theorem C12_refuted_shorter_value :
  run_from Pinned 0 witness_tables witness_env ["--opt=a"] "" = Ok (mkresult 1 [] [])
  /\ run_from Pinned 0 witness_tables witness_env ["--opt=abc"] "" = Ok (mkresult 1 [] [])
  /\ run_from Pinned 0 witness_tables witness_env ["--opt=abcd"] "" = Ok (mkresult 0 ["next "] [])
  /\ run_from Fixed 0 witness_tables witness_env ["--opt=a"] "" = Ok (mkresult 0 ["next "] [])
  /\ run_from Repaired 0 witness_tables witness_env ["--opt=a"] "" = Ok (mkresult 0 ["next "] [])
  /\ run_from Pinned 0 witness_tables witness_env [] "--opt=a" = Ok (mkresult 0 ["abcd"; "abc"; "a"] [])
  /\ run_from Repaired 0 witness_tables witness_env [] "--opt=a" = Ok (mkresult 0 ["abcd"; "abc"; "a"] []).
Proof. vm_compute. repeat split; reflexivity. Qed.
Check C12_refuted_shorter_value :
  run_from Pinned 0 witness_tables witness_env ["--opt=a"] "" = Ok (mkresult 1 [] [])
  /\ run_from Pinned 0 witness_tables witness_env ["--opt=abc"] "" = Ok (mkresult 1 [] [])
  /\ run_from Pinned 0 witness_tables witness_env ["--opt=abcd"] "" = Ok (mkresult 0 ["next "] [])
  /\ run_from Fixed 0 witness_tables witness_env ["--opt=a"] "" = Ok (mkresult 0 ["next "] [])
  /\ run_from Repaired 0 witness_tables witness_env ["--opt=a"] "" = Ok (mkresult 0 ["next "] [])
  /\ run_from Pinned 0 witness_tables witness_env [] "--opt=a" = Ok (mkresult 0 ["abcd"; "abc"; "a"] [])
  /\ run_from Repaired 0 witness_tables witness_env [] "--opt=a" = Ok (mkresult 0 ["abcd"; "abc"; "a"] []).
Print Assumptions C12_refuted_shorter_value.

(** Non-vacuity: the hypotheses of the end-to-end theorems hold for the witness grammar, and its three values
    are values in the sense of the theorems. *)
Example ex_C12_inhabited :
  let lits := ["--opt="; "abcd"; "abc"; "a"] in
  nthN lits 0 = Some "--opt="
  /\ (forall l, In l lits -> plain l = true)
  /\ (forall l, In l lits -> printable_str l = true)
  /\ (forall l, In l lits -> l <> EmptyString)
  /\ sorted_len lits
  /\ is_value lits "--opt=" "a" /\ is_value lits "--opt=" "abc" /\ is_value lits "--opt=" "abcd"
  /\ (exists v, is_value lits "--opt=" v /\ String.prefix "ab" v = true /\ "ab" <> v)
  /\ values lits 0 = ["abcd"; "abc"; "a"].
Proof.
  cbv zeta. repeat split.
  - intros l H. cbn in H. repeat (destruct H as [<-|H]; [reflexivity|]). contradiction.
  - intros l H. cbn in H. repeat (destruct H as [<-|H]; [reflexivity|]). contradiction.
  - intros l H. cbn in H. repeat (destruct H as [<-|H]; [discriminate|]). contradiction.
  - intros b H. cbn in H. repeat (destruct H as [<-|H]; [cbn; lia|]). contradiction.
  - intros b H. cbn in H. repeat (destruct H as [<-|H]; [cbn; lia|]). contradiction.
  - intros b H. cbn in H. repeat (destruct H as [<-|H]; [cbn; lia|]). contradiction.
  - intros b H. cbn in H. contradiction.
  - cbn; tauto.
  - discriminate.
  - cbn; tauto.
  - discriminate.
  - cbn; tauto.
  - discriminate.
  - exists "abc". repeat split; [cbn; tauto|discriminate|discriminate].
Qed.
Print Assumptions ex_C12_inhabited.
