(** C16 (continuation) -- the theorems of Props/C16.v on what the pipeline produces: their hypotheses
    ([wf_cdfa], [starts_at_zero]; [rx_total_b], [rx_wf_b]) are proved of every automaton
    [Driver.compile_valid] returns and of every regex [Regex.from_expr] builds from a validated tree,
    so that for every text the model of the compiler accepts, and every numbering base, the --dfa
    text is valid DOT denoting the prescribed graph, and the --regex text is valid DOT in which
    every input labels a node.  Statements only; proofs in Proofs/DotPipeline*.v, Proofs/DotFromExpr.v. *)
From CG Require Import Base.Prelude Model.Dfa Model.Dot Spec.DotRead Spec.DotSpec.
From CG Require Import Proofs.DotRegex Proofs.DotPipelineRegex Proofs.DotPipeline.
From CG Require Model.Ast Model.Parser Model.Check Model.Regex Model.Driver Model.DotOfRegex.
From CG Require Proofs.TreeFacts Proofs.DotPipelineDfa Proofs.DotFromExpr.

(** (a) every compiled automaton satisfies the hypotheses of [C16_dfa_dot] *)
Theorem C16_compile_valid_hyps :
  forall pick fuel v c,
    TreeFacts.alts_nonempty (Check.v_expr v) = true ->
    Driver.compile_valid pick fuel v = Ok c ->
    wf_cdfa c = true /\ starts_at_zero c = true.
Proof. exact DotPipelineDfa.compile_valid_dot_wf. Qed.
Check C16_compile_valid_hyps :
  forall pick fuel v c,
    TreeFacts.alts_nonempty (Check.v_expr v) = true ->
    Driver.compile_valid pick fuel v = Ok c ->
    wf_cdfa c = true /\ starts_at_zero c = true.
Print Assumptions C16_compile_valid_hyps.

(** for every text the whole pipeline accepts, every work-list order, shell and numbering base: the
    --dfa file is valid DOT and denotes the prescribed graph *)
Theorem C16_pipeline_dfa_dot :
  forall pick fuel builtins text sh v c base,
    Driver.compile pick fuel builtins text sh = Ok (v, c) ->
    exists out g, Dot.of_dfa base c = Ok out /\ DotRead.read out = Some g
                  /\ gview_equiv (view g) (DotSpec.graph_of_dfa base c).
Proof. exact pipeline_dfa_dot. Qed.
Check C16_pipeline_dfa_dot :
  forall pick fuel builtins text sh v c base,
    Driver.compile pick fuel builtins text sh = Ok (v, c) ->
    exists out g, Dot.of_dfa base c = Ok out /\ DotRead.read out = Some g
                  /\ gview_equiv (view g) (DotSpec.graph_of_dfa base c).
Print Assumptions C16_pipeline_dfa_dot.

(** (b) every regex [from_expr] builds from a tree without nested composite words, into a pool of
    well-built regexes, satisfies -- through the view of Model/DotOfRegex.v -- the hypotheses of
    [C16_regex_dot] *)
Theorem C16_from_expr_hyps :
  forall e pl r pl',
    TreeFacts.flat_subwords e = true -> Forall DotFromExpr.sgood pl ->
    Regex.from_expr e pl = Ok (r, pl') ->
    rx_total_b (DotOfRegex.conv_pool pl') (DotOfRegex.conv_regex r) = true
    /\ rx_wf_b (DotOfRegex.conv_pool pl') (DotOfRegex.conv_regex r) = true.
Proof. exact from_expr_rx_hyps. Qed.
Check C16_from_expr_hyps :
  forall e pl r pl',
    TreeFacts.flat_subwords e = true -> Forall DotFromExpr.sgood pl ->
    Regex.from_expr e pl = Ok (r, pl') ->
    rx_total_b (DotOfRegex.conv_pool pl') (DotOfRegex.conv_regex r) = true
    /\ rx_wf_b (DotOfRegex.conv_pool pl') (DotOfRegex.conv_regex r) = true.
Print Assumptions C16_from_expr_hyps.

(** for every validated tree: [Regex::to_dot] returns, the --regex file is valid DOT and every input
    of the regex and of each within-word regex it uses labels a node (inside its cluster) *)
Theorem C16_pipeline_regex_dot :
  forall builtins g sh v r pl,
    Check.from_grammar builtins g sh = Ok v ->
    Regex.from_expr (Check.v_expr v) [] = Ok (r, pl) ->
    exists out gr, DotOfRegex.regex_to_dot pl r = Ok out /\ DotRead.read out = Some gr
                   /\ regex_ok gr (spec_pool (DotOfRegex.conv_pool pl)) (spec_items (DotOfRegex.conv_regex r)).
Proof. exact validated_regex_dot. Qed.
Check C16_pipeline_regex_dot :
  forall builtins g sh v r pl,
    Check.from_grammar builtins g sh = Ok v ->
    Regex.from_expr (Check.v_expr v) [] = Ok (r, pl) ->
    exists out gr, DotOfRegex.regex_to_dot pl r = Ok out /\ DotRead.read out = Some gr
                   /\ regex_ok gr (spec_pool (DotOfRegex.conv_pool pl)) (spec_items (DotOfRegex.conv_regex r)).
Print Assumptions C16_pipeline_regex_dot.

(** the same from the whole pipeline: the regex [compile] goes through *)
Theorem C16_pipeline_regex_dot_compile :
  forall pick fuel builtins text sh v c,
    Driver.compile pick fuel builtins text sh = Ok (v, c) ->
    exists r pl out gr, Regex.from_valid_expr (Check.v_expr v) = Ok (r, pl)
                        /\ DotOfRegex.regex_to_dot pl r = Ok out /\ DotRead.read out = Some gr
                        /\ regex_ok gr (spec_pool (DotOfRegex.conv_pool pl)) (spec_items (DotOfRegex.conv_regex r)).
Proof. exact pipeline_regex_dot. Qed.
Check C16_pipeline_regex_dot_compile :
  forall pick fuel builtins text sh v c,
    Driver.compile pick fuel builtins text sh = Ok (v, c) ->
    exists r pl out gr, Regex.from_valid_expr (Check.v_expr v) = Ok (r, pl)
                        /\ DotOfRegex.regex_to_dot pl r = Ok out /\ DotRead.read out = Some gr
                        /\ regex_ok gr (spec_pool (DotOfRegex.conv_pool pl)) (spec_items (DotOfRegex.conv_regex r)).
Print Assumptions C16_pipeline_regex_dot_compile.
