(** C08 -- grammar mistakes are rejected with the right diagnostic; clean grammars pass.
    Statements only; proofs in Proofs/CheckMistakes.v.

    Full statement aimed at (DESIGN section 6, C08), over the whole model pipeline:
      forall g sh, (forall k, In k (Mistakes.present builtins g sh) ->
                      exists e, verdict g sh = Rejected e /\ In (class_of e) (present g sh))
               /\ (Mistakes.present builtins g sh = [] -> specs_have_command_plain g = true ->
                      no_conflicting_descriptions g sh -> exists s, verdict g sh = Accepted s).
    Proved so far: the statement-level classes, in the order the code checks them (below).  The
    classes decided by get_specializations, the cycle search, check_subword_spaces, the regex and
    DFA ambiguity checks are tied (T1) and judged on planted mistakes by lib/vf/checks/c08.py. *)
From CG Require Import Base.Prelude Model.Ast Model.Check Spec.Choice Spec.Mistakes Proofs.CheckMistakes.

Theorem C08_no_call_variant :
  forall builtins g sh,
    no_call_variant g = true -> from_grammar builtins g sh = Err MissingCallVariants.
Proof. exact no_call_variant_rejected. Qed.
Check C08_no_call_variant :
  forall builtins g sh,
    no_call_variant g = true -> from_grammar builtins g sh = Err MissingCallVariants.
Print Assumptions C08_no_call_variant.

Theorem C08_varying_names :
  forall builtins g sh,
    varying_names g = true ->
    exists spans, from_grammar builtins g sh = Err (VaryingCommandNames spans).
Proof. exact varying_names_rejected. Qed.
Check C08_varying_names :
  forall builtins g sh,
    varying_names g = true ->
    exists spans, from_grammar builtins g sh = Err (VaryingCommandNames spans).
Print Assumptions C08_varying_names.

Theorem C08_slash_in_name :
  forall builtins g sh,
    varying_names g = false -> slash_in_name g = true ->
    exists sp, from_grammar builtins g sh = Err (InvalidCommandName sp).
Proof. exact slash_in_name_rejected. Qed.
Check C08_slash_in_name :
  forall builtins g sh,
    varying_names g = false -> slash_in_name g = true ->
    exists sp, from_grammar builtins g sh = Err (InvalidCommandName sp).
Print Assumptions C08_slash_in_name.

Theorem C08_duplicate_plain :
  forall builtins g sh,
    no_call_variant g = false -> varying_names g = false -> slash_in_name g = false ->
    duplicate_plain g = true ->
    exists a b, from_grammar builtins g sh = Err (DuplicateNonterminalDefinition a b).
Proof. exact duplicate_plain_rejected. Qed.
Check C08_duplicate_plain :
  forall builtins g sh,
    no_call_variant g = false -> varying_names g = false -> slash_in_name g = false ->
    duplicate_plain g = true ->
    exists a b, from_grammar builtins g sh = Err (DuplicateNonterminalDefinition a b).
Print Assumptions C08_duplicate_plain.

(** Non-vacuity: concrete grammars meet each hypothesis, and a clean one is accepted by the model. *)
Definition ex_sp := mkspan 1 1 2.
Definition ex_dup : grammar :=
  [ CallVariant "cmd" ex_sp (NontermRef "A" 0 ex_sp);
    NontermDef "A" ex_sp None (Terminal "x" None 0 ex_sp);
    NontermDef "A" ex_sp None (Terminal "y" None 0 ex_sp) ].
Definition ex_clean : grammar :=
  [ CallVariant "cmd" ex_sp (Sequence [NontermRef "A" 0 ex_sp; NontermRef "U" 0 ex_sp] ex_sp);
    NontermDef "A" ex_sp None (Alternative [Terminal "x" None 0 ex_sp; NontermRef "B" 0 ex_sp] ex_sp);
    NontermDef "B" ex_sp None (Terminal "y" (Some "d") 0 ex_sp) ].
Example ex_C08_inhabited :
  no_call_variant ex_dup = false /\ varying_names ex_dup = false /\ slash_in_name ex_dup = false
  /\ duplicate_plain ex_dup = true
  /\ varying_names (CallVariant "other" ex_sp (Terminal "z" None 0 ex_sp) :: ex_dup) = true
  /\ present (fun _ => []) ex_clean Bash = []
  /\ is_ok (from_grammar (fun _ => []) ex_clean Bash) = true.
Proof. vm_compute. repeat split; reflexivity. Qed.
Print Assumptions ex_C08_inhabited.
