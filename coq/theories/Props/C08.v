(** C08 -- grammar mistakes are rejected with the right diagnostic; clean grammars pass.
    Statements only; proofs in Proofs/CheckMistakes.v.

    Full statement aimed at (DESIGN section 6, C08), over the whole model pipeline:
      forall g sh, (forall k, In k (Mistakes.present builtins g sh) ->
                      exists e, verdict g sh = Rejected e /\ In (class_of e) (present g sh))
               /\ (Mistakes.present builtins g sh = [] -> specs_have_command_plain g = true ->
                      no_conflicting_descriptions g sh -> exists s, verdict g sh = Accepted s).
    Proved so far: the statement-level classes, in the order the code checks them; the
    specialisation classes (unknown shell, non-command definition for a shell, two definitions
    for the target shell); the cycle class, both directions, together with soundness and
    completeness of the cycle search on arbitrary definition lists; a grammar free of all these
    classes can only be rejected by check_subword_spaces (below).
    Since the repair of finding F1 (check_subword_spaces sees literals through nonterminals in
    space-separated sequences) also: [subword_spaces g sh] is rejected with SubwordSpaces
    (C08_subword_spaces).  The converse is not claimed: juxtaposed literals `foo(bar)` are rejected
    with the same error although nothing is space-separated (known converse finding
    `juxtaposed_literals_rejected`).
    Since the repair of finding N2 (the walk of the within-word check hands the unbounded item
    only to its own follow set) also the placeholder class, both directions: on a grammar the
    checker accepts, the regex stage rejects the validated tree with UnboundedMatchable iff
    [placeholder_not_last] holds of the source grammar, and succeeds otherwise (C08_placeholder);
    the walk itself is characterised on the follow table (C08_tail_only_decides).
    The class decided by the DFA ambiguity check ("the same literal expected at one point with two
    different descriptions") is proved at the level of the accepted language: the check of the
    minimised main automaton fails iff the language of the raw automaton (by C02 the language of
    the validated tree, over input ids) has two words with a common prefix that continue with the
    same literal text under different descriptions, and it never fails for another reason
    (C08_description_conflict); a predicate on the SOURCE grammar for this class is still missing
    (judged on planted mistakes by lib/vf/checks/c08.py). *)
From CG Require Import Base.Prelude Model.Ast Model.Check Spec.Choice Spec.Mistakes Proofs.CheckMistakes.
From CG Require Import Proofs.CheckLemmas Proofs.CheckCycle Proofs.CheckFront Proofs.CheckCycleSpec.
From CG Require Import Proofs.CheckSpacesSpec.
From CG Require Import Model.Dfa Model.Ambiguity.
From CG Require Proofs.AmbWalk.
From CG Require Model.Subset Model.Minimize Proofs.AmbLang Proofs.AmbPipeline Proofs.TreeFacts.
From CG Require Model.Regex Proofs.RegexNoPanic Proofs.TailOnlySpec Proofs.PhExpr Proofs.PhSpec Proofs.PhTree.

Theorem C08_no_call_variant :
  forall builtins g sh,
    no_call_variant g = true -> from_grammar builtins g sh = Err MissingCallVariants.
Proof. exact no_call_variant_rejected. Qed.
Check C08_no_call_variant :
  forall builtins g sh,
    no_call_variant g = true -> from_grammar builtins g sh = Err MissingCallVariants.
Print Assumptions C08_no_call_variant.

Theorem C08_varying_names :
  forall builtins g sh,
    varying_names g = true ->
    exists spans, from_grammar builtins g sh = Err (VaryingCommandNames spans).
Proof. exact varying_names_rejected. Qed.
Check C08_varying_names :
  forall builtins g sh,
    varying_names g = true ->
    exists spans, from_grammar builtins g sh = Err (VaryingCommandNames spans).
Print Assumptions C08_varying_names.

Theorem C08_slash_in_name :
  forall builtins g sh,
    varying_names g = false -> slash_in_name g = true ->
    exists sp, from_grammar builtins g sh = Err (InvalidCommandName sp).
Proof. exact slash_in_name_rejected. Qed.
Check C08_slash_in_name :
  forall builtins g sh,
    varying_names g = false -> slash_in_name g = true ->
    exists sp, from_grammar builtins g sh = Err (InvalidCommandName sp).
Print Assumptions C08_slash_in_name.

Theorem C08_duplicate_plain :
  forall builtins g sh,
    no_call_variant g = false -> varying_names g = false -> slash_in_name g = false ->
    duplicate_plain g = true ->
    exists a b, from_grammar builtins g sh = Err (DuplicateNonterminalDefinition a b).
Proof. exact duplicate_plain_rejected. Qed.
Check C08_duplicate_plain :
  forall builtins g sh,
    no_call_variant g = false -> varying_names g = false -> slash_in_name g = false ->
    duplicate_plain g = true ->
    exists a b, from_grammar builtins g sh = Err (DuplicateNonterminalDefinition a b).
Print Assumptions C08_duplicate_plain.

(** *** Specialisation mistakes: when one of the three classes is present (and the earlier
    ones are not) the grammar is rejected with an error whose class is present. *)
Theorem C08_specialization_errors :
  forall builtins g sh,
    no_call_variant g = false -> varying_names g = false -> slash_in_name g = false ->
    duplicate_plain g = false ->
    unknown_shell g || non_command_for_shell g || duplicate_for_shell g sh = true ->
    exists e, from_grammar builtins g sh = Err e /\
              match e with
              | UnknownShell _ => unknown_shell g = true
              | NonCommandSpecialization _ => non_command_for_shell g = true
              | DuplicateNonterminalDefinition _ _ => duplicate_for_shell g sh = true
              | _ => False
              end.
Proof. exact specialization_errors. Qed.
Check C08_specialization_errors :
  forall builtins g sh,
    no_call_variant g = false -> varying_names g = false -> slash_in_name g = false ->
    duplicate_plain g = false ->
    unknown_shell g || non_command_for_shell g || duplicate_for_shell g sh = true ->
    exists e, from_grammar builtins g sh = Err e /\
              match e with
              | UnknownShell _ => unknown_shell g = true
              | NonCommandSpecialization _ => non_command_for_shell g = true
              | DuplicateNonterminalDefinition _ _ => duplicate_for_shell g sh = true
              | _ => False
              end.
Print Assumptions C08_specialization_errors.

(** Conversely [get_specializations] succeeds on grammars free of the three classes whose
    shell-specific definitions only concern names whose plain definition is a command. *)
Theorem C08_specializations_accepted :
  forall g sh,
    duplicate_plain g = false ->
    unknown_shell g = false -> non_command_for_shell g = false -> duplicate_for_shell g sh = false ->
    specs_have_command_plain g = true ->
    exists us fs, get_specializations g sh = Ok (us, fs).
Proof. exact get_specializations_ok. Qed.
Check C08_specializations_accepted :
  forall g sh,
    duplicate_plain g = false ->
    unknown_shell g = false -> non_command_for_shell g = false -> duplicate_for_shell g sh = false ->
    specs_have_command_plain g = true ->
    exists us fs, get_specializations g sh = Ok (us, fs).
Print Assumptions C08_specializations_accepted.

(** *** The cycle search, on any list of definitions.
    [graph_of defs] has an edge n -> c for every reference in the definition of n to a defined
    name c.  Failure: the error is a cycle error and the graph has a cycle (the reported spans
    are those of a path of the graph that closes on itself: [cycle_report]). *)
Theorem C08_cycle_search_sound :
  forall defs e,
    resolution_order defs = Err e ->
    cycle_report (graph_of defs) (verts_of defs) e /\
    (exists spans, e = NonterminalDefinitionsCycle spans) /\ exists x, reach (graph_of defs) x x.
Proof.
  intros defs e H. split; [apply resolution_order_err; exact H|apply resolution_order_err_cycle; exact H].
Qed.
Check C08_cycle_search_sound :
  forall defs e,
    resolution_order defs = Err e ->
    cycle_report (graph_of defs) (verts_of defs) e /\
    (exists spans, e = NonterminalDefinitionsCycle spans) /\ exists x, reach (graph_of defs) x x.
Print Assumptions C08_cycle_search_sound.

(** Success happens exactly on acyclic graphs ... *)
Theorem C08_cycle_search_complete :
  forall defs, (exists ord, resolution_order defs = Ok ord) <-> acyclic (graph_of defs).
Proof. exact resolution_order_complete. Qed.
Check C08_cycle_search_complete :
  forall defs, (exists ord, resolution_order defs = Ok ord) <-> acyclic (graph_of defs).
Print Assumptions C08_cycle_search_complete.

(** ... and the order lists exactly the definitions that have dependencies, each after all
    the definitions it depends on (those without dependencies of their own are not listed). *)
Theorem C08_resolution_order_topological :
  forall defs ord,
    resolution_order defs = Ok ord ->
    (forall n, In n ord <-> In n (map d_name defs) /\ exists c, edge (graph_of defs) n c) /\
    (forall l1 n l2 c, ord = l1 ++ n :: l2 -> edge (graph_of defs) n c ->
                       In c l1 \/ forall c', ~ edge (graph_of defs) c c').
Proof. exact resolution_order_topological. Qed.
Check C08_resolution_order_topological :
  forall defs ord,
    resolution_order defs = Ok ord ->
    (forall n, In n ord <-> In n (map d_name defs) /\ exists c, edge (graph_of defs) n c) /\
    (forall l1 n l2 c, ord = l1 ++ n :: l2 -> edge (graph_of defs) n c ->
                       In c l1 \/ forall c', ~ edge (graph_of defs) c c').
Print Assumptions C08_resolution_order_topological.

(** *** The cycle class of the specification (reachability among the chosen plain definitions
    of the source grammar) is rejected with the cycle error, and only it. *)
Theorem C08_cycle :
  forall builtins g sh,
    no_call_variant g = false -> varying_names g = false -> slash_in_name g = false ->
    duplicate_plain g = false ->
    unknown_shell g = false -> non_command_for_shell g = false -> duplicate_for_shell g sh = false ->
    specs_have_command_plain g = true ->
    (cyclic g sh = true <->
     exists spans, from_grammar builtins g sh = Err (NonterminalDefinitionsCycle spans)).
Proof. exact cycle_rejected. Qed.
Check C08_cycle :
  forall builtins g sh,
    no_call_variant g = false -> varying_names g = false -> slash_in_name g = false ->
    duplicate_plain g = false ->
    unknown_shell g = false -> non_command_for_shell g = false -> duplicate_for_shell g sh = false ->
    specs_have_command_plain g = true ->
    (cyclic g sh = true <->
     exists spans, from_grammar builtins g sh = Err (NonterminalDefinitionsCycle spans)).
Print Assumptions C08_cycle.

(** A grammar free of all the classes above can only be rejected by [check_subword_spaces]. *)
Theorem C08_clean_accepted_unless_subword_spaces :
  forall builtins g sh,
    no_call_variant g = false -> varying_names g = false -> slash_in_name g = false ->
    duplicate_plain g = false ->
    unknown_shell g = false -> non_command_for_shell g = false -> duplicate_for_shell g sh = false ->
    specs_have_command_plain g = true -> cyclic g sh = false ->
    (exists v, from_grammar builtins g sh = Ok v) \/
    (exists l r trace, from_grammar builtins g sh = Err (SubwordSpaces l r trace)).
Proof. exact clean_verdict. Qed.
Check C08_clean_accepted_unless_subword_spaces :
  forall builtins g sh,
    no_call_variant g = false -> varying_names g = false -> slash_in_name g = false ->
    duplicate_plain g = false ->
    unknown_shell g = false -> non_command_for_shell g = false -> duplicate_for_shell g sh = false ->
    specs_have_command_plain g = true -> cyclic g sh = false ->
    (exists v, from_grammar builtins g sh = Ok v) \/
    (exists l r trace, from_grammar builtins g sh = Err (SubwordSpaces l r trace)).
Print Assumptions C08_clean_accepted_unless_subword_spaces.

(** *** Spaces inside a word.  [grammar_word_roots_ok g]: every word of the source is a
    juxtaposition ([Subword] over a [Sequence]), which is what the parser builds.  When some word
    of the expansion of a call variant contains two space-separated literals
    ([Mistakes.subword_spaces]: directly or through chosen definitions, at any depth) and no
    earlier class is present, the grammar is rejected with [SubwordSpaces]. *)
Theorem C08_subword_spaces :
  forall builtins g sh,
    no_call_variant g = false -> varying_names g = false -> slash_in_name g = false ->
    duplicate_plain g = false ->
    unknown_shell g = false -> non_command_for_shell g = false -> duplicate_for_shell g sh = false ->
    specs_have_command_plain g = true -> cyclic g sh = false ->
    grammar_word_roots_ok g = true ->
    subword_spaces g sh = true ->
    exists l r trace, from_grammar builtins g sh = Err (SubwordSpaces l r trace).
Proof. exact subword_spaces_rejected. Qed.
Check C08_subword_spaces :
  forall builtins g sh,
    no_call_variant g = false -> varying_names g = false -> slash_in_name g = false ->
    duplicate_plain g = false ->
    unknown_shell g = false -> non_command_for_shell g = false -> duplicate_for_shell g sh = false ->
    specs_have_command_plain g = true -> cyclic g sh = false ->
    grammar_word_roots_ok g = true ->
    subword_spaces g sh = true ->
    exists l r trace, from_grammar builtins g sh = Err (SubwordSpaces l r trace).
Print Assumptions C08_subword_spaces.

(** *** "The same literal expected at one point with two different descriptions": what the walk of
    [DFA::check_ambiguity_best_effort] (Model/Ambiguity.v, tied by this check) decides.
    [AmbWalk.reachable d u]: [u] is reachable from the start state through transitions;
    [AmbWalk.conflicting d u]: two literal inputs leave [u] with the same text and different
    descriptions; [AmbWalk.star_ambiguous d u]: two or more star inputs leave [u], one of them to a
    non-accepting state; [AmbWalk.lpath d s u q]: [q] lists the inputs along a path from [s] to [u].
    (That the walk neither panics nor runs out of fuel -- [AmbWalk.fine] -- is proved with the
    other totality results.) *)
Theorem C08_ambiguity_accepts :
  forall d, check_ambiguity_best_effort d = Ok tt ->
    forall u, AmbWalk.reachable d u ->
      AmbWalk.inputs_in_range d u /\ ~ AmbWalk.star_ambiguous d u /\ ~ AmbWalk.conflicting d u.
Proof. exact AmbWalk.amb_accepts. Qed.
Check C08_ambiguity_accepts :
  forall d, check_ambiguity_best_effort d = Ok tt ->
    forall u, AmbWalk.reachable d u ->
      AmbWalk.inputs_in_range d u /\ ~ AmbWalk.star_ambiguous d u /\ ~ AmbWalk.conflicting d u.
Print Assumptions C08_ambiguity_accepts.

Theorem C08_ambiguity_rejects :
  forall d e, check_ambiguity_best_effort d = Err e ->
    exists u q, AmbWalk.lpath d (d_start d) u q /\ AmbWalk.reachable d u /\
      ((exists ins, e = AmbiguousDFA q ins /\ AmbWalk.star_ambiguous d u) \/
       (exists t l r, e = ConflictingDescriptions q t l r /\ AmbWalk.conflicting d u)).
Proof. exact AmbWalk.amb_rejects. Qed.
Check C08_ambiguity_rejects :
  forall d e, check_ambiguity_best_effort d = Err e ->
    exists u q, AmbWalk.lpath d (d_start d) u q /\ AmbWalk.reachable d u /\
      ((exists ins, e = AmbiguousDFA q ins /\ AmbWalk.star_ambiguous d u) \/
       (exists t l r, e = ConflictingDescriptions q t l r /\ AmbWalk.conflicting d u)).
Print Assumptions C08_ambiguity_rejects.

Theorem C08_ambiguity_decides :
  forall d, AmbWalk.fine (check_ambiguity_best_effort d) ->
    (check_ambiguity_best_effort d = Ok tt <->
     forall u, AmbWalk.reachable d u -> ~ AmbWalk.star_ambiguous d u /\ ~ AmbWalk.conflicting d u).
Proof. exact AmbWalk.amb_decides. Qed.
Check C08_ambiguity_decides :
  forall d, AmbWalk.fine (check_ambiguity_best_effort d) ->
    (check_ambiguity_best_effort d = Ok tt <->
     forall u, AmbWalk.reachable d u -> ~ AmbWalk.star_ambiguous d u /\ ~ AmbWalk.conflicting d u).
Print Assumptions C08_ambiguity_decides.

(** the sort / dedup / neighbour comparison of one state finds a clash iff there is one *)
Theorem C08_conflict_search :
  forall lits, first_conflict (dedup (sort_by_text lits)) = None <-> ~ AmbWalk.has_clash lits.
Proof. exact AmbWalk.conflict_search_correct. Qed.
Check C08_conflict_search :
  forall lits, first_conflict (dedup (sort_by_text lits)) = None <-> ~ AmbWalk.has_clash lits.
Print Assumptions C08_conflict_search.

(** Non-vacuity: a DFA whose second state has the literal "x" with two descriptions, far from
    each other in the input order, is rejected with the path ["go"]; without it, accepted. *)
Definition ex_amb (de : option string) : dfa :=
  mkdfa 0 [(0, [(0, 1)]); (1, [(1, 2); (2, 2); (3, 2); (4, 1)]); (2, [])] [2]
        [ILit "go" None 0; ILit "x" (Some "one") 0; ILit "a" None 0; ILit "x" de 0; IStar].
Example ex_C08_ambiguity_inhabited :
  check_ambiguity_best_effort (ex_amb (Some "two"))
  = Err (ConflictingDescriptions [ILit "go" None 0] "x" "one" "two")
  /\ check_ambiguity_best_effort (ex_amb (Some "one")) = Ok tt.
Proof. vm_compute. split; reflexivity. Qed.
Print Assumptions ex_C08_ambiguity_inhabited.

(** Non-vacuity: concrete grammars meet each hypothesis, and a clean one is accepted by the model. *)
Definition ex_sp := mkspan 1 1 2.
Definition ex_dup : grammar :=
  [ CallVariant "cmd" ex_sp (NontermRef "A" 0 ex_sp);
    NontermDef "A" ex_sp None (Terminal "x" None 0 ex_sp);
    NontermDef "A" ex_sp None (Terminal "y" None 0 ex_sp) ].
Definition ex_clean : grammar :=
  [ CallVariant "cmd" ex_sp (Sequence [NontermRef "A" 0 ex_sp; NontermRef "U" 0 ex_sp] ex_sp);
    NontermDef "A" ex_sp None (Alternative [Terminal "x" None 0 ex_sp; NontermRef "B" 0 ex_sp] ex_sp);
    NontermDef "B" ex_sp None (Terminal "y" (Some "d") 0 ex_sp) ].
Definition ex_cyc : grammar :=
  [ CallVariant "cmd" ex_sp (Terminal "a" None 0 ex_sp);
    NontermDef "A" ex_sp None (Optional (NontermRef "B" 0 ex_sp) ex_sp);
    NontermDef "B" ex_sp None (DistDescr (NontermRef "A" 0 ex_sp) "d" ex_sp);
    NontermDef "A" ex_sp (Some ("fish", ex_sp)) (Command "x" false 0 ex_sp);
    NontermDef "A" ex_sp None (Command "y" false 0 ex_sp) ].
Definition ex_spec_bad : grammar :=
  [ CallVariant "cmd" ex_sp (NontermRef "A" 0 ex_sp);
    NontermDef "A" ex_sp (Some ("zsh", ex_sp)) (Terminal "x" None 0 ex_sp);
    NontermDef "B" ex_sp (Some ("csh", ex_sp)) (Command "x" false 0 ex_sp) ].
Example ex_C08_cycle_inhabited :
  (* a cycle no call variant reaches, hidden below a description; broken for fish only *)
  let g := firstn 3 ex_cyc in
  no_call_variant g = false /\ varying_names g = false /\ slash_in_name g = false
  /\ duplicate_plain g = false /\ unknown_shell g = false /\ non_command_for_shell g = false
  /\ duplicate_for_shell g Bash = false /\ specs_have_command_plain g = true
  /\ cyclic g Bash = true
  /\ cyclic (firstn 4 ex_cyc) Bash = true /\ cyclic (firstn 4 ex_cyc) Fish = false
  /\ unknown_shell ex_spec_bad = true /\ non_command_for_shell ex_spec_bad = true
  /\ duplicate_plain ex_spec_bad = false.
Proof. vm_compute. repeat split; reflexivity. Qed.
Print Assumptions ex_C08_cycle_inhabited.

(** Finding F1 (repaired in /repo by "fix: see literals through nonterminals when looking for
    spaces inside a word"): the grammar  cmd p(<A> <B>); <A> ::= a; <B> ::= b;  has two
    space-separated literals inside a word through definitions that are referenced directly in the
    call variant; it used to be accepted, it is now rejected for every shell with the spans of
    the two literals, like the same mistake written directly or one definition deeper, while the
    legitimate juxtaposition  --opt=<X>; <X> ::= foo;  is still accepted. *)
Definition ex_f1_word (inner : expr) : expr :=
  Subword (Sequence [Terminal "p" None 0 ex_sp; inner] ex_sp) 0 ex_sp.
Definition ex_f1 : grammar :=
  [ CallVariant "cmd" ex_sp (ex_f1_word (Sequence [NontermRef "A" 0 (mkspan 1 7 10); NontermRef "B" 0 (mkspan 1 11 14)] ex_sp));
    NontermDef "A" ex_sp None (Terminal "a" None 0 (mkspan 2 9 10));
    NontermDef "B" ex_sp None (Terminal "b" None 0 (mkspan 3 9 10)) ].
Definition ex_f1_direct : grammar :=
  [ CallVariant "cmd" ex_sp (ex_f1_word (Sequence [Terminal "a" None 0 ex_sp; Terminal "b" None 0 ex_sp] ex_sp)) ].
Definition ex_f1_deeper : grammar :=
  [ CallVariant "cmd" ex_sp (ex_f1_word (NontermRef "C" 0 ex_sp));
    NontermDef "C" ex_sp None (Sequence [NontermRef "A" 0 ex_sp; NontermRef "B" 0 ex_sp] ex_sp);
    NontermDef "A" ex_sp None (Terminal "a" None 0 ex_sp);
    NontermDef "B" ex_sp None (Terminal "b" None 0 ex_sp) ].
Definition ex_f1_juxtaposed : grammar :=
  [ CallVariant "cmd" ex_sp (Subword (Sequence [Terminal "--opt=" None 0 ex_sp; NontermRef "X" 0 ex_sp] ex_sp) 0 ex_sp);
    NontermDef "X" ex_sp None (Terminal "foo" None 0 ex_sp) ].
Example ex_C08_F1_subword_spaces_behind_root_refs :
  present (fun _ => []) ex_f1 Bash = [MSubwordSpaces]
  /\ forallb (fun sh => match from_grammar (fun _ => []) ex_f1 sh with
                        | Err (SubwordSpaces l r []) =>
                            span_eqb l (mkspan 2 9 10) && span_eqb r (mkspan 3 9 10)
                        | _ => false
                        end) [Bash; Fish; Zsh; Pwsh] = true
  /\ present (fun _ => []) ex_f1_direct Bash = [MSubwordSpaces]
  /\ is_ok (from_grammar (fun _ => []) ex_f1_direct Bash) = false
  /\ present (fun _ => []) ex_f1_deeper Bash = [MSubwordSpaces]
  /\ is_ok (from_grammar (fun _ => []) ex_f1_deeper Bash) = false
  /\ present (fun _ => []) ex_f1_juxtaposed Bash = []
  /\ is_ok (from_grammar (fun _ => []) ex_f1_juxtaposed Bash) = true
  /\ forallb grammar_word_roots_ok [ex_f1; ex_f1_direct; ex_f1_deeper; ex_f1_juxtaposed] = true
  /\ specs_have_command_plain ex_f1 = true.
Proof. vm_compute. repeat split; reflexivity. Qed.
Print Assumptions ex_C08_F1_subword_spaces_behind_root_refs.

Example ex_C08_inhabited :
  no_call_variant ex_dup = false /\ varying_names ex_dup = false /\ slash_in_name ex_dup = false
  /\ duplicate_plain ex_dup = true
  /\ varying_names (CallVariant "other" ex_sp (Terminal "z" None 0 ex_sp) :: ex_dup) = true
  /\ present (fun _ => []) ex_clean Bash = []
  /\ is_ok (from_grammar (fun _ => []) ex_clean Bash) = true.
Proof. vm_compute. repeat split; reflexivity. Qed.
Print Assumptions ex_C08_inhabited.

(** *** The placeholder class (regex stage) *)

(** what the repaired walk of [check_ambiguous_inputs_tail_only_subword] decides on the regex of a
    word: no reachable unbounded item has anything but the end marker in its follow set *)
Theorem C08_tail_only_decides :
  forall r, RegexNoPanic.pool_ok r ->
    (Regex.check_tail_only r = Ok tt <->
     forall p, TailOnlySpec.reachable_pos r p -> ~ TailOnlySpec.bad_pos r p).
Proof. exact TailOnlySpec.check_tail_only_decides. Qed.
Check C08_tail_only_decides :
  forall r, RegexNoPanic.pool_ok r ->
    (Regex.check_tail_only r = Ok tt <->
     forall p, TailOnlySpec.reachable_pos r p -> ~ TailOnlySpec.bad_pos r p).
Print Assumptions C08_tail_only_decides.

(** on an accepted grammar whose operators all have operands (true of everything the parser
    returns), the regex stage rejects exactly the grammars with a placeholder that is not last *)
Theorem C08_placeholder :
  forall builtins g sh v,
    from_grammar builtins g sh = Ok v -> PhSpec.grammar_ops_nonempty g = true ->
    (placeholder_not_last builtins g sh = true <->
     exists a b, Regex.from_valid_expr (v_expr v) = Err (Regex.UnboundedMatchable a b)) /\
    ((exists rp, Regex.from_valid_expr (v_expr v) = Ok rp) \/
     exists a b, Regex.from_valid_expr (v_expr v) = Err (Regex.UnboundedMatchable a b)).
Proof. exact PhTree.placeholder_decided. Qed.
Check C08_placeholder :
  forall builtins g sh v,
    from_grammar builtins g sh = Ok v -> PhSpec.grammar_ops_nonempty g = true ->
    (placeholder_not_last builtins g sh = true <->
     exists a b, Regex.from_valid_expr (v_expr v) = Err (Regex.UnboundedMatchable a b)) /\
    ((exists rp, Regex.from_valid_expr (v_expr v) = Ok rp) \/
     exists a b, Regex.from_valid_expr (v_expr v) = Err (Regex.UnboundedMatchable a b)).
Print Assumptions C08_placeholder.

(** Non-vacuity: `cmd x<U>y;` has the class and is rejected by the regex stage; `cmd x(<U>|a(b|c));`
    (the shape of finding N2: a placeholder beside a longer alternative) has not and passes. *)
Definition ex_ph_word (cs : list expr) : grammar :=
  [ CallVariant "cmd" ex_sp (Subword (Sequence cs ex_sp) 0 ex_sp) ].
Definition ex_ph_bad : grammar :=
  ex_ph_word [Terminal "x" None 0 ex_sp; NontermRef "U" 0 ex_sp; Terminal "y" None 0 ex_sp].
Definition ex_ph_n2 : grammar :=
  ex_ph_word [Terminal "x" None 0 ex_sp;
              Alternative [NontermRef "U" 0 ex_sp;
                           Sequence [Terminal "a" None 0 ex_sp;
                                     Alternative [Terminal "b" None 0 ex_sp; Terminal "c" None 0 ex_sp] ex_sp] ex_sp]
                          ex_sp].
Definition regex_verdict (g : grammar) : option bool :=
  match from_grammar (fun _ => []) g Bash with
  | Ok v => Some (is_ok (Regex.from_valid_expr (v_expr v)))
  | _ => None
  end.
Example ex_C08_placeholder_inhabited :
  PhSpec.grammar_ops_nonempty ex_ph_bad = true /\ PhSpec.grammar_ops_nonempty ex_ph_n2 = true
  /\ present (fun _ => []) ex_ph_bad Bash = [MPlaceholderNotLast] /\ regex_verdict ex_ph_bad = Some false
  /\ present (fun _ => []) ex_ph_n2 Bash = [] /\ regex_verdict ex_ph_n2 = Some true.
Proof. vm_compute. repeat split; reflexivity. Qed.
Print Assumptions ex_C08_placeholder_inhabited.

(** *** The description-conflict class (ambiguity check of the main automaton) *)

(** [AmbLang.lang_conflict d]: there are input-id words [u ++ i :: v1] and [u ++ j :: v2] accepted
    by [d] where [i], [j] are literals with the same text and different descriptions.  The check
    of the minimised automaton fails exactly then, and only with [ConflictingDescriptions]
    ([AmbiguousDFA] cannot occur: the unbounded item is ONE interned input and a state has at most
    one transition per input). *)
Theorem C08_description_conflict :
  forall pick fuel submap e r pl d states m,
    TreeFacts.alts_nonempty e = true ->
    Regex.from_expr e [] = Ok (r, pl) ->
    Subset.dfa_from_regex pick fuel submap r = Ok (d, states) ->
    Minimize.minimize d = Ok m ->
    ((exists ae, check_ambiguity_best_effort m = Err ae) <-> AmbLang.lang_conflict d) /\
    (forall ae, check_ambiguity_best_effort m = Err ae ->
                exists q t l r', ae = ConflictingDescriptions q t l r').
Proof. exact AmbPipeline.main_amb_verdict. Qed.
Check C08_description_conflict :
  forall pick fuel submap e r pl d states m,
    TreeFacts.alts_nonempty e = true ->
    Regex.from_expr e [] = Ok (r, pl) ->
    Subset.dfa_from_regex pick fuel submap r = Ok (d, states) ->
    Minimize.minimize d = Ok m ->
    ((exists ae, check_ambiguity_best_effort m = Err ae) <-> AmbLang.lang_conflict d) /\
    (forall ae, check_ambiguity_best_effort m = Err ae ->
                exists q t l r', ae = ConflictingDescriptions q t l r').
Print Assumptions C08_description_conflict.
