(** C13 -- diagnostics point at the construct they complain about (checker part).
    Statements only; proofs in Proofs/CheckProvenance.v.

    Every span in an error returned by the model of [ValidGrammar::from_grammar], and every span
    in its three warning maps, is the span the parser attached to a construct of the *source*
    grammar of the right kind ([err_provenance], unfolded in the statement below).  Together
    with the parser's span property (C13, parser part) this places every diagnostic.
    [grammar_refs g] lists (name, span) of every [NontermRef] node of [g], [grammar_terms g] the
    span of every [Terminal] node. *)
From CG Require Import Base.Prelude Model.Ast Model.Check Spec.Choice Spec.Mistakes.
From CG Require Import Proofs.CheckLemmas Proofs.CheckProvenance.
From CGgen Require Import Consts.
Local Open Scope list_scope.

Theorem C13_error_provenance :
  forall builtins g sh e,
    from_grammar builtins g sh = Err e ->
    match e with
    | MissingCallVariants => True
    | VaryingCommandNames spans =>
        forall sp, In sp spans -> exists n e, In (CallVariant n sp e) g
    | InvalidCommandName sp => exists n e, In (CallVariant n sp e) g
    | DuplicateNonterminalDefinition a b =>
        exists n g1 sh1 rhs1 g2 sh2 rhs2 g3,
          g = g1 ++ NontermDef n a sh1 rhs1 :: g2 ++ NontermDef n b sh2 rhs2 :: g3
          /\ same_kind sh sh1 sh2
    | UnknownShell sp =>
        exists n nsp shn rhs, In (NontermDef n nsp (Some (shn, sp)) rhs) g /\ shell_of_string shn = None
    | NonCommandSpecialization sp =>
        exists n nsp sho rhs, In (NontermDef n nsp sho rhs) g /\ sp = expr_span rhs
                              /\ is_command rhs = false
    | NonterminalDefinitionsCycle spans =>
        exists nsp rest, spans = nsp :: rest
                         /\ (exists n rhs, In (NontermDef n nsp None rhs) g)
                         /\ forall sp, In sp rest -> In sp (map snd (grammar_refs g))
    | SubwordSpaces l r trace =>
        In l (grammar_terms g) /\ In r (grammar_terms g)
        /\ forall sp, In sp trace -> In sp (map snd (grammar_refs g))
    end.
Proof. exact errors_provenance. Qed.
Check C13_error_provenance :
  forall builtins g sh e,
    from_grammar builtins g sh = Err e ->
    match e with
    | MissingCallVariants => True
    | VaryingCommandNames spans =>
        forall sp, In sp spans -> exists n e, In (CallVariant n sp e) g
    | InvalidCommandName sp => exists n e, In (CallVariant n sp e) g
    | DuplicateNonterminalDefinition a b =>
        exists n g1 sh1 rhs1 g2 sh2 rhs2 g3,
          g = g1 ++ NontermDef n a sh1 rhs1 :: g2 ++ NontermDef n b sh2 rhs2 :: g3
          /\ same_kind sh sh1 sh2
    | UnknownShell sp =>
        exists n nsp shn rhs, In (NontermDef n nsp (Some (shn, sp)) rhs) g /\ shell_of_string shn = None
    | NonCommandSpecialization sp =>
        exists n nsp sho rhs, In (NontermDef n nsp sho rhs) g /\ sp = expr_span rhs
                              /\ is_command rhs = false
    | NonterminalDefinitionsCycle spans =>
        exists nsp rest, spans = nsp :: rest
                         /\ (exists n rhs, In (NontermDef n nsp None rhs) g)
                         /\ forall sp, In sp rest -> In sp (map snd (grammar_refs g))
    | SubwordSpaces l r trace =>
        In l (grammar_terms g) /\ In r (grammar_terms g)
        /\ forall sp, In sp trace -> In sp (map snd (grammar_refs g))
    end.
Print Assumptions C13_error_provenance.

Theorem C13_warning_provenance :
  forall builtins g sh v,
    from_grammar builtins g sh = Ok v ->
    (forall n sp, In (n, sp) (v_undefined v) -> In (n, sp) (grammar_refs g)) /\
    (forall n sp, In (n, sp) (v_unused v) -> exists rhs, In (NontermDef n sp None rhs) g) /\
    (forall n sp, In (n, sp) (v_unused_specs v) ->
                  exists shn shsp rhs, In (NontermDef n sp (Some (shn, shsp)) rhs) g
                                       /\ is_shell shn sh = true).
Proof. exact warnings_provenance. Qed.
Check C13_warning_provenance :
  forall builtins g sh v,
    from_grammar builtins g sh = Ok v ->
    (forall n sp, In (n, sp) (v_undefined v) -> In (n, sp) (grammar_refs g)) /\
    (forall n sp, In (n, sp) (v_unused v) -> exists rhs, In (NontermDef n sp None rhs) g) /\
    (forall n sp, In (n, sp) (v_unused_specs v) ->
                  exists shn shsp rhs, In (NontermDef n sp (Some (shn, shsp)) rhs) g
                                       /\ is_shell shn sh = true).
Print Assumptions C13_warning_provenance.

(** Non-vacuity: a grammar with spaces inside a word reached through a definition (error with
    two literal spans and a one-step trace), and an accepted one with an undefined name. *)
Definition s (n : N) := mkspan 1 n (n + 1).
Definition ex_spaces : grammar :=
  [ CallVariant "cmd" (s 1) (Subword (Sequence [Terminal "a" None 0 (s 2); NontermRef "A" 0 (s 3)] (s 2)) 0 (s 2));
    NontermDef "A" (s 4) None (Sequence [Terminal "x" None 0 (s 5); Terminal "y" None 0 (s 6)] (s 5)) ].
Definition ex_undef : grammar :=
  [ CallVariant "cmd" (s 1) (NontermRef "A" 0 (s 2));
    NontermDef "A" (s 3) None (Sequence [Terminal "x" None 0 (s 4); NontermRef "U" 0 (s 5)] (s 4)) ].
Example ex_C13_inhabited :
  from_grammar builtins ex_spaces Bash = Err (SubwordSpaces (s 5) (s 6) [s 3])
  /\ (exists v, from_grammar builtins ex_undef Bash = Ok v /\ v_undefined v = [("U", s 5)]).
Proof. vm_compute. split; [reflexivity|eexists; split; reflexivity]. Qed.
Print Assumptions ex_C13_inhabited.
