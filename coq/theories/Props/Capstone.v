(** Source-level corollaries of the capstone [Compiler.compile_bash]: theorems whose only input is
    the grammar TEXT, obtained by composing [compile_bash] (the whole of [complgen --bash] as one
    Gallina function, tied byte for byte to the real binary by lib/vf/checks/e2e.py) with what the
    other packages proved.  Statements only; proofs in Proofs/Capstone*.v. *)
From Coq Require Import Permutation.
From CG Require Import Base.Prelude Model.Ast Model.Parser Model.Check Model.Dfa Model.Driver Model.Tables
  Model.EmitBash Model.Compiler Spec.Printer.
From CG Require Import Proofs.CheckSpans Proofs.PipelineSpans Proofs.CapstoneLayout.
From CGgen Require Import Consts.

(** ** C14 -- layout and statement order do not change the script

    Two layouts (whitespace, newlines, comments, [=] / [::=], final [;], redundant parentheses) of
    one printable grammar, compiled with the SAME oracle value [o]: the same script byte for byte,
    or the same rejection up to the positions the diagnostic points at ([script_rel]: errors are
    compared after erasing spans).  Nothing has to be assumed about [o]: the pop table replays one
    choice function, C14b holds for every choice function, so both texts yield the same command
    name and the same automata, and the literal orders / grouping / signature are read against
    those.  (That the oracles read off Rust's run on one layout also replay Rust's run on the
    other is the property C14 of the implementation itself, checked by c14.py.) *)
Theorem C14_compile_bash_layout :
  forall o builtins g l1 l2,
    wf g -> script_rel (compile_bash o builtins (text g l1)) (compile_bash o builtins (text g l2)).
Proof. exact compile_bash_layout. Qed.
Check C14_compile_bash_layout :
  forall o builtins g l1 l2,
    wf g -> script_rel (compile_bash o builtins (text g l1)) (compile_bash o builtins (text g l2)).
Print Assumptions C14_compile_bash_layout.

(** in particular: when one layout compiles to a script, so does the other, to the same bytes *)
Corollary C14_compile_bash_layout_script :
  forall o builtins g l1 l2 s,
    wf g -> compile_bash o builtins (text g l1) = Ok s -> compile_bash o builtins (text g l2) = Ok s.
Proof.
  intros o builtins g l1 l2 s W H. pose proof (compile_bash_layout o builtins g l1 l2 W) as R.
  rewrite H in R. destruct (compile_bash o builtins (text g l2)) as [s2|e|m|]; cbn in R; try contradiction.
  subst. reflexivity.
Qed.
Check C14_compile_bash_layout_script :
  forall o builtins g l1 l2 s,
    wf g -> compile_bash o builtins (text g l1) = Ok s -> compile_bash o builtins (text g l2) = Ok s.
Print Assumptions C14_compile_bash_layout_script.

(** Two texts whose statements are a permutation of each other (call variants in the same relative
    order): exactly the same result -- the same script, or the same rejection after the checker --
    except that, when the checker rejects, WHICH checker error is reported may depend on the order
    ([order_rel]). *)
Theorem C14_compile_bash_definition_order :
  forall o builtins t t' g g',
    parse t = Ok g -> parse t' = Ok g' ->
    Permutation g g' -> call_variants g = call_variants g' ->
    order_rel (compile_bash o builtins t) (compile_bash o builtins t').
Proof. exact compile_bash_definition_order. Qed.
Check C14_compile_bash_definition_order :
  forall o builtins t t' g g',
    parse t = Ok g -> parse t' = Ok g' ->
    Permutation g g' -> call_variants g = call_variants g' ->
    order_rel (compile_bash o builtins t) (compile_bash o builtins t').
Print Assumptions C14_compile_bash_definition_order.
