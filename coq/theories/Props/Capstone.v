(** Source-level corollaries of the capstone [Compiler.compile_bash]: theorems whose only input is
    the grammar TEXT, obtained by composing [compile_bash] (the whole of [complgen --bash] as one
    Gallina function, tied byte for byte to the real binary by lib/vf/checks/e2e.py) with what the
    other packages proved.  Statements only; proofs in Proofs/Capstone*.v. *)
From Coq Require Import Permutation.
From CG Require Import Base.Prelude Model.Ast Model.Parser Model.Check Model.Dfa Model.Driver Model.Tables
  Model.EmitBash Model.Compiler Spec.Printer.
From CG Require Import Proofs.CheckSpans Proofs.PipelineSpans Proofs.CapstoneLayout.
From CG Require Import Model.BashSem Model.Glob Spec.Lang Spec.ScriptRead Spec.Meaning Spec.Domain Spec.Invocations.
From CG Require Import Proofs.TreeFacts Proofs.BashScript Proofs.BashCodec Proofs.EmbedEndToEnd Proofs.SubChecks
  Proofs.BashMeaningSub Proofs.BashMeaningMix Proofs.StripFacts Proofs.GlobFacts Proofs.SubBridge Proofs.CapstoneLits Proofs.CapstoneMeaning.
From CG Require Import Spec.Choice Spec.Warnings Proofs.CheckProvenance Proofs.CapstoneCommands Proofs.CapstoneChoice.
From CG Require Import Proofs.CapstoneTotalRun.
From CG Require Model.ChainTables Proofs.C12Chain Proofs.CapstoneChain.
From CGgen Require Import Consts.

(** ** C14 -- layout and statement order do not change the script

    Two layouts (whitespace, newlines, comments, [=] / [::=], final [;], redundant parentheses) of
    one printable grammar, compiled with the SAME oracle value [o]: the same script byte for byte,
    or the same rejection up to the positions the diagnostic points at ([script_rel]: errors are
    compared after erasing spans).  Nothing has to be assumed about [o]: the pop table replays one
    choice function, C14b holds for every choice function, so both texts yield the same command
    name and the same automata, and the literal orders / grouping / signature are read against
    those.  (That the oracles read off Rust's run on one layout also replay Rust's run on the
    other is the property C14 of the implementation itself, checked by c14.py.) *)
Theorem C14_compile_bash_layout :
  forall o builtins g l1 l2,
    wf g -> script_rel (compile_bash o builtins (text g l1)) (compile_bash o builtins (text g l2)).
Proof. exact compile_bash_layout. Qed.
Check C14_compile_bash_layout :
  forall o builtins g l1 l2,
    wf g -> script_rel (compile_bash o builtins (text g l1)) (compile_bash o builtins (text g l2)).
Print Assumptions C14_compile_bash_layout.

(** in particular: when one layout compiles to a script, so does the other, to the same bytes *)
Corollary C14_compile_bash_layout_script :
  forall o builtins g l1 l2 s,
    wf g -> compile_bash o builtins (text g l1) = Ok s -> compile_bash o builtins (text g l2) = Ok s.
Proof.
  intros o builtins g l1 l2 s W H. pose proof (compile_bash_layout o builtins g l1 l2 W) as R.
  rewrite H in R. destruct (compile_bash o builtins (text g l2)) as [s2|e|m|]; cbn in R; try contradiction.
  subst. reflexivity.
Qed.
Check C14_compile_bash_layout_script :
  forall o builtins g l1 l2 s,
    wf g -> compile_bash o builtins (text g l1) = Ok s -> compile_bash o builtins (text g l2) = Ok s.
Print Assumptions C14_compile_bash_layout_script.

(** Two texts whose statements are a permutation of each other (call variants in the same relative
    order): exactly the same result -- the same script, or the same rejection after the checker --
    except that, when the checker rejects, WHICH checker error is reported may depend on the order
    ([order_rel]). *)
Theorem C14_compile_bash_definition_order :
  forall o builtins t t' g g',
    Parser.parse t = Ok g -> Parser.parse t' = Ok g' ->
    Permutation g g' -> call_variants g = call_variants g' ->
    order_rel (compile_bash o builtins t) (compile_bash o builtins t').
Proof. exact compile_bash_definition_order. Qed.
Check C14_compile_bash_definition_order :
  forall o builtins t t' g g',
    Parser.parse t = Ok g -> Parser.parse t' = Ok g' ->
    Permutation g g' -> call_variants g = call_variants g' ->
    order_rel (compile_bash o builtins t) (compile_bash o builtins t').
Print Assumptions C14_compile_bash_definition_order.

(** ** C01 + C04 -- from the grammar text to what the emitted script computes

    If [compile_bash] returns the script text [s], then there are the validated tree [v], the
    automata [c] and the tables [a] of the pipeline such that
    (A) the text [s] reads back ([ScriptRead.read_stmts]) to exactly the statement list of [a]: it
        carries the main tables, start state and registration, the within-word rows / levels /
        groups and every within-word automaton's own wrapper; those tables are exactly the labelled
        transitions and per-level candidates of [c]; and [c] accepts exactly what the tree denotes;
    (B) the functions of the script, interpreted on those tables ([BashSem.run_from Repaired]),
        answer exactly what the specification [Meaning.complete] of the tree prescribes: status 1
        when the words cannot be matched, else status 0 with exactly the required candidates.

    Discharged from the pipeline: [alts_nonempty] (parser), [valid_literal_order] of the main and
    of every within-word order and [valid_grouping] (validation of the oracles inside
    [compile_bash]), well-formedness of the automata.  What remains:
    - [text_descr_ok text] (decidable ON THE TEXT): no description string of the grammar is empty.
      It replaces the former oracle-side hypothesis "no literal is listed twice", which is now
      PROVED from it ([CapstoneLits.compiled_orders_nodup]: a literal order [orders_ok] accepts has
      no repeated entry, for the main automaton and every within-word one).  Why it cannot be
      dropped: Rust deduplicates literals on (text, OPTIONAL description) and prints a missing
      description as "", so a literal that occurs both without a description and with the empty one
      is listed twice (witness [cmd (x a | y a "");] -> [literals=("y" "x" "a" "a")]).  That is
      unobservable in the script -- only the LATER entry gets transitions (the id map keeps the
      last id) and both matchers skip an entry without a transition; the same state cannot carry
      both (ambiguity check: conflicting descriptions); different fallback levels are the known
      C09/C04 class -- but C04b's reader theorem and C01's matcher theorem are stated for
      duplicate-free literal orders, and a literal id without any transition is outside them;
    - (A): [name_ok] (the command name is a bash function name), [no_nl] of the signature,
      [body_ok] (no command body has a lone closing brace line) -- C07 leaves;
    - (B): the WHOLE decided domain of C01 ([C01_bash_meaning], no [greedy_shadow] hypothesis, commands
      and nonterminals inside words included): the shape hypothesis [sub_tree] of that theorem is
      discharged here for every PARSED text compiled for bash ([parsed_sub_tree]: no distributive
      description and no word inside a word by [check_tree]; no completion-side command because the
      parser builds commands with the flag off and [specialize] sets it only for zsh).  Remaining:
      [subs_deterministic c] (two within-word automata with the same language reached from one state
      lead to the same state; decidable sufficient form [subs_single]; not implied by the ambiguity
      check, cf. C02's known class of within-word automata merged up to input order), the decided
      domain [C01_domain] and [C01_env_ok], and the environment: case-sensitive completion, the same
      word breaks on both sides and [breaks_ok], a plain printable typed word, command outputs that
      agree with the environment of the specification, an unambiguous line.  The reply contains
      every required candidate and only allowed ones. *)
Theorem C01_compile_bash_meaning :
  forall o builtins text s,
    compile_bash o builtins text = Ok s ->
    exists v c nd a,
      compile (pick_table (o_pops o)) (o_fuel o) builtins text Bash = Ok (v, c)
      /\ all_tables Bash c (o_main_lits o) (o_sub_lits o) = Ok (nd, a)
      /\ (name_ok (v_command v) -> no_nl (o_sig o) = true ->
          Forall (fun cmd => body_ok (cmd_body cmd)) (a_commands a) -> text_descr_ok text = true ->
          (exists sts,
              script_stmts (v_command v) (d_start (c_main c)) nd a (o_groups o) = Ok sts
              /\ read_stmts Bash (v_command v) s = sts
              /\ carries_main (v_command v) (d_start (c_main c)) a sts
              /\ carries_subs (v_command v) nd a (o_groups o) sts
              /\ (n_subwords nd = true -> carries_each_sub (v_command v) a sts))
          /\ tables_describe c (o_main_lits o) (o_sub_lits o) a
          /\ (forall w, accepts_items c w <-> denotes (v_expr v) w))
      /\ (forall (benv : BashSem.env) (en : Meaning.env) ws p,
          text_descr_ok text = true -> subs_deterministic c ->
          C01_domain (v_expr v) = true -> C01_env_ok (v_expr v) en = true ->
          BashSem.e_ignore_case benv = false -> BashSem.e_wordbreaks benv = Meaning.e_wordbreaks en ->
          breaks_ok (BashSem.e_wordbreaks benv) = true -> plain p = true -> printable_str p = true ->
          (forall cm cid, Tables.index_of cm (a_commands a) = Some cid ->
                          spec_candidates (cmd_output benv cid) = candidates en cm) ->
          ambiguous_run en (start (v_expr v)) ws = false ->
          match complete (v_expr v) en ws p with
          | None => exists log, run_from Repaired (d_start (c_main c)) a benv ws p = Ok (mkresult 1 [] log)
          | Some (req, al) =>
              exists reply log, run_from Repaired (d_start (c_main c)) a benv ws p = Ok (mkresult 0 reply log)
                                /\ incl req reply /\ incl reply al
          end).
Proof. exact compile_bash_meaning. Qed.
Check C01_compile_bash_meaning :
  forall o builtins text s,
    compile_bash o builtins text = Ok s ->
    exists v c nd a,
      compile (pick_table (o_pops o)) (o_fuel o) builtins text Bash = Ok (v, c)
      /\ all_tables Bash c (o_main_lits o) (o_sub_lits o) = Ok (nd, a)
      /\ (name_ok (v_command v) -> no_nl (o_sig o) = true ->
          Forall (fun cmd => body_ok (cmd_body cmd)) (a_commands a) -> text_descr_ok text = true ->
          (exists sts,
              script_stmts (v_command v) (d_start (c_main c)) nd a (o_groups o) = Ok sts
              /\ read_stmts Bash (v_command v) s = sts
              /\ carries_main (v_command v) (d_start (c_main c)) a sts
              /\ carries_subs (v_command v) nd a (o_groups o) sts
              /\ (n_subwords nd = true -> carries_each_sub (v_command v) a sts))
          /\ tables_describe c (o_main_lits o) (o_sub_lits o) a
          /\ (forall w, accepts_items c w <-> denotes (v_expr v) w))
      /\ (forall (benv : BashSem.env) (en : Meaning.env) ws p,
          text_descr_ok text = true -> subs_deterministic c ->
          C01_domain (v_expr v) = true -> C01_env_ok (v_expr v) en = true ->
          BashSem.e_ignore_case benv = false -> BashSem.e_wordbreaks benv = Meaning.e_wordbreaks en ->
          breaks_ok (BashSem.e_wordbreaks benv) = true -> plain p = true -> printable_str p = true ->
          (forall cm cid, Tables.index_of cm (a_commands a) = Some cid ->
                          spec_candidates (cmd_output benv cid) = candidates en cm) ->
          ambiguous_run en (start (v_expr v)) ws = false ->
          match complete (v_expr v) en ws p with
          | None => exists log, run_from Repaired (d_start (c_main c)) a benv ws p = Ok (mkresult 1 [] log)
          | Some (req, al) =>
              exists reply log, run_from Repaired (d_start (c_main c)) a benv ws p = Ok (mkresult 0 reply log)
                                /\ incl req reply /\ incl reply al
          end).
Print Assumptions C01_compile_bash_meaning.

(** Non-vacuity: for the text below (a fallback, a within-word expression, a literal) [compile_bash]
    returns a script, the tree is in the proved layers and in the decided domain, no description
    is empty, the decidable form of [subs_deterministic] holds. *)
Definition exm_text : string := "cmd (add || --k=(x|yz)) end;".
Definition exm_o : oracles :=
  mkoracles [] 100 [("end", ""); ("add", "")] [(0, [("--k=", ""); ("yz", ""); ("x", "")])] [[0]] "sig".
Example ex_C01_capstone_inhabited :
  is_ok (compile_bash exm_o builtins exm_text) = true
  /\ text_descr_ok exm_text = true
  /\ match compile (pick_table (o_pops exm_o)) (o_fuel exm_o) builtins exm_text Bash with
     | Ok (v, c) => SubBridge.sub_tree (v_expr v) = true /\ C01_domain (v_expr v) = true /\ subs_single c = true
                    /\ name_ok (v_command v)
     | _ => False
     end.
Proof.
  split; [vm_compute; reflexivity|]. split; [vm_compute; reflexivity|].
  vm_compute. repeat split; try reflexivity; discriminate.
Qed.
Print Assumptions ex_C01_capstone_inhabited.

(** ** C11 -- the external commands the script can run

    If [compile_bash] returns the script text [s] for a text that parses to [g], then
    - every command of the command table of the tables ([a_commands]) is [cmd_source builtins g Bash]:
      written in a call variant or in a PLAIN definition of the grammar ([plain_cmds]), or the
      command the specification [Spec.Choice.spec builtins g Bash x] chooses for a nonterminal [x]
      the grammar refers to -- i.e. the [<x@bash>] definition, else (no plain definition) the
      built-in for PATH / DIRECTORY.  A definition for ANOTHER shell is never a source;
    - the statements read back from [s] ([ScriptRead.read_stmts]) contain function bodies
      ([SBody]) for exactly the commands of that table, each body verbatim ([cmd_body]: trimmed,
      ":" when empty) -- so every external command the script can run is one of the above.
    - conversely, for every nonterminal [x] REACHABLE from the call variants through the chosen
      plain definitions ([Spec.Warnings.used_names g Bash], the reachability C15 is stated with)
      for which the specification chooses a command [cm], [cm] is in that table -- hence, by the
      previous item, has its function in the script.  (Checker half, [reachable_commands]: the
      resolved table is the fixed point of "replace every reference by its entry", so a path in
      the grammar carries the command into the validated tree.  Automaton half,
      [compiled_commands_complete]: every leaf of a tree without empty alternatives occurs in a
      denoted word, the automaton accepts it (C02 through C03's minimiser), an accepting run uses
      a transition for each input, [get_commands] lists the command of every transition.) *)
Theorem C11_compile_bash_commands :
  forall o builtins text s,
    compile_bash o builtins text = Ok s ->
    exists g v c nd a,
      Parser.parse text = Ok g
      /\ compile (pick_table (o_pops o)) (o_fuel o) builtins text Bash = Ok (v, c)
      /\ all_tables Bash c (o_main_lits o) (o_sub_lits o) = Ok (nd, a)
      /\ (forall cm, In cm (a_commands a) -> cmd_source builtins g Bash cm)
      /\ (forall x cm, In x (used_names g Bash) -> Choice.spec builtins g Bash x = ChCommand cm ->
                       In cm (a_commands a))
      /\ (name_ok (v_command v) -> no_nl (o_sig o) = true ->
          Forall (fun cm => body_ok (cmd_body cm)) (a_commands a) ->
          exists sts,
            script_stmts (v_command v) (d_start (c_main c)) nd a (o_groups o) = Ok sts
            /\ read_stmts Bash (v_command v) s = sts
            /\ forall b, In (SBody b) sts <-> exists cm, In cm (a_commands a) /\ b = cmd_body cm).
Proof. exact compile_bash_commands. Qed.
Check C11_compile_bash_commands :
  forall o builtins text s,
    compile_bash o builtins text = Ok s ->
    exists g v c nd a,
      Parser.parse text = Ok g
      /\ compile (pick_table (o_pops o)) (o_fuel o) builtins text Bash = Ok (v, c)
      /\ all_tables Bash c (o_main_lits o) (o_sub_lits o) = Ok (nd, a)
      /\ (forall cm, In cm (a_commands a) -> cmd_source builtins g Bash cm)
      /\ (forall x cm, In x (used_names g Bash) -> Choice.spec builtins g Bash x = ChCommand cm ->
                       In cm (a_commands a))
      /\ (name_ok (v_command v) -> no_nl (o_sig o) = true ->
          Forall (fun cm => body_ok (cmd_body cm)) (a_commands a) ->
          exists sts,
            script_stmts (v_command v) (d_start (c_main c)) nd a (o_groups o) = Ok sts
            /\ read_stmts Bash (v_command v) s = sts
            /\ forall b, In (SBody b) sts <-> exists cm, In cm (a_commands a) /\ b = cmd_body cm).
Print Assumptions C11_compile_bash_commands.

(** the checker-level fact it rests on, for every shell *)
Theorem C11_validated_commands :
  forall builtins g sh v,
    from_grammar builtins g sh = Ok v ->
    forall c, In c (cmd_texts (v_expr v)) -> cmd_source builtins g sh c.
Proof. exact from_grammar_cmds. Qed.
Check C11_validated_commands :
  forall builtins g sh v,
    from_grammar builtins g sh = Ok v ->
    forall c, In c (cmd_texts (v_expr v)) -> cmd_source builtins g sh c.
Print Assumptions C11_validated_commands.

(** Non-vacuity: <F> has a definition for bash, one for zsh and a plain one; the bash script gets the
    bash command (and the inline command), not the others. *)
Definition exc_text : string :=
  "cmd <F> {{{ echo inline }}}; <F@bash> ::= {{{ echo forbash }}}; <F@zsh> ::= {{{ echo forzsh }}}; <F> ::= {{{ echo plain }}};".
Example ex_C11_capstone_inhabited :
  match compile (fun _ _ => O) 100 builtins exc_text Bash with
  | Ok (v, c) => get_commands c = Ok ["echo forbash"; "echo inline"]
  | _ => False
  end.
Proof. vm_compute. reflexivity. Qed.
Print Assumptions ex_C11_capstone_inhabited.

(** Non-vacuity of the converse item: <F> is reached through the plain definition of <A> only; the
    specification chooses the bash command for it, and the command table has it. *)
Definition exd_text : string :=
  "cmd <A>; <A> ::= x <F>; <F@bash> ::= {{{ echo forbash }}}; <F> ::= {{{ echo plain }}};".
Example ex_C11_converse_inhabited :
  match Parser.parse exd_text with
  | Ok g => In "F" (used_names g Bash) /\ Choice.spec builtins g Bash "F" = ChCommand "echo forbash"
  | _ => False
  end
  /\ match compile (fun _ _ => O) 100 builtins exd_text Bash with
     | Ok (v, c) => get_commands c = Ok ["echo forbash"]
     | _ => False
     end.
Proof. split; vm_compute; [split; [right; left; reflexivity|reflexivity]|reflexivity]. Qed.
Print Assumptions ex_C11_converse_inhabited.

(** ** C17 / C06 -- the functions of the script terminate

    If [compile_bash] returns a script and no within-word literal of the (validated) literal orders
    is empty -- the parser never produces an empty literal; the hypothesis is the decidable
    [sub_lits_nonempty o], evaluated by the tie -- then the interpreter of the script's functions
    on the tables of that script ([BashSem.run_from Repaired], the model of /repo HEAD's bash
    templates) neither runs out of fuel nor reaches a panic site, for EVERY environment, every
    list of typed words and every prefix, and its return code is 0 or 1.
    (C12: see the next section.) *)
Theorem C17_compile_bash_run_total :
  forall o builtins text s,
    compile_bash o builtins text = Ok s -> sub_lits_nonempty o = true ->
    exists v c nd a,
      compile (pick_table (o_pops o)) (o_fuel o) builtins text Bash = Ok (v, c)
      /\ all_tables Bash c (o_main_lits o) (o_sub_lits o) = Ok (nd, a)
      /\ forall e ws p,
           run_from Repaired (d_start (c_main c)) a e ws p <> OutOfFuel
           /\ (forall site, run_from Repaired (d_start (c_main c)) a e ws p <> Panic site)
           /\ (forall r, run_from Repaired (d_start (c_main c)) a e ws p = Ok r -> r_rc r = 0 \/ r_rc r = 1).
Proof. exact compile_bash_run_total. Qed.
Check C17_compile_bash_run_total :
  forall o builtins text s,
    compile_bash o builtins text = Ok s -> sub_lits_nonempty o = true ->
    exists v c nd a,
      compile (pick_table (o_pops o)) (o_fuel o) builtins text Bash = Ok (v, c)
      /\ all_tables Bash c (o_main_lits o) (o_sub_lits o) = Ok (nd, a)
      /\ forall e ws p,
           run_from Repaired (d_start (c_main c)) a e ws p <> OutOfFuel
           /\ (forall site, run_from Repaired (d_start (c_main c)) a e ws p <> Panic site)
           /\ (forall r, run_from Repaired (d_start (c_main c)) a e ws p = Ok r -> r_rc r = 0 \/ r_rc r = 1).
Print Assumptions C17_compile_bash_run_total.

(** ** C12 -- a value that is a prefix of another value, through the capstone

    [C12_chain_any_repaired_variant] is about the table family [chain_alltables lits ipre next].
    Whether the pipeline produces an instance of that family for a text is a decidable fact about
    that text -- an equality of finite tables -- and NOT a lemma here: a parametric proof would have
    to evaluate parser, checker, subset construction and Hopcroft's loop symbolically on
    [cmd <pre>(<v1>|...|<vn>) <next>;] for every n and all strings.  So the corollary is
    conditional on that equality: if [compile_bash] returns a script and the tables of that script
    are [chain_alltables lits ipre next] (start state 0), then for every matcher variant with the
    repaired stop test the functions of the script, on those tables, recognise a complete value
    even when another value extends it, and offer exactly the values that extend a partial one.
    The equality is discharged by kernel computation for a concrete text (the Example below: the
    text of the finding, [abc] a prefix of [abcd]) and, for Rust's tables, by differential execution
    on the exhaustive family (c12.py). *)
Theorem C12_compile_bash_chain :
  forall o builtins text s v c nd a lits ipre pre next,
    compile_bash o builtins text = Ok s ->
    compile (pick_table (o_pops o)) (o_fuel o) builtins text Bash = Ok (v, c) ->
    all_tables Bash c (o_main_lits o) (o_sub_lits o) = Ok (nd, a) ->
    d_start (c_main c) = 0%N -> a = ChainTables.chain_alltables lits ipre next ->
    nthN lits ipre = Some pre ->
    forall var, var <> Pinned ->
    (var = Repaired \/ (forall l, In l lits -> plain l = true)) ->
    (forall l, In l lits -> printable_str l = true) ->
    (forall l, In l lits -> l <> EmptyString) ->
    C12Chain.sorted_len lits ->
    (forall (e : BashSem.env) w,
        BashSem.e_wordbreaks e = EmptyString \/ BashSem.e_wordbreaks e = C12Chain.default_wordbreaks ->
        C12Chain.is_value lits pre w ->
        run_from var (d_start (c_main c)) a e [(pre ++ w)%string] EmptyString
        = Ok (mkresult 0 [(next ++ " ")%string] []))
    /\ (forall (e : BashSem.env) p,
           BashSem.e_ignore_case e = false -> BashSem.e_wordbreaks e = EmptyString ->
           (var = Repaired \/ plain p = true) -> printable_str p = true ->
           (exists w, C12Chain.is_value lits pre w /\ String.prefix p w = true /\ p <> w) ->
           run_from var (d_start (c_main c)) a e [] (pre ++ p)
           = Ok (mkresult 0 (map (append pre) (filter (String.prefix p) (C12Chain.values lits ipre))) [])).
Proof. exact CapstoneChain.compile_bash_chain. Qed.
Check C12_compile_bash_chain :
  forall o builtins text s v c nd a lits ipre pre next,
    compile_bash o builtins text = Ok s ->
    compile (pick_table (o_pops o)) (o_fuel o) builtins text Bash = Ok (v, c) ->
    all_tables Bash c (o_main_lits o) (o_sub_lits o) = Ok (nd, a) ->
    d_start (c_main c) = 0%N -> a = ChainTables.chain_alltables lits ipre next ->
    nthN lits ipre = Some pre ->
    forall var, var <> Pinned ->
    (var = Repaired \/ (forall l, In l lits -> plain l = true)) ->
    (forall l, In l lits -> printable_str l = true) ->
    (forall l, In l lits -> l <> EmptyString) ->
    C12Chain.sorted_len lits ->
    (forall (e : BashSem.env) w,
        BashSem.e_wordbreaks e = EmptyString \/ BashSem.e_wordbreaks e = C12Chain.default_wordbreaks ->
        C12Chain.is_value lits pre w ->
        run_from var (d_start (c_main c)) a e [(pre ++ w)%string] EmptyString
        = Ok (mkresult 0 [(next ++ " ")%string] []))
    /\ (forall (e : BashSem.env) p,
           BashSem.e_ignore_case e = false -> BashSem.e_wordbreaks e = EmptyString ->
           (var = Repaired \/ plain p = true) -> printable_str p = true ->
           (exists w, C12Chain.is_value lits pre w /\ String.prefix p w = true /\ p <> w) ->
           run_from var (d_start (c_main c)) a e [] (pre ++ p)
           = Ok (mkresult 0 (map (append pre) (filter (String.prefix p) (C12Chain.values lits ipre))) [])).
Print Assumptions C12_compile_bash_chain.

(** The text of the finding, from the text to the behaviour, inside the kernel: [compile_bash]
    returns a script for it, the tables of that script are the instance
    [chain_alltables ["--opt="; "abcd"; "abc"; "a"] 0 "next"], and the functions on those tables
    accept the word [--opt=abc] (and [--opt=a]) although [abcd] extends it. *)
Definition ex12_text : string := "cmd --opt=(abcd|abc|a) next;".
Definition ex12_o : oracles :=
  mkoracles [] 100 [("next", "")] [(0, [("--opt=", ""); ("abcd", ""); ("abc", ""); ("a", "")])] [[0]] "sig".
Example ex_C12_capstone_instance :
  is_ok (compile_bash ex12_o builtins ex12_text) = true
  /\ match compile (pick_table (o_pops ex12_o)) (o_fuel ex12_o) builtins ex12_text Bash with
     | Ok (v, c) =>
         d_start (c_main c) = 0
         /\ all_tables Bash c (o_main_lits ex12_o) (o_sub_lits ex12_o)
            = Ok (mkneeds true false false false false false false,
                  ChainTables.chain_alltables ["--opt="; "abcd"; "abc"; "a"] 0 "next")
         /\ forall (e : BashSem.env),
              BashSem.e_wordbreaks e = EmptyString \/ BashSem.e_wordbreaks e = C12Chain.default_wordbreaks ->
              run_from Repaired (d_start (c_main c)) (ChainTables.chain_alltables ["--opt="; "abcd"; "abc"; "a"] 0 "next")
                       e ["--opt=abc"] EmptyString
              = Ok (mkresult 0 ["next "] [])
     | _ => False
     end.
Proof.
  split; [vm_compute; reflexivity|].
  destruct (compile (pick_table (o_pops ex12_o)) (o_fuel ex12_o) builtins ex12_text Bash) as [[v c]| | |] eqn:Hc;
    try (vm_compute in Hc; discriminate).
  assert (Hs : d_start (c_main c) = 0) by (vm_compute in Hc; inversion Hc; reflexivity).
  assert (Ha : all_tables Bash c (o_main_lits ex12_o) (o_sub_lits ex12_o)
               = Ok (mkneeds true false false false false false false,
                     ChainTables.chain_alltables ["--opt="; "abcd"; "abc"; "a"] 0 "next"))
    by (vm_compute in Hc; inversion Hc; vm_compute; reflexivity).
  split; [exact Hs|]. split; [exact Ha|]. intros e He.
  assert (Hok : exists s, compile_bash ex12_o builtins ex12_text = Ok s).
  { destruct (compile_bash ex12_o builtins ex12_text) as [s| | |] eqn:E; [eauto| | |]; vm_compute in E; discriminate. }
  destruct Hok as [s Hcb].
  destruct (C12_compile_bash_chain ex12_o builtins ex12_text s v c _ _ ["--opt="; "abcd"; "abc"; "a"] 0 "--opt=" "next"
              Hcb Hc Ha Hs eq_refl eq_refl Repaired ltac:(discriminate) (or_introl eq_refl)) as [H1 _].
  - intros l Hl. repeat (destruct Hl as [<-|Hl]; [vm_compute; reflexivity|]). destruct Hl.
  - intros l Hl. repeat (destruct Hl as [<-|Hl]; [discriminate|]). destruct Hl.
  - cbn. repeat split; intros b Hb; repeat (destruct Hb as [<-|Hb]; [cbn; lia|]); destruct Hb.
  - assert (Hv : C12Chain.is_value ["--opt="; "abcd"; "abc"; "a"] "--opt=" "abc") by (split; [cbn; auto|discriminate]).
    pose proof (H1 e "abc" He Hv) as H. cbn [append] in H. exact H.
Qed.
Print Assumptions ex_C12_capstone_instance.
