(** C13 end to end -- diagnostics point at the construct they complain about, for EVERY input text.
    Statements only; proofs in Proofs/DiagLines.v, DiagSpans.v, DiagPipeline.v (on top of the
    parser's span soundness, Props/C05.v, and the checker's provenance, Props/C13.v).

    [Driver.compile] is the whole pipeline; [Diag.error_messages] / [Diag.warning_messages] /
    [Diag.render] model what main.rs prints for its errors and warnings ([Model/Diag.v]);
    [pos_ok text sp] ([Spec/Spans.v]): the line and start column of [sp] are the nom_locate position
    reached after some prefix of [text], and a byte follows. *)
From CG Require Import Base.Prelude Model.Ast Model.Lexer Model.Parser Model.Check Model.Regex.
From CG Require Import Model.Driver Model.Diag Spec.Spans Spec.Choice Spec.Mistakes.
From CG Require Import Proofs.CheckProvenance Proofs.SpanSound Proofs.DiagLines Proofs.DiagSpans Proofs.DiagPipeline.
From CGgen Require Import Consts.
Local Open Scope list_scope.

(** (b) Every located message of an error of the pipeline -- syntax error, every error of the
    checker, the regex builder's [UnboundedMatchable] -- and every warning of an accepted grammar
    starts at a byte of the text. *)
Theorem C13_pipeline_positions :
  forall pick fuel builtins text sh,
    (forall e, compile pick fuel builtins text sh = Err e ->
               Forall (fun m => pos_ok text (m_span m)) (error_messages e))
    /\ (forall g v, parse text = Ok g -> from_grammar builtins g sh = Ok v ->
                    Forall (fun m => pos_ok text (m_span m)) (warning_messages v)).
Proof.
  intros. split; [intros e H; eapply error_positions; eauto|intros g v P C; eapply warning_positions; eauto].
Qed.
Check C13_pipeline_positions :
  forall pick fuel builtins text sh,
    (forall e, compile pick fuel builtins text sh = Err e ->
               Forall (fun m => pos_ok text (m_span m)) (error_messages e))
    /\ (forall g v, parse text = Ok g -> from_grammar builtins g sh = Ok v ->
                    Forall (fun m => pos_ok text (m_span m)) (warning_messages v)).
Print Assumptions C13_pipeline_positions.

(** ... at the start of a construct of the right kind: the spans of a checker error are spans the
    parser attached ([stmt_ok]: start and end are positions of the text, the construct is not
    empty) to the constructs [err_provenance] names (the predicate [C13_error_provenance] unfolds:
    command names, definition heads, shell names, right-hand sides, literals, references). *)
Theorem C13_pipeline_error_provenance :
  forall pick fuel builtins text sh ce,
    compile pick fuel builtins text sh = Err (DCheck ce) ->
    exists g, parse text = Ok g /\ Forall (stmt_ok text) g /\ err_provenance g sh ce.
Proof.
  intros pick fuel builtins text sh ce H.
  destruct (compile_err_cases pick fuel builtins text sh _ H)
    as [(sp & E & _)|[(g & ce' & E & P & C)|[(g & v & re & E & _)|[[x E]|[x E]]]]]; try discriminate.
  inversion E; subst. exists g. repeat split; auto.
  - rewrite parse_repaired in P. apply parse_spans_sound; auto.
  - eapply errors_provenance; eauto.
Qed.
Check C13_pipeline_error_provenance :
  forall pick fuel builtins text sh ce,
    compile pick fuel builtins text sh = Err (DCheck ce) ->
    exists g, parse text = Ok g /\ Forall (stmt_ok text) g /\ err_provenance g sh ce.
Print Assumptions C13_pipeline_error_provenance.

Theorem C13_pipeline_warning_provenance :
  forall builtins text sh g v,
    parse text = Ok g -> from_grammar builtins g sh = Ok v ->
    Forall (stmt_ok text) g /\
    (forall n sp, In (n, sp) (v_undefined v) -> In (n, sp) (grammar_refs g)) /\
    (forall n sp, In (n, sp) (v_unused v) -> exists rhs, In (NontermDef n sp None rhs) g) /\
    (forall n sp, In (n, sp) (v_unused_specs v) ->
                  exists shn shsp rhs, In (NontermDef n sp (Some (shn, shsp)) rhs) g /\ is_shell shn sh = true).
Proof.
  intros builtins text sh g v P C. split.
  - rewrite parse_repaired in P. apply parse_spans_sound; auto.
  - eapply warnings_provenance; eauto.
Qed.
Check C13_pipeline_warning_provenance :
  forall builtins text sh g v,
    parse text = Ok g -> from_grammar builtins g sh = Ok v ->
    Forall (stmt_ok text) g /\
    (forall n sp, In (n, sp) (v_undefined v) -> In (n, sp) (grammar_refs g)) /\
    (forall n sp, In (n, sp) (v_unused v) -> exists rhs, In (NontermDef n sp None rhs) g) /\
    (forall n sp, In (n, sp) (v_unused_specs v) ->
                  exists shn shsp rhs, In (NontermDef n sp (Some (shn, shsp)) rhs) g /\ is_shell shn sh = true).
Print Assumptions C13_pipeline_warning_provenance.

(** the two spans of "Ambiguous grammar" are spans of nodes of the validated tree (regex inputs are
    its literals, nonterminals, commands and words), which are spans of nodes of the source *)
Theorem C13_pipeline_unbounded_provenance :
  forall pick fuel builtins text sh a b,
    compile pick fuel builtins text sh = Err (DRegex (UnboundedMatchable a b)) ->
    exists g v, parse text = Ok g /\ from_grammar builtins g sh = Ok v
                /\ In a (all_spans (v_expr v)) /\ In b (all_spans (v_expr v))
                /\ In a (grammar_spans g) /\ In b (grammar_spans g).
Proof.
  intros pick fuel builtins text sh a b H.
  destruct (compile_err_cases pick fuel builtins text sh _ H)
    as [(sp & E & _)|[(g & ce' & E & _)|[(g & v & re & E & P & C & R)|[[x E]|[x E]]]]]; try discriminate.
  inversion E; subst. exists g, v. destruct (unbounded_spans _ _ _ R) as [Ha Hb].
  pose proof (checker_spans builtins g sh) as X. rewrite C in X.
  repeat split; auto; apply X; unfold valid_spans; apply in_or_app; left; assumption.
Qed.
Check C13_pipeline_unbounded_provenance :
  forall pick fuel builtins text sh a b,
    compile pick fuel builtins text sh = Err (DRegex (UnboundedMatchable a b)) ->
    exists g v, parse text = Ok g /\ from_grammar builtins g sh = Ok v
                /\ In a (all_spans (v_expr v)) /\ In b (all_spans (v_expr v))
                /\ In a (grammar_spans g) /\ In b (grammar_spans g).
Print Assumptions C13_pipeline_unbounded_provenance.

(** (c) Rendering never panics: the line a message quotes exists ([lines().nth(..).unwrap()]), for
    every message of every error and every warning, whatever the text. *)
Theorem C13_render_total :
  forall pick fuel builtins path text sh,
    (forall e, compile pick fuel builtins text sh = Err e ->
               Forall (fun m => exists r, render path text (m_span m) = Ok r) (error_messages e))
    /\ (forall g v, parse text = Ok g -> from_grammar builtins g sh = Ok v ->
                    Forall (fun m => exists r, render path text (m_span m) = Ok r) (warning_messages v)).
Proof.
  intros. split; [intros e H; eapply render_errors_total; eauto|intros g v P C; eapply render_warnings_total; eauto].
Qed.
Check C13_render_total :
  forall pick fuel builtins path text sh,
    (forall e, compile pick fuel builtins text sh = Err e ->
               Forall (fun m => exists r, render path text (m_span m) = Ok r) (error_messages e))
    /\ (forall g v, parse text = Ok g -> from_grammar builtins g sh = Ok v ->
                    Forall (fun m => exists r, render path text (m_span m) = Ok r) (warning_messages v)).
Print Assumptions C13_render_total.

(** ... and the quoted line is the one the construct starts on: it is line [sline sp] of
    [str::lines], and its byte at column [scol sp] is the construct's first byte [b] (unless that
    byte is itself a line terminator, which only a shell name can start with). *)
Theorem C13_render_shows_construct :
  forall path pre b rest sp,
    sline sp = pline (adv_str pre pos0) -> scol sp = pcol (adv_str pre pos0) -> 1 <= secol sp ->
    exists r, render path (append pre (String b rest)) sp = Ok r
              /\ r_line_no r = sline sp
              /\ nth_error (lines (append pre (String b rest))) (N.to_nat (sline sp - 1)) = Some (r_line r)
              /\ (b <> LF -> b <> CR -> String.get (N.to_nat (scol sp - 1)) (r_line r) = Some b).
Proof. exact render_at. Qed.
Check C13_render_shows_construct :
  forall path pre b rest sp,
    sline sp = pline (adv_str pre pos0) -> scol sp = pcol (adv_str pre pos0) -> 1 <= secol sp ->
    exists r, render path (append pre (String b rest)) sp = Ok r
              /\ r_line_no r = sline sp
              /\ nth_error (lines (append pre (String b rest))) (N.to_nat (sline sp - 1)) = Some (r_line r)
              /\ (b <> LF -> b <> CR -> String.get (N.to_nat (scol sp - 1)) (r_line r) = Some b).
Print Assumptions C13_render_shows_construct.

(** Non-vacuity: an undefined nonterminal on the second line, after an escaped literal and a CR LF
    line end: the warning is rendered with header [f.usage:2:3:], quoting [  <FOO> x;] (CR
    stripped), underlining columns 2..7; and a syntax error at the end of a text without final
    line feed is rendered too. *)
Example ex_C13b_inhabited :
  match parse ("cmd a\.b" ++ String CR (String LF "  <FOO> x;" ++ String CR (String LF ""))) with
  | Ok g =>
      match from_grammar builtins g Bash with
      | Ok v =>
          match warning_messages v with
          | [m] =>
              match render "f.usage" ("cmd a\.b" ++ String CR (String LF "  <FOO> x;" ++ String CR (String LF ""))) (m_span m) with
              | Ok r => String.eqb (r_header r) "f.usage:2:3:" && String.eqb (r_line r) "  <FOO> x;"
                        && N.eqb (fst (r_cols r)) 2 && N.eqb (snd (r_cols r)) 7
              | _ => false
              end
          | _ => false
          end
      | _ => false
      end
  | _ => false
  end = true
  /\ match parse "cmd a |" with
     | Err sp => match render "-" "cmd a |" sp with
                 | Ok r => String.eqb (r_header r) "-:1:1:" && String.eqb (r_line r) "cmd a |"
                 | _ => false end
     | _ => false
     end = true.
Proof. vm_compute. split; reflexivity. Qed.
Print Assumptions ex_C13b_inhabited.
