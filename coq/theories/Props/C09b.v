(** C09 on the compiled automaton.  Statements only; proofs in Proofs/C09Compiled.v (with
    Proofs/EraseLang.v, ReadWords.v, TaccWords.v), composing [CheckBar] (the [|] variant of a
    source grammar has the same normal form), [C02_driver] (the compiled automaton accepts exactly
    what the validated tree denotes), [compiled_facts] / [sub_facts] (the compiled automata are
    well-formed and trim) and [C09_dec_correct_partial] ([Ambig.find] finds nothing => unambiguous).

    These replace the two statements of [Props/C09.v] over an abstract compile function
    ([C09_fallback_transparent_statement], [C09_candidates_monotone_statement] for the matching
    half): [compile] is now [Driver.compile_valid], the run of the automaton on typed words is
    [wpath] (every word is read by the item of the transition: a literal reads its text, a
    composite word what its within-word automaton reads; what a command or an undefined
    nonterminal reads is the parameter [wild]).

    Erasure ([erases], [erased_lang]) forgets levels AND descriptions: the [|] variant of
    [(a || b) "d"] describes both [a] and [b], the [||] original only [a]. *)
From CG Require Import Base.Prelude Model.Ast Model.Dfa Model.Check Model.Subset Model.Ambiguity Model.Driver.
From CG Require Import Spec.Lang Spec.Ambig.
From CG Require Import Proofs.TreeFacts Proofs.MeaningLevels Proofs.CheckBar Proofs.EraseLang Proofs.ReadWords Proofs.C09Compiled.
From CG Require Import Props.C09.
From CGgen Require Import Consts.

(** [||] is transparent to matching, on the automata the pipeline compiles for a grammar [g] and
    for its [|] variant [bar_grammar g] (any pop orders, any fuel):
    (1) they accept the same item words once levels and descriptions are erased;
    (2) read as typed words they match the same command lines and expect the same items, up to
        erasure, after them -- whatever commands and undefined nonterminals read, provided it does
        not depend on their level;
    (3) outside the known mechanisms ([known_C09 = false]) the walk over the words the grammar
        fixes is unique in each of them (so "the state reached" and "the items expected" are
        functions of the typed words). *)
Theorem C09_fallback_transparent_compiled :
  forall builtins g sh v v' pick fuel pick' fuel' c c',
    from_grammar builtins g sh = Ok v ->
    from_grammar builtins (bar_grammar g) sh = Ok v' ->
    grammar_alts_nonempty g = true ->
    compile_valid pick fuel v = Ok c -> compile_valid pick' fuel' v' = Ok c' ->
    (forall u, erased_lang (accepts_items c) u <-> erased_lang (accepts_items c') u) /\
    (forall wild, (forall a w, wild (erase_witem a) w <-> wild a w) ->
       forall ws,
         (matched_words wild c ws <-> matched_words wild c' ws) /\
         (forall x, expected wild c ws x ->
            exists x' y, expected wild c' ws x' /\ erases (item_of_inp c x) y /\ erases (item_of_inp c' x') y) /\
         (forall x', expected wild c' ws x' ->
            exists x y, expected wild c ws x /\ erases (item_of_inp c' x') y /\ erases (item_of_inp c x) y)) /\
    (known_C09 c = false -> forall ws s1 s2,
       wpath none_wild c (d_start (c_main c)) ws s1 -> wpath none_wild c (d_start (c_main c)) ws s2 -> s1 = s2) /\
    (known_C09 c' = false -> forall ws s1 s2,
       wpath none_wild c' (d_start (c_main c')) ws s1 -> wpath none_wild c' (d_start (c_main c')) ws s2 -> s1 = s2).
Proof. exact fallback_transparent_compiled_b. Qed.
Check C09_fallback_transparent_compiled :
  forall builtins g sh v v' pick fuel pick' fuel' c c',
    from_grammar builtins g sh = Ok v ->
    from_grammar builtins (bar_grammar g) sh = Ok v' ->
    grammar_alts_nonempty g = true ->
    compile_valid pick fuel v = Ok c -> compile_valid pick' fuel' v' = Ok c' ->
    (forall u, erased_lang (accepts_items c) u <-> erased_lang (accepts_items c') u) /\
    (forall wild, (forall a w, wild (erase_witem a) w <-> wild a w) ->
       forall ws,
         (matched_words wild c ws <-> matched_words wild c' ws) /\
         (forall x, expected wild c ws x ->
            exists x' y, expected wild c' ws x' /\ erases (item_of_inp c x) y /\ erases (item_of_inp c' x') y) /\
         (forall x', expected wild c' ws x' ->
            exists x y, expected wild c ws x /\ erases (item_of_inp c' x') y /\ erases (item_of_inp c x) y)) /\
    (known_C09 c = false -> forall ws s1 s2,
       wpath none_wild c (d_start (c_main c)) ws s1 -> wpath none_wild c (d_start (c_main c)) ws s2 -> s1 = s2) /\
    (known_C09 c' = false -> forall ws s1 s2,
       wpath none_wild c' (d_start (c_main c')) ws s1 -> wpath none_wild c' (d_start (c_main c')) ws s2 -> s1 = s2).
Print Assumptions C09_fallback_transparent_compiled.

(** The tree-level fact behind (1): the two validated trees have the same normal form, and the
    normal form denotes the erased language. *)
Theorem C09_bar_same_normal_form :
  forall builtins g sh v v',
    from_grammar builtins g sh = Ok v -> from_grammar builtins (bar_grammar g) sh = Ok v' ->
    norm (v_expr v') = norm (v_expr v).
Proof. exact from_grammar_bar_norm. Qed.
Check C09_bar_same_normal_form :
  forall builtins g sh v v',
    from_grammar builtins g sh = Ok v -> from_grammar builtins (bar_grammar g) sh = Ok v' ->
    norm (v_expr v') = norm (v_expr v).
Print Assumptions C09_bar_same_normal_form.

Theorem C09_denotes_norm :
  forall e u, denotes (norm e) u <-> erased_lang (denotes e) u.
Proof. exact denotes_norm. Qed.
Check C09_denotes_norm :
  forall e u, denotes (norm e) u <-> erased_lang (denotes e) u.
Print Assumptions C09_denotes_norm.

(** No typed word has two readings with different continuations, on the GRAMMAR side: outside
    the known mechanisms, two readings (item words of the grammar whose items read the typed
    words one by one) of the same command line that can both be continued have the same
    continuations; in particular two expected items at the same point that read the same word
    lead to the same residual language. *)
Theorem C09_unambiguous_compiled :
  forall pick fuel v c,
    alts_nonempty (v_expr v) = true -> compile_valid pick fuel v = Ok c -> known_C09 c = false ->
    (forall ws p q,
       Forall2 (item_reads none_wild) p ws -> Forall2 (item_reads none_wild) q ws ->
       (exists r, denotes (v_expr v) (p ++ r)) -> (exists r, denotes (v_expr v) (q ++ r)) ->
       forall r, denotes (v_expr v) (p ++ r) <-> denotes (v_expr v) (q ++ r)) /\
    (forall ws p q x y w,
       Forall2 (item_reads none_wild) p ws -> Forall2 (item_reads none_wild) q ws ->
       item_reads none_wild x w -> item_reads none_wild y w ->
       (exists r, denotes (v_expr v) (p ++ x :: r)) -> (exists r, denotes (v_expr v) (q ++ y :: r)) ->
       forall r, denotes (v_expr v) (p ++ x :: r) <-> denotes (v_expr v) (q ++ y :: r)).
Proof. exact unambiguous_compiled_b. Qed.
Check C09_unambiguous_compiled :
  forall pick fuel v c,
    alts_nonempty (v_expr v) = true -> compile_valid pick fuel v = Ok c -> known_C09 c = false ->
    (forall ws p q,
       Forall2 (item_reads none_wild) p ws -> Forall2 (item_reads none_wild) q ws ->
       (exists r, denotes (v_expr v) (p ++ r)) -> (exists r, denotes (v_expr v) (q ++ r)) ->
       forall r, denotes (v_expr v) (p ++ r) <-> denotes (v_expr v) (q ++ r)) /\
    (forall ws p q x y w,
       Forall2 (item_reads none_wild) p ws -> Forall2 (item_reads none_wild) q ws ->
       item_reads none_wild x w -> item_reads none_wild y w ->
       (exists r, denotes (v_expr v) (p ++ x :: r)) -> (exists r, denotes (v_expr v) (q ++ y :: r)) ->
       forall r, denotes (v_expr v) (p ++ x :: r) <-> denotes (v_expr v) (q ++ y :: r)).
Print Assumptions C09_unambiguous_compiled.

(** Compilation of the [|] variant need NOT succeed when that of the [||] grammar does, nor the
    other way round: the description-conflict check of [check_ambiguity_best_effort] sees the
    different distribution of a trailing description ([||] moves it to the first literal, [|]
    copies it into every branch).  Witnesses (same verdicts from the Rust binary):
    [cmd ((x || b) "d" | b);] compiles, its [|] variant is rejected (b "d" against b "");
    [cmd (a || a) "d";] is rejected (a "d" against a ""), its [|] variant compiles. *)
Definition verdict (x : dres cdfa) : string :=
  match x with
  | Ok _ => "ok"
  | Err (DAmb (ConflictingDescriptions _ l a b)) => append "conflicting descriptions " (append l (append "/" (append a (append "/" b))))
  | Err _ => "other error"
  | Panic _ => "panic"
  | OutOfFuel => "fuel"
  end.

Definition compile_c (text : string) : dres cdfa :=
  match compile pick_first 60 builtins text Bash with
  | Ok vc => Ok (snd vc) | Err e => Err e | Panic s => Panic s | OutOfFuel => OutOfFuel
  end.

Example ex_C09b_bar_asymmetry :
  verdict (compile_c "cmd ((x || b) ""d"" | b);") = "ok"
  /\ verdict (compile_bar pick_first 60 builtins "cmd ((x || b) ""d"" | b);" Bash) = "conflicting descriptions b/d/"
  /\ verdict (compile_c "cmd (a || a) ""d"";") = "conflicting descriptions a/d/"
  /\ verdict (compile_bar pick_first 60 builtins "cmd (a || a) ""d"";" Bash) = "ok".
Proof. vm_compute. repeat split; reflexivity. Qed.
Print Assumptions ex_C09b_bar_asymmetry.

(** Non-vacuity of the transparency theorem: a grammar with [||], a composite word and a
    description whose [|] variant compiles too; neither automaton is in the known class. *)
Example ex_C09b_inhabited :
  verdict (compile_c "cmd (--k=(x || y) | a ""d"") [b];") = "ok"
  /\ verdict (compile_bar pick_first 60 builtins "cmd (--k=(x || y) | a ""d"") [b];" Bash) = "ok"
  /\ match compile_c "cmd (--k=(x || y) | a ""d"") [b];",
           compile_bar pick_first 60 builtins "cmd (--k=(x || y) | a ""d"") [b];" Bash with
     | Ok c, Ok c' => known_C09 c = false /\ known_C09 c' = false
     | _, _ => False
     end.
Proof. vm_compute. repeat split; reflexivity. Qed.
Print Assumptions ex_C09b_inhabited.
