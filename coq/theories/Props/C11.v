(** C11 -- the definition chosen for a nonterminal is the one for the target shell.
    Statements only; proofs live in Proofs/CheckChoice.v. *)
From CG Require Import Base.Prelude Model.Ast Model.Check Spec.Choice Proofs.CheckChoice.
From CGgen Require Import Consts.

(** For every grammar whose definitions the checker accepts, every target shell and every
    reference [<x>] (wherever it occurs), the node the model of check.rs puts in its place means
    exactly what the specification prescribes. *)
Theorem C11_choice :
  forall (builtins : shell -> list (string * string)) g sh us fs defs x l sp,
    get_specializations g sh = Ok (us, fs) ->
    collect_plain_defs (all_defs g) [] = Ok defs ->
    meaning (plain_definition g)
            (specialize_ref sh us (builtins sh) fs (map d_name defs) x l sp)
    = Choice.spec builtins g sh x.
Proof. exact choice_correct. Qed.
Check C11_choice :
  forall (builtins : shell -> list (string * string)) g sh us fs defs x l sp,
    get_specializations g sh = Ok (us, fs) ->
    collect_plain_defs (all_defs g) [] = Ok defs ->
    meaning (plain_definition g)
            (specialize_ref sh us (builtins sh) fs (map d_name defs) x l sp)
    = Choice.spec builtins g sh x.
Print Assumptions C11_choice.

Theorem C11_other_shells_ignored :
  forall builtins g sh x n nsp shn shsp rhs,
    is_shell shn sh = false ->
    Choice.spec builtins (NontermDef n nsp (Some (shn, shsp)) rhs :: g) sh x
    = Choice.spec builtins g sh x.
Proof. exact spec_ignores_other_shells. Qed.
Check C11_other_shells_ignored :
  forall builtins g sh x n nsp shn shsp rhs,
    is_shell shn sh = false ->
    Choice.spec builtins (NontermDef n nsp (Some (shn, shsp)) rhs :: g) sh x
    = Choice.spec builtins g sh x.
Print Assumptions C11_other_shells_ignored.

(** Non-vacuity: a grammar with a plain and two shell-specific definitions of PATH is accepted,
    and the three targets get three different meanings (with the regenerated built-in table). *)
Definition ex_sp := mkspan 1 1 2.
Definition ex_g : grammar :=
  [ CallVariant "cmd" ex_sp (NontermRef "PATH" 0 ex_sp);
    NontermDef "PATH" ex_sp None (Command "plain" false 0 ex_sp);
    NontermDef "PATH" ex_sp (Some ("zsh", ex_sp)) (Command "forzsh" false 0 ex_sp);
    NontermDef "DIRECTORY" ex_sp (Some ("fish", ex_sp)) (Command "forfish" false 0 ex_sp) ].

Example ex_C11_inhabited :
  is_ok (get_specializations ex_g Zsh) = true
  /\ is_ok (collect_plain_defs (all_defs ex_g) []) = true
  /\ Choice.spec builtins ex_g Zsh "PATH" = ChCommand "forzsh"
  /\ Choice.spec builtins ex_g Bash "PATH" = ChPlain (Command "plain" false 0 ex_sp)
  /\ Choice.spec builtins ex_g Fish "DIRECTORY" = ChCommand "forfish"
  /\ (exists c, Choice.spec builtins ex_g Bash "DIRECTORY" = ChCommand c)
  /\ Choice.spec builtins ex_g Bash "FOO" = ChAny.
Proof. vm_compute. repeat split; try reflexivity. eexists; reflexivity. Qed.
Print Assumptions ex_C11_inhabited.
