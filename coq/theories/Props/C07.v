(** C07 -- text taken from the grammar reaches the shell verbatim and inert.
    Statements only; proofs live in Proofs/QuoteRT.v.
    [make_string_constant sh] is the model of the four emitters' quoting functions (delimiters and
    replace chains regenerated from the source on every run); [ShellDQ.read sh] is the shells'
    documented double-quote reading rule. *)
From CG Require Import Base.Prelude Model.Ast Model.Quote Spec.ShellDQ Proofs.QuoteRT Proofs.QuotePwsh.
From CGgen Require Import Consts.

(** For every shell, every string outside that shell's hazard class (ShellDQ.hazard: empty for
    bash, fish and zsh) and every continuation of the script, the constant reads back as exactly the
    original string and the reader stops right after it: nothing is expanded (the reader would
    return None), nothing is cut, nothing of the rest is swallowed. *)
Theorem C07_quote_roundtrip :
  forall sh s rest, admissible sh s -> safe sh rest = true ->
    read sh (append (make_string_constant sh s) rest) = Some (s, rest).
Proof. exact quote_roundtrip. Qed.
Check C07_quote_roundtrip :
  forall sh s rest, admissible sh s -> safe sh rest = true ->
    read sh (append (make_string_constant sh s) rest) = Some (s, rest).
Print Assumptions C07_quote_roundtrip.

(** The same for ANY replace chain and delimiters that pass the closed 256 x 257 table check: a
    change of the constants in the source either keeps [table_ok] true or breaks that one
    computation. *)
Theorem C07_quote_roundtrip_generic :
  forall sh, table_ok sh = true ->
  forall s rest, admissible sh s -> safe sh rest = true ->
    read sh (append (make_string_constant sh s) rest) = Some (s, rest).
Proof. exact quote_roundtrip_generic. Qed.
Check C07_quote_roundtrip_generic :
  forall sh, table_ok sh = true ->
  forall s rest, admissible sh s -> safe sh rest = true ->
    read sh (append (make_string_constant sh s) rest) = Some (s, rest).
Print Assumptions C07_quote_roundtrip_generic.

Theorem C07_table_ok : forall sh, table_ok sh = true.
Proof. exact table_ok_all. Qed.
Check C07_table_ok : forall sh, table_ok sh = true.
Print Assumptions C07_table_ok.

(** fish and zsh: all strings (any bytes). *)
Theorem C07_fish_total :
  forall s rest, read Fish (append (make_string_constant Fish s) rest) = Some (s, rest).
Proof. intros. apply quote_roundtrip; [apply admissible_fish | reflexivity]. Qed.
Check C07_fish_total :
  forall s rest, read Fish (append (make_string_constant Fish s) rest) = Some (s, rest).
Print Assumptions C07_fish_total.

Theorem C07_zsh_total :
  forall s rest, read Zsh (append (make_string_constant Zsh s) rest) = Some (s, rest).
Proof. intros. apply quote_roundtrip; [apply admissible_zsh | reflexivity]. Qed.
Check C07_zsh_total :
  forall s rest, read Zsh (append (make_string_constant Zsh s) rest) = Some (s, rest).
Print Assumptions C07_zsh_total.

(** bash: all strings (any bytes), since the backslash is escaped (fix 90236c3). *)
Theorem C07_bash_total :
  forall s rest, read Bash (append (make_string_constant Bash s) rest) = Some (s, rest).
Proof. intros. apply quote_roundtrip; [apply admissible_bash | reflexivity]. Qed.
Check C07_bash_total :
  forall s rest, read Bash (append (make_string_constant Bash s) rest) = Some (s, rest).
Print Assumptions C07_bash_total.

(** Regression (formerly C07_refuted_bash_backslash): the four faces of the old defect -- trailing
    backslash, backslash before dollar, two backslashes, backslash before a double quote -- read back. *)
Example ex_C07_bash_backslash_regression :
  map (fun s => read Bash (append (make_string_constant Bash s) ")")) ["a\"; "\$x"; "\\"; "\""x"]
  = [Some ("a\", ")"); Some ("\$x", ")"); Some ("\\", ")"); Some ("\""x", ")")].
Proof. vm_compute. reflexivity. Qed.
Print Assumptions ex_C07_bash_backslash_regression.

(** pwsh: every string that contains no smart double quote (U+201C, U+201D, U+201E as UTF-8) -- the
    exact class of the known finding below, tighter than the pairwise [admissible Pwsh]. *)
Theorem C07_pwsh_exact :
  forall s rest, smart_free s = true -> safe Pwsh rest = true ->
    read Pwsh (append (make_string_constant Pwsh s) rest) = Some (s, rest).
Proof. exact pwsh_roundtrip_exact. Qed.
Check C07_pwsh_exact :
  forall s rest, smart_free s = true -> safe Pwsh rest = true ->
    read Pwsh (append (make_string_constant Pwsh s) rest) = Some (s, rest).
Print Assumptions C07_pwsh_exact.

(** KNOWN FINDING (pwsh.rs does not escape U+201C/U+201D/U+201E, which PowerShell's tokenizer
    treats as double quotes): the description [a(U+201D)b] is cut after [a]. *)
Definition smart_quote_201D : string :=
  String (ch 226) (String (ch 128) (String (ch 157) EmptyString)).
Theorem C07_refuted_pwsh_smart_quote :
  read Pwsh (append (make_string_constant Pwsh (append "a" (append smart_quote_201D "b"))) ";")
  = Some ("a", "b"";").
Proof. vm_compute. reflexivity. Qed.
Check C07_refuted_pwsh_smart_quote :
  read Pwsh (append (make_string_constant Pwsh (append "a" (append smart_quote_201D "b"))) ";")
  = Some ("a", "b"";").
Print Assumptions C07_refuted_pwsh_smart_quote.

(** What closes the pwsh finding: if pwsh.rs appended to its chain one replacement [q -> backtick q] for
    each of U+201C, U+201D, U+201E ([patched_chain] = the regenerated chain ++ these three, three-byte
    UTF-8 patterns), EVERY string would read back.  The chain is then no longer characterwise on bytes;
    the proof (Proofs/QuotePwsh.v) shows that each such pass inserts a backtick before every occurrence,
    that on top of the bytewise image of the existing chain the three passes escape exactly the smart
    quotes of the original string, and that PowerShell reads backtick + E2 as E2. *)
Theorem C07_pwsh_total_if_patched :
  forall s rest, safe Pwsh rest = true ->
    read Pwsh (append (append dq_string (append (apply_chain patched_chain s) dq_string)) rest) = Some (s, rest).
Proof. exact pwsh_patched_total. Qed.
Check C07_pwsh_total_if_patched :
  forall s rest, safe Pwsh rest = true ->
    read Pwsh (append (append dq_string (append (apply_chain patched_chain s) dq_string)) rest) = Some (s, rest).
Print Assumptions C07_pwsh_total_if_patched.

Example ex_C07_pwsh_patched :
  read Pwsh (append (append dq_string (append (apply_chain patched_chain (append "a" (append smart_quote_201D "$b"))) dq_string)) ";")
  = Some (append "a" (append smart_quote_201D "$b"), ";").
Proof. vm_compute. reflexivity. Qed.
Print Assumptions ex_C07_pwsh_patched.

(** Non-vacuity: a literal with every character the property text lists (quotes, dollar,
    backtick, bang, star, question mark, tilde, hash, ampersand, brackets, braces, and a backslash
    in a harmless position) is admissible for all four shells and reads back. *)
Definition ex_literal : string := "a""'$x`!*?~#&[]{}\z()<>|;.".
Example ex_C07_inhabited :
  forallb (fun sh => admissibleb sh ex_literal) [Bash; Fish; Zsh; Pwsh] = true
  /\ map (fun sh => read sh (append (make_string_constant sh ex_literal) " ")) [Bash; Fish; Zsh; Pwsh]
     = [Some (ex_literal, " "); Some (ex_literal, " "); Some (ex_literal, " "); Some (ex_literal, " ")]
  /\ make_string_constant Zsh "a\$" = """a\\\$""".
Proof. vm_compute. repeat split. Qed.
Print Assumptions ex_C07_inhabited.
