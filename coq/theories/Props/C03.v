(** C03 -- minimisation preserves the language and yields the trim minimal automaton.
    Statements only; proofs live in Proofs/ (HopcroftAbs, HopcroftSim, HopcroftLoop,
    MinimizePostGen, MinimizeCorrect, DfaEquivProofs, MinimizeHyps). *)
From CG Require Import Base.Prelude Model.Dfa Model.Minimize Spec.DfaEquiv Spec.MinimizeSpec.
From CG Require Import Proofs.HopcroftAbs Proofs.HopcroftSim Proofs.MinimizeImage.
From CG Require Import Proofs.HopcroftOrder.
From CG Require Proofs.DfaEquivProofs Proofs.HopcroftLoop Proofs.MinimizeCorrect Proofs.MinimizeHyps Proofs.MinimizeTotal.

(** The faithful model of [do_minimize] (Hopcroft with the dead state 0, the [find_bounds]
    window over the target-sorted transition image, the intern pool, the work-list rule, block
    minima as representatives, the three post-passes, renumbering in first-occurrence order,
    [hashmap_transitions_from_vec]): on every well-formed trim automaton -- what
    [dfa_from_regex] produces -- whatever it returns accepts exactly the same words, has only
    reachable and co-reachable states, no two states with the same residual language, and no
    automaton of the same language has fewer states. *)
Theorem C03_minimise :
  forall d m, wf d -> trim d -> minimize d = Ok m ->
    (forall w, accepts m w = accepts d w)
    /\ trim m /\ pairwise_distinguishable m /\ minimal_size m.
Proof. exact MinimizeCorrect.minimize_correct. Qed.
Check C03_minimise :
  forall d m, wf d -> trim d -> minimize d = Ok m ->
    (forall w, accepts m w = accepts d w)
    /\ trim m /\ pairwise_distinguishable m /\ minimal_size m.
Print Assumptions C03_minimise.

(** Total correctness: on such automata the model neither panics (no [unwrap] of the Rust code
    can fail) nor runs out of its fuel, which is linear in the number of states
    ([minimize_fuel d = 2 |states| + 2 |accepting| + 8] pops of the work-list). *)
Theorem C03_total :
  forall d, wf d -> trim d ->
    exists m, minimize d = Ok m
      /\ (forall w, accepts m w = accepts d w)
      /\ trim m /\ pairwise_distinguishable m /\ minimal_size m.
Proof.
  intros d W T. destruct (MinimizeTotal.minimize_total d W T) as [m Hm].
  exists m. split; [exact Hm|]. exact (MinimizeCorrect.minimize_correct d m W T Hm).
Qed.
Check C03_total :
  forall d, wf d -> trim d ->
    exists m, minimize d = Ok m
      /\ (forall w, accepts m w = accepts d w)
      /\ trim m /\ pairwise_distinguishable m /\ minimal_size m.
Print Assumptions C03_total.

(** The same with the hypotheses in the executable form the check evaluates on every raw
    automaton Rust produces. *)
Theorem C03_minimise_checked :
  forall d m, wfb d = true -> trim_dec d = true -> minimize d = Ok m ->
    (forall w, accepts m w = accepts d w)
    /\ trim m /\ pairwise_distinguishable m /\ minimal_size m.
Proof.
  intros d m H1 H2. apply MinimizeCorrect.minimize_correct.
  - apply MinimizeHyps.wfb_sound. exact H1.
  - apply DfaEquivProofs.trim_dec_sound. exact H2.
Qed.
Check C03_minimise_checked :
  forall d m, wfb d = true -> trim_dec d = true -> minimize d = Ok m ->
    (forall w, accepts m w = accepts d w)
    /\ trim m /\ pairwise_distinguishable m /\ minimal_size m.
Print Assumptions C03_minimise_checked.

(** The partition the Hopcroft loop of the model ends with is the Nerode partition of the
    completed automaton: states of one group accept the same continuations, states of different
    groups are told apart by some word.  This characterisation does not mention the order in
    which the work-list, the partition or the per-input preimages are iterated (hash orders in
    the Rust code): every order allowed by the abstract steps of Proofs/HopcroftAbs.v reaches
    it. *)
Theorem C03_partition :
  forall d fuel h, wf d -> all_coreachable d ->
    hopcroft_loop fuel (make_transitions_image d) (initial_partition d) = Ok h ->
    (forall x y, sameb (abs h) x y -> forall w, accepts_from d x w = accepts_from d y w)
    /\ (forall x y, In x (universe d) -> In y (universe d) -> ~ sameb (abs h) x y ->
                    exists w, accepts_from d x w <> accepts_from d y w).
Proof.
  intros d fuel h W C H. destruct (HopcroftLoop.hopcroft_loop_correct d W C fuel h H) as [_ R]. exact R.
Qed.
Check C03_partition :
  forall d fuel h, wf d -> all_coreachable d ->
    hopcroft_loop fuel (make_transitions_image d) (initial_partition d) = Ok h ->
    (forall x y, sameb (abs h) x y -> forall w, accepts_from d x w = accepts_from d y w)
    /\ (forall x y, In x (universe d) -> In y (universe d) -> ~ sameb (abs h) x y ->
                    exists w, accepts_from d x w <> accepts_from d y w).
Print Assumptions C03_partition.

(** Independence of the hash-iteration orders.  [run_any] is the refinement loop in which every
    choice the Rust code leaves to a hash table is free: which element of the work-list is popped
    ([worklist.iter().next()]), in which order the per-input preimages are used
    ([transitions_to_group.values()]) and in which order the overlapping groups are split
    ([partitions.iter()]).  Any two complete runs from the initial partition end in the same
    partition of the states, and the loop of the model is one of these runs; everything after
    the loop depends on the partition only (representative = minimum of the group). *)
Theorem C03_order_independent :
  forall d A1 A2, wf d -> all_coreachable d ->
    run_any (make_transitions_image d) (HopcroftLoop.A0 d) A1 ->
    run_any (make_transitions_image d) (HopcroftLoop.A0 d) A2 ->
    forall x y, In x (universe d) -> In y (universe d) -> (sameb A1 x y <-> sameb A2 x y).
Proof. intros d A1 A2 W C. exact (any_order_unique d W C A1 A2). Qed.
Check C03_order_independent :
  forall d A1 A2, wf d -> all_coreachable d ->
    run_any (make_transitions_image d) (HopcroftLoop.A0 d) A1 ->
    run_any (make_transitions_image d) (HopcroftLoop.A0 d) A2 ->
    forall x y, In x (universe d) -> In y (universe d) -> (sameb A1 x y <-> sameb A2 x y).
Print Assumptions C03_order_independent.

Theorem C03_model_is_a_run :
  forall d fuel h, wf d ->
    hopcroft_loop fuel (make_transitions_image d) (initial_partition d) = Ok h ->
    run_any (make_transitions_image d) (HopcroftLoop.A0 d) (abs h).
Proof.
  intros d fuel h W H. rewrite <- (HopcroftLoop.abs_initial d W).
  apply (model_run_any d fuel (initial_partition d) h (HopcroftLoop.initial_Good d W) H).
Qed.
Check C03_model_is_a_run :
  forall d fuel h, wf d ->
    hopcroft_loop fuel (make_transitions_image d) (initial_partition d) = Ok h ->
    run_any (make_transitions_image d) (HopcroftLoop.A0 d) (abs h).
Print Assumptions C03_model_is_a_run.

(** The verified validator: sound and complete.  It is run (extracted) on Rust's own (raw,
    minimised) pairs on every check: that is the direct judgement of the implementation. *)
Theorem C03_validator_sound :
  forall d m, validate d m = true ->
    (forall w, accepts m w = accepts d w)
    /\ trim m /\ pairwise_distinguishable m /\ minimal_size m.
Proof. exact DfaEquivProofs.validate_sound. Qed.
Check C03_validator_sound :
  forall d m, validate d m = true ->
    (forall w, accepts m w = accepts d w)
    /\ trim m /\ pairwise_distinguishable m /\ minimal_size m.
Print Assumptions C03_validator_sound.

Theorem C03_validator_complete :
  forall d m, (forall w, accepts m w = accepts d w) -> trim m -> pairwise_distinguishable m ->
    validate d m = true.
Proof. exact DfaEquivProofs.validate_complete. Qed.
Check C03_validator_complete :
  forall d m, (forall w, accepts m w = accepts d w) -> trim m -> pairwise_distinguishable m ->
    validate d m = true.
Print Assumptions C03_validator_complete.

Theorem C03_validated :
  forall d m, minimize d = Ok m -> validate d m = true ->
    (forall w, accepts m w = accepts d w)
    /\ trim m /\ pairwise_distinguishable m /\ minimal_size m.
Proof. intros d m _. apply DfaEquivProofs.validate_sound. Qed.
Check C03_validated :
  forall d m, minimize d = Ok m -> validate d m = true ->
    (forall w, accepts m w = accepts d w)
    /\ trim m /\ pairwise_distinguishable m /\ minimal_size m.
Print Assumptions C03_validated.

(** When the validator says no, the word it returns is accepted by exactly one of the two. *)
Theorem C03_counterexample :
  forall d m w, equiv_dec d m = EqNo w -> accepts d w <> accepts m w.
Proof. exact DfaEquivProofs.equiv_dec_no. Qed.
Check C03_counterexample :
  forall d m w, equiv_dec d m = EqNo w -> accepts d w <> accepts m w.
Print Assumptions C03_counterexample.

(** Non-vacuity: the raw automaton of [cmd [((b | a | b))... (b | a a) b];] (the witness of the
    repaired [break] defect) satisfies the hypotheses, the model minimises it to the automaton
    Rust returns, and the validator accepts the pair. *)
Definition ex_raw : dfa :=
  mkdfa 1 [(1, [(0, 2); (1, 2)]); (2, [(0, 3); (1, 4)]); (3, [(0, 5); (1, 4)]);
           (4, [(0, 3); (1, 6)]); (6, [(0, 5); (1, 6)]); (5, [(0, 5); (1, 4)])]
        [1; 5] [ILit "b" None 0; ILit "a" None 0].
Definition ex_min : dfa :=
  mkdfa 0 [(0, [(0, 1); (1, 1)]); (1, [(0, 2); (1, 3)]); (2, [(0, 4); (1, 3)]);
           (3, [(0, 2); (1, 5)]); (5, [(0, 4); (1, 5)]); (4, [(0, 4); (1, 3)])]
        [0; 4] [ILit "b" None 0; ILit "a" None 0].
(** [cmd [a | a a]...;]: every state accepting (the witness of the repaired early return). *)
Definition ex_raw2 : dfa :=
  mkdfa 1 [(1, [(0, 2)]); (2, [(0, 2)])] [1; 2] [ILit "a" None 0].
Definition ex_min2 : dfa := mkdfa 0 [(0, [(0, 0)])] [0] [ILit "a" None 0].

Example ex_C03_inhabited :
  wfb ex_raw = true /\ trim_dec ex_raw = true /\ minimize ex_raw = Ok ex_min /\ validate ex_raw ex_min = true
  /\ wfb ex_raw2 = true /\ trim_dec ex_raw2 = true /\ minimize ex_raw2 = Ok ex_min2
  /\ validate ex_raw2 ex_min2 = true /\ validate ex_raw2 ex_raw2 = false.
Proof. vm_compute. repeat split; reflexivity. Qed.
Print Assumptions ex_C03_inhabited.
