(** C06 -- totality of the WHOLE model pipeline (statements only; proof: Proofs/PipelineTotal.v, a
    composition of the stage theorems parse_total / parse_alts_nonempty (C05b), C06_checker_total,
    C02_compile_valid_total (which uses C03_total through C03_wf_from_regex)).

    [Driver.compile] is the Gallina counterpart of main.rs::aot up to the minimised automaton:
    text -> parse -> check -> regex -> (every within-word automaton compiled, minimised, checked and
    interned) -> subset construction -> minimise -> ambiguity check.  For EVERY input text, shell and
    work-list order it returns a result or an error value: it never reaches a panic site (no
    [unwrap], index or [unreachable!] of the modelled code can fail) and no fuel-bounded loop runs out
    of fuel, provided the one fuel that is a parameter (subset construction, exponential bound)
    covers the regexes of the text. *)
From CG Require Import Base.Prelude Model.Ast Model.Parser Model.Check Model.Regex Model.Driver.
From CG Require Import Proofs.DriverCorrect Proofs.PipelineTotal.
From CGgen Require Import Consts.

Theorem C06_pipeline_total :
  forall pick fuel builtins text sh,
    fuel_covers fuel builtins text sh ->
    (exists vc, compile pick fuel builtins text sh = Ok vc) \/
    (exists e, compile pick fuel builtins text sh = Err e).
Proof. exact compile_total. Qed.
Check C06_pipeline_total :
  forall pick fuel builtins text sh,
    fuel_covers fuel builtins text sh ->
    (exists vc, compile pick fuel builtins text sh = Ok vc) \/
    (exists e, compile pick fuel builtins text sh = Err e).
Print Assumptions C06_pipeline_total.

Theorem C06_pipeline_error_kinds :
  forall pick fuel builtins text sh e,
    fuel_covers fuel builtins text sh ->
    compile pick fuel builtins text sh = Err e ->
    (exists sp, e = DParse sp) \/ (exists ce, e = DCheck ce) \/
    (exists a b, e = DRegex (UnboundedMatchable a b)) \/ (exists ae, e = DAmb ae).
Proof. exact compile_error_kinds. Qed.
Check C06_pipeline_error_kinds :
  forall pick fuel builtins text sh e,
    fuel_covers fuel builtins text sh ->
    compile pick fuel builtins text sh = Err e ->
    (exists sp, e = DParse sp) \/ (exists ce, e = DCheck ce) \/
    (exists a b, e = DRegex (UnboundedMatchable a b)) \/ (exists ae, e = DAmb ae).
Print Assumptions C06_pipeline_error_kinds.

(** Non-vacuity: the pipeline compiles a text with a definition, a sub-word, an option, a repetition,
    a fallback and a command, and rejects a cyclic one with a checker error. *)
Example ex_C06b_inhabited :
  is_ok (compile Subset.pick_first 4096 builtins
           "cmd (a ""d"" | --o=(x|y) <F>) [b]...; <F> ::= c || {{{ echo hi }}};" Bash) = true
  /\ (exists e, compile Subset.pick_first 4096 builtins "cmd <A>; <A> ::= <A>;" Zsh = Err (DCheck e)).
Proof. split; [vm_compute; reflexivity|]. eexists. vm_compute. reflexivity. Qed.
Print Assumptions ex_C06b_inhabited.
