(** C06 for the COMMAND (statements only; proofs: Proofs/MainRun.v, Proofs/MainProps.v).

    [Model/Main.v] [run builtins o version a input] is the observable behaviour of the complgen
    command (main.rs: [main], [aot], [handle_error], [get_file_or_stdin], [get_file_or_stdout]) as
    ONE Gallina function: from the parsed command line [a], the content of the usage file
    ([None]: it cannot be read -- missing, or not UTF-8) and the oracles of [Model/Compiler.v], to the
    trace of effects in program order ([Stdout] / [Stderr] message / [Write] destination kind /
    [Exit] code).  It is tied to the real binary by lib/vf/checks/maintie.py (exit status, stdout,
    stderr messages, every file of the working directory afterwards, over a matrix of command lines
    x inputs).

    For EVERY command line, input and oracles (with the usual hypothesis that the one fuel which is
    a parameter covers the regexes of the text, [covers]):

    - [C06_main_total]: the run is a trace that ends with its only [Exit], with code 0 or 1 --
      never [Panic], never [OutOfFuel]; the one other outcome is [Err BadOracle] (bash only: the
      literal orders / shape grouping supplied as oracles fail their validation -- an artefact of
      the model's parameters, not a behaviour of the program);
    - [C06_main_exit1]: code 1 -> the last effect before [Exit] is a diagnostic on stderr, the trace
      has NO script write at all, and the only files written are the [--regex] / [--dfa] ones;
    - [C06_main_exit1_destination_untouched]: so nothing is written to the script destination,
      PROVIDED neither [--regex] nor [--dfa] names that destination.  Without the proviso the
      statement is false of the model and of the binary (KNOWN FINDING
      debug_output_aliases_script_destination: [complgen --bash X --regex X] on a grammar rejected by
      [from_regex_raw] or by the final ambiguity check overwrites X with Graphviz text and exits 1;
      [ex_C06c_alias] below is that run);
    - [C06_main_exit0]: code 0 (not [--version]) -> exactly one script write, after everything but
      the zsh file-name warning, to the destination of the one shell option, no diagnostic at all,
      and its content is what [Driver.compile] + the emitter give ([Compiler.compile_bash] for bash);
    - [C08_main_verdict]: the verdict of [Driver.compile] is the verdict of the command (error ->
      exit 1 and the diagnostics printed are exactly the rendered [Diag.error_messages] of that error,
      resp. the unlocated message of [MissingCallVariants] / the ambiguity report; success -> exit 0). *)
From CG Require Import Base.Prelude Model.Ast Model.Parser Model.Check Model.Regex Model.Dfa Model.Driver.
From CG Require Import Model.Diag Model.Compiler Model.Main.
From CG Require Import Proofs.PipelineTotal Proofs.MainRun Proofs.MainProps.
From CGgen Require Import Consts.
Open Scope list_scope.

Theorem C06_main_total :
  forall builtins o version a input,
    covers builtins o a input ->
    (exists pre code, run builtins o version a input = Ok (pre ++ [Exit code]) /\ (code = 0 \/ code = 1)%N
                      /\ filter is_exit pre = [])
    \/ (run builtins o version a input = Err BadOracle /\ exists path, select_shell a = Some (Bash, path)).
Proof. exact main_total. Qed.
Check C06_main_total :
  forall builtins o version a input,
    covers builtins o a input ->
    (exists pre code, run builtins o version a input = Ok (pre ++ [Exit code]) /\ (code = 0 \/ code = 1)%N
                      /\ filter is_exit pre = [])
    \/ (run builtins o version a input = Err BadOracle /\ exists path, select_shell a = Some (Bash, path)).
Print Assumptions C06_main_total.

Theorem C06_main_exit1 :
  forall builtins o version a input t,
    covers builtins o a input ->
    run builtins o version a input = Ok t -> exit_code t = Some 1%N ->
    filter is_script_write t = []
    /\ (exists pre m, t = pre ++ [Stderr m; Exit 1] /\ is_diag (Stderr m) = true)
    /\ (forall d k, In (Write d k) t ->
          (k = KRegexDot /\ exists p, a_regex a = Some p /\ d = dest_of p)
          \/ (k = KDfaDot /\ exists p, a_dfa a = Some p /\ d = dest_of p)).
Proof. exact main_exit1. Qed.
Check C06_main_exit1 :
  forall builtins o version a input t,
    covers builtins o a input ->
    run builtins o version a input = Ok t -> exit_code t = Some 1%N ->
    filter is_script_write t = []
    /\ (exists pre m, t = pre ++ [Stderr m; Exit 1] /\ is_diag (Stderr m) = true)
    /\ (forall d k, In (Write d k) t ->
          (k = KRegexDot /\ exists p, a_regex a = Some p /\ d = dest_of p)
          \/ (k = KDfaDot /\ exists p, a_dfa a = Some p /\ d = dest_of p)).
Print Assumptions C06_main_exit1.

Theorem C06_main_exit1_destination_untouched :
  forall builtins o version a input t sh path,
    covers builtins o a input ->
    run builtins o version a input = Ok t -> exit_code t = Some 1%N ->
    select_shell a = Some (sh, path) ->
    (forall p, a_regex a = Some p -> dest_of p <> dest_of path) ->
    (forall p, a_dfa a = Some p -> dest_of p <> dest_of path) ->
    forall k, ~ In (Write (dest_of path) k) t.
Proof. exact main_exit1_destination_untouched. Qed.
Check C06_main_exit1_destination_untouched :
  forall builtins o version a input t sh path,
    covers builtins o a input ->
    run builtins o version a input = Ok t -> exit_code t = Some 1%N ->
    select_shell a = Some (sh, path) ->
    (forall p, a_regex a = Some p -> dest_of p <> dest_of path) ->
    (forall p, a_dfa a = Some p -> dest_of p <> dest_of path) ->
    forall k, ~ In (Write (dest_of path) k) t.
Print Assumptions C06_main_exit1_destination_untouched.

Theorem C06_main_exit0 :
  forall builtins o version a input t,
    covers builtins o a input ->
    run builtins o version a input = Ok t -> exit_code t = Some 0%N -> a_version a = false ->
    exists text sh path v c k pre,
      input = Some text /\ select_shell a = Some (sh, path)
      /\ compile (pick_table (o_pops o)) (o_fuel o) builtins text sh = Ok (v, c)
      /\ t = pre ++ [Write (dest_of path) (KScript k)] ++ zsh_warning sh path (v_command v) ++ [Exit 0]
      /\ filter is_script_write pre = [] /\ filter is_diag t = []
      /\ match sh with
         | Bash => exists s, k = CBash s /\ compile_bash o builtins text = Ok s
         | _ => k = COpaque sh v c
         end.
Proof. exact main_exit0. Qed.
Check C06_main_exit0 :
  forall builtins o version a input t,
    covers builtins o a input ->
    run builtins o version a input = Ok t -> exit_code t = Some 0%N -> a_version a = false ->
    exists text sh path v c k pre,
      input = Some text /\ select_shell a = Some (sh, path)
      /\ compile (pick_table (o_pops o)) (o_fuel o) builtins text sh = Ok (v, c)
      /\ t = pre ++ [Write (dest_of path) (KScript k)] ++ zsh_warning sh path (v_command v) ++ [Exit 0]
      /\ filter is_script_write pre = [] /\ filter is_diag t = []
      /\ match sh with
         | Bash => exists s, k = CBash s /\ compile_bash o builtins text = Ok s
         | _ => k = COpaque sh v c
         end.
Print Assumptions C06_main_exit0.

Theorem C06_main_version :
  forall builtins o version a input,
    a_version a = true -> run builtins o version a input = Ok [Stdout version; Exit 0].
Proof. exact main_version. Qed.
Check C06_main_version :
  forall builtins o version a input,
    a_version a = true -> run builtins o version a input = Ok [Stdout version; Exit 0].
Print Assumptions C06_main_version.

Theorem C08_main_verdict :
  forall builtins o version a input upath text sh path,
    covers builtins o a input ->
    a_version a = false -> a_usage a = Some upath -> input = Some text ->
    select_shell a = Some (sh, path) ->
    match compile (pick_table (o_pops o)) (o_fuel o) builtins text sh with
    | Err e => exists t command, run builtins o version a input = Ok t /\ exit_code t = Some 1%N
                                 /\ diag_trace upath text command e (filter is_diag t)
    | Ok (v, c) => (exists t, run builtins o version a input = Ok t /\ exit_code t = Some 0%N)
                   \/ (sh = Bash /\ run builtins o version a input = Err BadOracle)
    | _ => False
    end.
Proof. exact main_verdict. Qed.
Check C08_main_verdict :
  forall builtins o version a input upath text sh path,
    covers builtins o a input ->
    a_version a = false -> a_usage a = Some upath -> input = Some text ->
    select_shell a = Some (sh, path) ->
    match compile (pick_table (o_pops o)) (o_fuel o) builtins text sh with
    | Err e => exists t command, run builtins o version a input = Ok t /\ exit_code t = Some 1%N
                                 /\ diag_trace upath text command e (filter is_diag t)
    | Ok (v, c) => (exists t, run builtins o version a input = Ok t /\ exit_code t = Some 0%N)
                   \/ (sh = Bash /\ run builtins o version a input = Err BadOracle)
    | _ => False
    end.
Print Assumptions C08_main_verdict.

(** Non-vacuity.  (1) a parse error: one located message, exit 1, although no shell option was given
    (main.rs parses before it looks at them); (2) fish, a clean grammar with an undefined nonterminal,
    [--regex] and [--dfa]: the warning, the two Graphviz files, the script, exit 0; (3) the corner of
    [C06_main_exit1_destination_untouched]: [--fish out --regex out] on a grammar whose two
    descriptions of one literal conflict -- the destination receives Graphviz text, then exit 1. *)
Definition ex_o : oracles := mkoracles [] 4096 [] [] [] "sig".
Definition ex_args (fish regex dfa : option string) : cli_args :=
  mkargs false (Some "g.usage") None fish None None regex dfa.

Example ex_C06c_parse_error :
  match run builtins ex_o "1.0" (ex_args None None None) (Some "cmd a |") with
  | Ok [Stderr (SLocated m r); Exit 1%N] => String.eqb (m_label m) "Parse error" && String.eqb (r_header r) "g.usage:1:1:"
  | _ => false
  end = true.
Proof. vm_compute. reflexivity. Qed.
Print Assumptions ex_C06c_parse_error.

Example ex_C06c_success :
  match run builtins ex_o "1.0" (ex_args (Some "out.fish") (Some "r.dot") (Some "d.dot")) (Some "cmd a <U>;") with
  | Ok [Stderr (SLocated m _); Write (ToFile r) KRegexDot; Write (ToFile d) KDfaDot;
        Write (ToFile s) (KScript (COpaque Fish _ _)); Exit 0%N] =>
      m_warning m && String.eqb (m_label m) "Undefined" && String.eqb r "r.dot" && String.eqb d "d.dot"
      && String.eqb s "out.fish"
  | _ => false
  end = true.
Proof. vm_compute. reflexivity. Qed.
Print Assumptions ex_C06c_success.

Example ex_C06c_alias :
  match run builtins ex_o "1.0" (ex_args (Some "out") (Some "out") None) (Some "cmd (a ""d1"" | a ""d2"");") with
  | Ok [Write (ToFile p) KRegexDot; Stderr (SAmbiguity _ c); Exit 1%N] => String.eqb p "out" && String.eqb c "cmd"
  | _ => false
  end = true.
Proof. vm_compute. reflexivity. Qed.
Print Assumptions ex_C06c_alias.
