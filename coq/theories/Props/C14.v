(** C14 -- layout does not change the output (checker part): the checker ignores spans.
    Statements only; proofs in Proofs/CheckSpans.v.

    Everything the layout of a grammar file (whitespace, line breaks, comments) changes in the
    parser's output is the spans.  [ms_grammar f] maps a function over every span of a grammar
    ([ms], [ms_err], [ms_valid] likewise on trees, errors and validated grammars).  No pass of
    the model of [ValidGrammar::from_grammar] inspects a span: the mapping commutes with it. *)
From CG Require Import Base.Prelude Model.Ast Model.Check.
From CG Require Import Proofs.CheckLemmas Proofs.CheckSpans Proofs.CheckOrder.
From Coq Require Import Permutation.
From CGgen Require Import Consts.

Theorem C14_spans_ignored :
  forall (f : span -> span) builtins g sh,
    from_grammar builtins (ms_grammar f g) sh
    = ms_res f (ms_valid f) (from_grammar builtins g sh).
Proof. exact from_grammar_ms. Qed.
Check C14_spans_ignored :
  forall (f : span -> span) builtins g sh,
    from_grammar builtins (ms_grammar f g) sh
    = ms_res f (ms_valid f) (from_grammar builtins g sh).
Print Assumptions C14_spans_ignored.

(** Two grammars equal up to spans are accepted or rejected alike, with the same error class,
    the same command, validated trees equal up to spans and the same names warned about. *)
Theorem C14_layout_check :
  forall builtins g1 g2 sh,
    same_shape g1 g2 ->
    (forall v1, from_grammar builtins g1 sh = Ok v1 ->
                exists v2, from_grammar builtins g2 sh = Ok v2 /\ v_command v1 = v_command v2
                           /\ ms erase (v_expr v1) = ms erase (v_expr v2)
                           /\ map fst (v_undefined v1) = map fst (v_undefined v2)
                           /\ map fst (v_unused v1) = map fst (v_unused v2)
                           /\ map fst (v_unused_specs v1) = map fst (v_unused_specs v2)) /\
    (forall e1, from_grammar builtins g1 sh = Err e1 ->
                exists e2, from_grammar builtins g2 sh = Err e2 /\ ms_err erase e1 = ms_err erase e2).
Proof. exact layout_verdict. Qed.
Check C14_layout_check :
  forall builtins g1 g2 sh,
    same_shape g1 g2 ->
    (forall v1, from_grammar builtins g1 sh = Ok v1 ->
                exists v2, from_grammar builtins g2 sh = Ok v2 /\ v_command v1 = v_command v2
                           /\ ms erase (v_expr v1) = ms erase (v_expr v2)
                           /\ map fst (v_undefined v1) = map fst (v_undefined v2)
                           /\ map fst (v_unused v1) = map fst (v_unused v2)
                           /\ map fst (v_unused_specs v1) = map fst (v_unused_specs v2)) /\
    (forall e1, from_grammar builtins g1 sh = Err e1 ->
                exists e2, from_grammar builtins g2 sh = Err e2 /\ ms_err erase e1 = ms_err erase e2).
Print Assumptions C14_layout_check.

(** The order of the statements does not matter as long as the call variants keep their
    relative order (their order is the order of the alternatives of the root): a permuted
    grammar is accepted alike, with the same command and the same validated expression. *)
Theorem C14_definition_order :
  forall builtins sh g g',
    Permutation g g' -> call_variants g = call_variants g' ->
    forall v, from_grammar builtins g sh = Ok v ->
              exists v', from_grammar builtins g' sh = Ok v' /\ v_command v' = v_command v
                         /\ v_expr v' = v_expr v.
Proof. exact definition_order. Qed.
Check C14_definition_order :
  forall builtins sh g g',
    Permutation g g' -> call_variants g = call_variants g' ->
    forall v, from_grammar builtins g sh = Ok v ->
              exists v', from_grammar builtins g' sh = Ok v' /\ v_command v' = v_command v
                         /\ v_expr v' = v_expr v.
Print Assumptions C14_definition_order.

(** Non-vacuity: the same grammar laid out on one line and on several lines. *)
Definition ex_g1 : grammar :=
  [ CallVariant "cmd" (mkspan 1 1 4)
      (Sequence [NontermRef "A" 0 (mkspan 1 5 8);
                 Subword (Sequence [Terminal "--o=" None 0 (mkspan 1 9 13); NontermRef "U" 0 (mkspan 1 13 16)]
                                   (mkspan 1 9 16)) 0 (mkspan 1 9 16)] (mkspan 1 5 16));
    NontermDef "A" (mkspan 1 18 21) None
      (Fallback [Terminal "x" (Some "d") 0 (mkspan 1 24 25); NontermRef "PATH" 0 (mkspan 1 33 39)] (mkspan 1 24 39)) ].
Definition ex_g2 : grammar :=
  [ CallVariant "cmd" (mkspan 2 3 6)
      (Sequence [NontermRef "A" 0 (mkspan 3 1 4);
                 Subword (Sequence [Terminal "--o=" None 0 (mkspan 4 2 6); NontermRef "U" 0 (mkspan 4 6 9)]
                                   (mkspan 4 2 9)) 0 (mkspan 4 2 9)] (mkspan 3 1 9));
    NontermDef "A" (mkspan 7 1 4) None
      (Fallback [Terminal "x" (Some "d") 0 (mkspan 9 1 2); NontermRef "PATH" 0 (mkspan 11 4 10)] (mkspan 9 1 10)) ].
Definition ex_g3 : grammar :=
  [ NontermDef "B" (mkspan 3 1 2) None (NontermRef "C" 0 (mkspan 3 3 4));
    CallVariant "cmd" (mkspan 1 1 4) (NontermRef "A" 0 (mkspan 1 5 8));
    NontermDef "C" (mkspan 4 1 2) None (Terminal "c" None 0 (mkspan 4 3 4));
    NontermDef "A" (mkspan 2 1 2) None (Optional (NontermRef "B" 0 (mkspan 2 3 4)) (mkspan 2 2 5)) ].
Example ex_C14_order_inhabited :
  Permutation ex_g3 (rev ex_g3) /\ call_variants ex_g3 = call_variants (rev ex_g3)
  /\ rev ex_g3 <> ex_g3 /\ is_ok (from_grammar builtins ex_g3 Fish) = true.
Proof.
  split; [apply Permutation_rev|]. split; [reflexivity|]. split; [intro H; discriminate H|].
  vm_compute. reflexivity.
Qed.
Print Assumptions ex_C14_order_inhabited.

Example ex_C14_inhabited :
  same_shape ex_g1 ex_g2 /\ ex_g1 <> ex_g2
  /\ is_ok (from_grammar builtins ex_g1 Bash) = true
  /\ (exists spans, from_grammar builtins (firstn 1 ex_g1 ++ [NontermDef "A" (mkspan 5 1 2) None (NontermRef "A" 0 (mkspan 5 3 4))])%list Bash
                    = Err (NonterminalDefinitionsCycle spans)).
Proof.
  split; [reflexivity|]. split; [intro H; discriminate H|]. split; [vm_compute; reflexivity|].
  vm_compute. eexists; reflexivity.
Qed.
Print Assumptions ex_C14_inhabited.
