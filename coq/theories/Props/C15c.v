(** C15 for the COMMAND (statements only; proofs: Proofs/MainProps.v), about [Model/Main.v] [run]
    (see Props/C06c.v for what it models and how it is tied to the binary).

    - [C15_main_warnings_exact]: on a grammar that reaches the warning loops (parsed, validated for
      the selected shell, turned into a regex) the warnings on stderr are EXACTLY
      [Diag.warning_messages] of the validated grammar -- each once, in that (sorted) order, first
      in the trace -- and nothing after them is a warning.  ([Props/C15.v] / [Props/C15b.v] say which
      nonterminals the three sets hold.)
    - [C15_main_without_warnings] / [C15_main_warnings_harmless]: [run_with wm] is the command with
      the three loops printing [wm v] instead; for ANY two choices of the warnings the traces minus
      the warnings are equal, in particular the exit status and the script write; the run with no
      warning at all is the same trace minus its leading warnings.  No fuel hypothesis. *)
From CG Require Import Base.Prelude Model.Ast Model.Parser Model.Check Model.Regex Model.Dfa Model.Driver.
From CG Require Import Model.Diag Model.Compiler Model.Main.
From CG Require Import Proofs.PipelineTotal Proofs.MainRun Proofs.MainProps.
From CGgen Require Import Consts.
Open Scope list_scope.

Theorem C15_main_warnings_exact :
  forall builtins o version a input upath text g sh path v rp t,
    covers builtins o a input ->
    a_version a = false -> a_usage a = Some upath -> input = Some text ->
    parse text = Ok g -> select_shell a = Some (sh, path) ->
    from_grammar builtins g sh = Ok v -> from_valid_expr (v_expr v) = Ok rp ->
    run builtins o version a input = Ok t ->
    warnings_of t = warning_messages v
    /\ exists ws rest, t = ws ++ rest /\ Forall2 (rendered_as upath text) (warning_messages v) ws
                       /\ warnings_of rest = [].
Proof. exact main_warnings_exact. Qed.
Check C15_main_warnings_exact :
  forall builtins o version a input upath text g sh path v rp t,
    covers builtins o a input ->
    a_version a = false -> a_usage a = Some upath -> input = Some text ->
    parse text = Ok g -> select_shell a = Some (sh, path) ->
    from_grammar builtins g sh = Ok v -> from_valid_expr (v_expr v) = Ok rp ->
    run builtins o version a input = Ok t ->
    warnings_of t = warning_messages v
    /\ exists ws rest, t = ws ++ rest /\ Forall2 (rendered_as upath text) (warning_messages v) ws
                       /\ warnings_of rest = [].
Print Assumptions C15_main_warnings_exact.

Theorem C15_main_without_warnings :
  forall builtins o version wm a input t,
    all_warnings wm ->
    run_with builtins o version wm a input = Ok t ->
    exists ws rest, t = ws ++ rest
                    /\ Forall (fun e => is_warning e = true) ws
                    /\ run_with builtins o version (fun _ => []) a input = Ok rest.
Proof. exact main_without_warnings. Qed.
Check C15_main_without_warnings :
  forall builtins o version wm a input t,
    all_warnings wm ->
    run_with builtins o version wm a input = Ok t ->
    exists ws rest, t = ws ++ rest
                    /\ Forall (fun e => is_warning e = true) ws
                    /\ run_with builtins o version (fun _ => []) a input = Ok rest.
Print Assumptions C15_main_without_warnings.

Theorem C15_main_warnings_harmless :
  forall builtins o version wm1 wm2 a input t1 t2,
    all_warnings wm1 -> all_warnings wm2 ->
    run_with builtins o version wm1 a input = Ok t1 ->
    run_with builtins o version wm2 a input = Ok t2 ->
    strip_warnings t1 = strip_warnings t2
    /\ filter is_exit t1 = filter is_exit t2
    /\ filter is_script_write t1 = filter is_script_write t2.
Proof. exact main_warnings_harmless. Qed.
Check C15_main_warnings_harmless :
  forall builtins o version wm1 wm2 a input t1 t2,
    all_warnings wm1 -> all_warnings wm2 ->
    run_with builtins o version wm1 a input = Ok t1 ->
    run_with builtins o version wm2 a input = Ok t2 ->
    strip_warnings t1 = strip_warnings t2
    /\ filter is_exit t1 = filter is_exit t2
    /\ filter is_script_write t1 = filter is_script_write t2.
Print Assumptions C15_main_warnings_harmless.

Theorem C15_main_run_is_run_with :
  all_warnings warning_messages /\
  forall builtins o version a input, run builtins o version a input = run_with builtins o version warning_messages a input.
Proof. split; [exact warning_messages_warning|reflexivity]. Qed.
Check C15_main_run_is_run_with :
  all_warnings warning_messages /\
  forall builtins o version a input, run builtins o version a input = run_with builtins o version warning_messages a input.
Print Assumptions C15_main_run_is_run_with.

(** Non-vacuity: fish, `cmd a <U>;` + an unused definition: two warnings (Undefined at 1:7, Unused at
    2:1, in that order), then the script write and exit 0; the trace minus warnings has two effects. *)
Definition ex_o : oracles := mkoracles [] 4096 [] [] [] "sig".
Example ex_C15c_inhabited :
  match run builtins ex_o "1.0" (mkargs false (Some "g.usage") None (Some "out.fish") None None None None)
            (Some (String.append "cmd a <U>;" (String (Ascii.ascii_of_nat 10) "<X> ::= b;"))) with
  | Ok ([Stderr (SLocated m1 r1); Stderr (SLocated m2 r2); Write (ToFile p) (KScript (COpaque Fish _ _)); Exit 0%N] as t) =>
      m_warning m1 && m_warning m2 && String.eqb (m_label m1) "Undefined" && String.eqb (m_label m2) "Unused"
      && String.eqb (r_header r1) "g.usage:1:7:" && String.eqb (r_header r2) "g.usage:2:1:" && String.eqb p "out.fish"
      && Nat.eqb (List.length (warnings_of t)) 2 && Nat.eqb (List.length (strip_warnings t)) 2
  | _ => false
  end = true.
Proof. vm_compute. reflexivity. Qed.
Print Assumptions ex_C15c_inhabited.
