(** C15 for the COMMAND (statements only; proofs: Proofs/MainProps.v), about [Model/Main.v] [run]
    (see Props/C06c.v for what it models and how it is tied to the binary).

    - [C15_main_warnings_exact]: on a grammar that reaches the warning loops (parsed, validated for
      the selected shell, turned into a regex) the warnings on stderr are EXACTLY
      [Diag.warning_messages] of the validated grammar -- each once, in that (sorted) order, first
      in the trace -- and nothing after them is a warning.  ([Props/C15.v] / [Props/C15b.v] say which
      nonterminals the three sets hold.)
    - [C15_main_without_warnings] / [C15_main_warnings_harmless]: [run_with wm] is the command with
      the three loops printing [wm v] instead; for ANY two choices of the warnings the traces minus
      the warnings are equal, in particular the exit status and the script write; the run with no
      warning at all is the same trace minus its leading warnings.  No fuel hypothesis. *)
From CG Require Import Base.Prelude Model.Ast Model.Parser Model.Check Model.Regex Model.Dfa Model.Driver.
From CG Require Import Model.Diag Model.Compiler Model.Main.
From CG Require Import Proofs.PipelineTotal Proofs.MainRun Proofs.MainProps.
From CGgen Require Import Consts.
Open Scope list_scope.

Theorem C15_main_warnings_exact :
  forall builtins o version a input upath text g sh path v rp t,
    covers builtins o a input ->
    a_version a = false -> a_usage a = Some upath -> input = Some text ->
    parse text = Ok g -> select_shell a = Some (sh, path) ->
    from_grammar builtins g sh = Ok v -> from_valid_expr (v_expr v) = Ok rp ->
    run builtins o version a input = Ok t ->
    warnings_of t = warning_messages v
    /\ exists ws rest, t = ws ++ rest /\ Forall2 (rendered_as upath text) (warning_messages v) ws
                       /\ warnings_of rest = [].
Proof. exact main_warnings_exact. Qed.
Check C15_main_warnings_exact :
  forall builtins o version a input upath text g sh path v rp t,
    covers builtins o a input ->
    a_version a = false -> a_usage a = Some upath -> input = Some text ->
    parse text = Ok g -> select_shell a = Some (sh, path) ->
    from_grammar builtins g sh = Ok v -> from_valid_expr (v_expr v) = Ok rp ->
    run builtins o version a input = Ok t ->
    warnings_of t = warning_messages v
    /\ exists ws rest, t = ws ++ rest /\ Forall2 (rendered_as upath text) (warning_messages v) ws
                       /\ warnings_of rest = [].
Print Assumptions C15_main_warnings_exact.

Theorem C15_main_without_warnings :
  forall builtins o version wm a input t,
    all_warnings wm ->
    run_with builtins o version wm a input = Ok t ->
    exists ws rest, t = ws ++ rest
                    /\ Forall (fun e => is_warning e = true) ws
                    /\ run_with builtins o version (fun _ => []) a input = Ok rest.
Proof. exact main_without_warnings. Qed.
Check C15_main_without_warnings :
  forall builtins o version wm a input t,
    all_warnings wm ->
    run_with builtins o version wm a input = Ok t ->
    exists ws rest, t = ws ++ rest
                    /\ Forall (fun e => is_warning e = true) ws
                    /\ run_with builtins o version (fun _ => []) a input = Ok rest.
Print Assumptions C15_main_without_warnings.

Theorem C15_main_warnings_harmless :
  forall builtins o version wm1 wm2 a input t1 t2,
    all_warnings wm1 -> all_warnings wm2 ->
    run_with builtins o version wm1 a input = Ok t1 ->
    run_with builtins o version wm2 a input = Ok t2 ->
    strip_warnings t1 = strip_warnings t2
    /\ filter is_exit t1 = filter is_exit t2
    /\ filter is_script_write t1 = filter is_script_write t2.
Proof. exact main_warnings_harmless. Qed.
Check C15_main_warnings_harmless :
  forall builtins o version wm1 wm2 a input t1 t2,
    all_warnings wm1 -> all_warnings wm2 ->
    run_with builtins o version wm1 a input = Ok t1 ->
    run_with builtins o version wm2 a input = Ok t2 ->
    strip_warnings t1 = strip_warnings t2
    /\ filter is_exit t1 = filter is_exit t2
    /\ filter is_script_write t1 = filter is_script_write t2.
Print Assumptions C15_main_warnings_harmless.

Theorem C15_main_run_is_run_with :
  all_warnings warning_messages /\
  forall builtins o version a input, run builtins o version a input = run_with builtins o version warning_messages a input.
Proof. split; [exact warning_messages_warning|reflexivity]. Qed.
Check C15_main_run_is_run_with :
  all_warnings warning_messages /\
  forall builtins o version a input, run builtins o version a input = run_with builtins o version warning_messages a input.
Print Assumptions C15_main_run_is_run_with.

