(** C09, second half -- "every candidate the [|] grammar offers is also offered by the [||] grammar whenever no
    candidate of an earlier branch extends the typed prefix" -- as theorems at both levels.
    Statements only; proofs in Proofs/C09Mono.v (specification level) and, for the emitted script, by transfer
    through C01 ([Proofs/C01Layers.v: bash_meaning_mixed], the interpreter [BashSem.run_from Repaired] of the script
    of /repo HEAD, tied to real bash by T2).

    [e] is a validated tree before level assignment, [propagate e 0] the [||] grammar, [propagate (bar_of_barbar e) 0]
    its [|] variant.  [undercut g en ws p] (Spec/Undercut.v, executable, extracted for lib/vf/checks/c09.py) lists
    the candidates of [g] at the cursor that are withheld because a strictly earlier level has a candidate extending
    the typed word [p] -- on the two tiers of Spec/Meaning.v: among the items expected as whole words (levels of the
    [||] branches, [state_cands]) and among the continuations of one within-word expression (levels of its pieces,
    [wcands]); [C09_undercut_meaning] spells that out. *)
From CG Require Import Model.Dfa Model.Tables Model.Glob Model.BashSem Model.Driver.
From CG Require Import Base.Prelude Model.Ast Model.Check Spec.Rx Spec.Meaning Spec.Undercut Spec.KnownC01 Spec.Domain.
From CG Require Import Proofs.MeaningFacts Proofs.MeaningLevels Proofs.C09Mono.
From CG Require Import Proofs.TreeFacts Proofs.GlobFacts Proofs.StripFacts Proofs.LangBridge Proofs.SubTreeFacts Proofs.BashMeaningSub Proofs.SubChecks Proofs.BashMeaningMix Proofs.C01Layers.
From CG Require Import Spec.Invocations.

(** *** Specification level *)
(** matched or not: the two grammars agree at every cursor position *)
Theorem C09_fallback_transparent_complete :
  forall en e ws p,
    complete (propagate (bar_of_barbar e) 0) en ws p = None <-> complete (propagate e 0) en ws p = None.
Proof. exact complete_bar_none. Qed.
Check C09_fallback_transparent_complete :
  forall en e ws p,
    complete (propagate (bar_of_barbar e) 0) en ws p = None <-> complete (propagate e 0) en ws p = None.
Print Assumptions C09_fallback_transparent_complete.

(** every required (resp. allowed) candidate of the [|] variant is a required (resp. allowed) candidate of the
    [||] grammar, unless an earlier level undercuts it *)
Theorem C09_candidates_monotone_spec :
  forall en e ws p,
    match complete (propagate (bar_of_barbar e) 0) en ws p, complete (propagate e 0) en ws p with
    | None, None => True
    | Some (req', al'), Some (req, al) =>
      (forall c, In c req' -> In c req \/ In c (undercut (propagate e 0) en ws p))
      /\ (forall c, In c al' -> In c al \/ In c (undercut (propagate e 0) en ws p))
    | _, _ => False
    end.
Proof. exact complete_bar_monotone. Qed.
Check C09_candidates_monotone_spec :
  forall en e ws p,
    match complete (propagate (bar_of_barbar e) 0) en ws p, complete (propagate e 0) en ws p with
    | None, None => True
    | Some (req', al'), Some (req, al) =>
      (forall c, In c req' -> In c req \/ In c (undercut (propagate e 0) en ws p))
      /\ (forall c, In c al' -> In c al \/ In c (undercut (propagate e 0) en ws p))
    | _, _ => False
    end.
Print Assumptions C09_candidates_monotone_spec.

(** "unless an earlier level undercuts it": [c] is (what bash shows of) a candidate [c0] of an expected item [a], and
    a candidate [c'] extending the typed word exists at a strictly earlier level -- of the [||] branches (first two
    cases: [a] contributes [c0] itself, or [a] is a within-word expression whose whole level is undercut), or of the
    pieces inside the within-word expression [a] (third case) *)
Theorem C09_undercut_meaning :
  forall e en ws p c,
    In c (undercut e en ws p) ->
    let s := run en (start e) ws in
    exists a c0,
      In a (map fst (moves s)) /\ c = strip (e_wordbreaks en) p c0 /\ In c0 (item_raw en a p) /\
      ((exists l l' c', In (l, c0) (item_cands en a p) /\ In (l', c') (state_cands en s p) /\ l' < l
                        /\ String.prefix p c' = true)
       \/ (exists x l l' c', a = LSub x l /\ In (l', c') (state_cands en s p) /\ l' < l /\ String.prefix p c' = true)
       \/ (exists x l lw lw' c', a = LSub x l /\ In (lw, c0) (proper_wcands en x p) /\ In (lw', c') (proper_wcands en x p)
                                 /\ lw' < lw /\ String.prefix p c' = true)).
Proof. exact undercut_meaning. Qed.
Check C09_undercut_meaning :
  forall e en ws p c,
    In c (undercut e en ws p) ->
    let s := run en (start e) ws in
    exists a c0,
      In a (map fst (moves s)) /\ c = strip (e_wordbreaks en) p c0 /\ In c0 (item_raw en a p) /\
      ((exists l l' c', In (l, c0) (item_cands en a p) /\ In (l', c') (state_cands en s p) /\ l' < l
                        /\ String.prefix p c' = true)
       \/ (exists x l l' c', a = LSub x l /\ In (l', c') (state_cands en s p) /\ l' < l /\ String.prefix p c' = true)
       \/ (exists x l lw lw' c', a = LSub x l /\ In (lw, c0) (proper_wcands en x p) /\ In (lw', c') (proper_wcands en x p)
                                 /\ lw' < lw /\ String.prefix p c' = true)).
Print Assumptions C09_undercut_meaning.

(** *** Script level: the emitted bash scripts of the two grammars (/repo HEAD)
    [bash_setting]: the hypotheses under which C01 identifies the script with the specification (the whole model
    pipeline accepted the validated grammar; literals, commands, undefined nonterminals, within-word expressions made
    of literals; C01's domain; the environment of the script shows the commands what the specification's environment
    says they print; no two different items read a word of the line). *)
Definition bash_setting pick fuel (v : valid_grammar) c om os nd a (benv : BashSem.env) (en : Meaning.env)
           (ws : list string) (p : string) : Prop :=
  mix_tree (v_expr v) = true /\ alts_nonempty (v_expr v) = true /\
  compile_valid pick fuel v = Ok c /\
  all_tables Bash c om os = Ok (nd, a) /\ NoDup om /\ valid_literal_order (c_main c) om = true /\
  sub_orders_ok c os /\ subs_deterministic c /\
  C01_domain (v_expr v) = true /\
  BashSem.e_ignore_case benv = false /\ BashSem.e_wordbreaks benv = Meaning.e_wordbreaks en /\
  breaks_ok (BashSem.e_wordbreaks benv) = true /\ plain p = true /\ printable_str p = true /\
  (forall cm cid, Tables.index_of cm (a_commands a) = Some cid ->
                  spec_candidates (cmd_output benv cid) = candidates en cm) /\
  ambiguous_run en (start (v_expr v)) ws = false.

(** For the [||] grammar [v] and its [|] variant [v'], each compiled to its tables and script: the two scripts return
    the same code, and every entry of the [|] script's COMPREPLY is in the [||] script's COMPREPLY unless an earlier
    level undercuts it. *)
Theorem C09_candidates_monotone_script :
  forall e pick fuel v c om os nd a benv pick' fuel' v' c' om' os' nd' a' benv' en ws p,
    v_expr v = propagate e 0 -> v_expr v' = propagate (bar_of_barbar e) 0 ->
    bash_setting pick fuel v c om os nd a benv en ws p ->
    bash_setting pick' fuel' v' c' om' os' nd' a' benv' en ws p ->
    (exists log log',
        run_from Repaired (d_start (c_main c)) a benv ws p = Ok (mkresult 1 [] log)
        /\ run_from Repaired (d_start (c_main c')) a' benv' ws p = Ok (mkresult 1 [] log'))
    \/ (exists reply log reply' log',
           run_from Repaired (d_start (c_main c)) a benv ws p = Ok (mkresult 0 reply log)
           /\ run_from Repaired (d_start (c_main c')) a' benv' ws p = Ok (mkresult 0 reply' log')
           /\ forall x, In x reply' -> In x reply \/ In x (undercut (v_expr v) en ws p)).
Proof.
  intros e pick fuel v c om os nd a benv pick' fuel' v' c' om' os' nd' a' benv' en ws p Ev Ev' S S'.
  destruct S as (H1 & H2 & H3 & H4 & H5 & H6 & H7 & H8 & H9 & H10 & H11 & H12 & H13 & H14 & H15 & H16).
  destruct S' as (G1 & G2 & G3 & G4 & G5 & G6 & G7 & G8 & G9 & G10 & G11 & G12 & G13 & G14 & G15 & G16).
  pose proof (bash_meaning_mixed pick fuel v c om os nd a benv en ws p H1 H2 H3 H4 H5 H6 H7 H8 H9 H10 H11 H12 H13 H14 H15 H16) as M.
  pose proof (bash_meaning_mixed pick' fuel' v' c' om' os' nd' a' benv' en ws p G1 G2 G3 G4 G5 G6 G7 G8 G9 G10 G11 G12 G13 G14 G15 G16) as M'.
  pose proof (complete_bar_monotone en e ws p) as Mono.
  rewrite Ev in M |- *. rewrite Ev' in M'.
  destruct (complete (propagate (bar_of_barbar e) 0) en ws p) as [[req' al']|];
    destruct (complete (propagate e 0) en ws p) as [[req al]|]; try contradiction.
  - right. destruct M as (reply & log & R & Hr & _). destruct M' as (reply' & log' & R' & Hr' & _).
    exists reply, log, reply', log'. split; [exact R|split; [exact R'|]].
    intros x Hx. apply Hr' in Hx. destruct (proj1 Mono x Hx) as [K|K]; [left; now apply Hr|now right].
  - left. destruct M as (log & R). destruct M' as (log' & R'). now exists log, log'.
Qed.
Check C09_candidates_monotone_script :
  forall e pick fuel v c om os nd a benv pick' fuel' v' c' om' os' nd' a' benv' en ws p,
    v_expr v = propagate e 0 -> v_expr v' = propagate (bar_of_barbar e) 0 ->
    bash_setting pick fuel v c om os nd a benv en ws p ->
    bash_setting pick' fuel' v' c' om' os' nd' a' benv' en ws p ->
    (exists log log',
        run_from Repaired (d_start (c_main c)) a benv ws p = Ok (mkresult 1 [] log)
        /\ run_from Repaired (d_start (c_main c')) a' benv' ws p = Ok (mkresult 1 [] log'))
    \/ (exists reply log reply' log',
           run_from Repaired (d_start (c_main c)) a benv ws p = Ok (mkresult 0 reply log)
           /\ run_from Repaired (d_start (c_main c')) a' benv' ws p = Ok (mkresult 0 reply' log')
           /\ forall x, In x reply' -> In x reply \/ In x (undercut (v_expr v) en ws p)).
Print Assumptions C09_candidates_monotone_script.

(** Non-vacuity of the specification-level theorem, on the two tiers: [cmd (a || ab);] with "a" typed -- the [|]
    variant offers [a ] and [ab ], the [||] grammar only [a ], and [ab ] is what [undercut] lists; and
    [cmd --k=(v || vw);] with [--k=v] typed -- [--k=vw] is undercut inside the word. *)
Definition ex_sp : span := mkspan 1 1 2.
Definition ex_top : expr := Fallback [Terminal "a" None 0 ex_sp; Terminal "ab" None 0 ex_sp] ex_sp.
Definition ex_word : expr :=
  Subword (Sequence [Terminal "--k=" None 0 ex_sp;
                     Fallback [Terminal "v" None 0 ex_sp; Terminal "vw" None 0 ex_sp; Terminal "x" None 0 ex_sp] ex_sp] ex_sp) 0 ex_sp.
Definition ex_en : Meaning.env := Meaning.mkenv "" [].

Example ex_C09c_inhabited :
  complete (propagate (bar_of_barbar ex_top) 0) ex_en [] "a" = Some (["a "; "ab "], ["a "; "ab "])
  /\ complete (propagate ex_top 0) ex_en [] "a" = Some (["a "], ["a "])
  /\ undercut (propagate ex_top 0) ex_en [] "a" = ["ab "]
  /\ complete (propagate (bar_of_barbar ex_word) 0) ex_en [] "--k=v" = Some (["--k=vw"], ["--k=vw"; "--k=v"])
  /\ complete (propagate ex_word 0) ex_en [] "--k=v" = Some (["--k=vw"], ["--k=vw"; "--k=v"])
  /\ complete (propagate (bar_of_barbar ex_word) 0) ex_en [] "--k=" = Some (["--k=v"; "--k=vw"; "--k=x"], ["--k=v"; "--k=vw"; "--k=x"; "--k="])
  /\ complete (propagate ex_word 0) ex_en [] "--k=" = Some (["--k=v"], ["--k=v"; "--k="])
  /\ undercut (propagate ex_word 0) ex_en [] "--k=" = ["--k=vw"; "--k=x"].
Proof. vm_compute. repeat split; reflexivity. Qed.
Print Assumptions ex_C09c_inhabited.
