(** C16 -- the --dfa and --regex Graphviz dumps are well-formed and show the real automaton.
    Statements only; proofs live in Proofs/Dot*.v.

    [read] is the DOT reader of Spec/DotRead.v (the judge: there is no Graphviz here), [view] keeps
    of a graph what the property talks about (node: name, shape, rendered label; edge: end points,
    rendered label, style; cluster: name, rendered label, members), [gview_equiv] is equality up to
    the order of nodes, of edges and of the members of a cluster. *)
From Coq Require Import Permutation.
From CG Require Import Base.Prelude Model.Dfa Spec.DotRead Spec.DotSpec Model.Dot
     Proofs.DotLex Proofs.DotParse Proofs.DotDfaMain Proofs.DotRegex Proofs.DotRegexTotal.
From CG Require Model.Regex Model.DotOfRegex.

(** The code as it is now (after commit 0e66d33), on the automata [minimize] returns -- well formed
    ([wf_cdfa]) and with start state 0 ([starts_at_zero]: what [renumber_states] guarantees), both
    checked on every run on Rust's MIN automaton: the text [DFA::to_dot] writes is valid DOT and
    denotes exactly the prescribed graph.  No exception. *)
Theorem C16_dfa_dot :
  forall base c, wf_cdfa c = true -> starts_at_zero c = true ->
    exists text g, Dot.of_dfa base c = Ok text /\ DotRead.read text = Some g
                   /\ gview_equiv (view g) (DotSpec.graph_of_dfa base c).
Proof. exact dfa_dot_current_min. Qed.
Check C16_dfa_dot :
  forall base c, wf_cdfa c = true -> starts_at_zero c = true ->
    exists text g, Dot.of_dfa base c = Ok text /\ DotRead.read text = Some g
                   /\ gview_equiv (view g) (DotSpec.graph_of_dfa base c).
Print Assumptions C16_dfa_dot.

(** The same for any well-formed automaton of which 0 is a state (the one class left, latent:
    [get_all_states] inserts state 0 whether it is a state or not). *)
Theorem C16_dfa_dot_no_phantom :
  forall base c, wf_cdfa c = true -> known_phantom c = false ->
    exists text g, Dot.of_dfa base c = Ok text /\ DotRead.read text = Some g
                   /\ gview_equiv (view g) (DotSpec.graph_of_dfa base c).
Proof. exact dfa_dot_current. Qed.
Check C16_dfa_dot_no_phantom :
  forall base c, wf_cdfa c = true -> known_phantom c = false ->
    exists text g, Dot.of_dfa base c = Ok text /\ DotRead.read text = Some g
                   /\ gview_equiv (view g) (DotSpec.graph_of_dfa base c).
Print Assumptions C16_dfa_dot_no_phantom.

(** With the remaining optional hunk (regular states computed without the unconditional state 0):
    every well-formed automaton. *)
Theorem C16_dfa_dot_patched :
  forall base c, wf_cdfa c = true ->
    exists text g, Dot.of_dfa_with patched base c = Ok text /\ DotRead.read text = Some g
                   /\ gview_equiv (view g) (DotSpec.graph_of_dfa base c).
Proof. exact dfa_dot_patched. Qed.
Check C16_dfa_dot_patched :
  forall base c, wf_cdfa c = true ->
    exists text g, Dot.of_dfa_with patched base c = Ok text /\ DotRead.read text = Some g
                   /\ gview_equiv (view g) (DotSpec.graph_of_dfa base c).
Print Assumptions C16_dfa_dot_patched.

(** The code before commit 0e66d33 was right exactly outside its three classes (and there the fix
    changes nothing). *)
Theorem C16_dfa_dot_old :
  forall base c, wf_cdfa c = true -> known_C16_old base c = false ->
    Dot.of_dfa_with old base c = Dot.of_dfa_with patched base c
    /\ exists text g, Dot.of_dfa_with old base c = Ok text /\ DotRead.read text = Some g
                      /\ gview_equiv (view g) (DotSpec.graph_of_dfa base c).
Proof. intros base c Hwf Hk. split; [now apply dfa_dot_old_agree|now apply dfa_dot_old]. Qed.
Check C16_dfa_dot_old :
  forall base c, wf_cdfa c = true -> known_C16_old base c = false ->
    Dot.of_dfa_with old base c = Dot.of_dfa_with patched base c
    /\ exists text g, Dot.of_dfa_with old base c = Ok text /\ DotRead.read text = Some g
                      /\ gview_equiv (view g) (DotSpec.graph_of_dfa base c).
Print Assumptions C16_dfa_dot_old.

(** The codec shared by both files: the text written for any list of well-formed lines is read back
    as exactly the statements the lines stand for. *)
Theorem C16_lines_codec :
  forall name l, id_ok name -> Forall item_ok l ->
    DotRead.read (render_doc name l)
    = Some (graph_of_ast (mkast false true (Some name) (items_stmts l))).
Proof. exact read_render_doc. Qed.
Check C16_lines_codec :
  forall name l, id_ok name -> Forall item_ok l ->
    DotRead.read (render_doc name l)
    = Some (graph_of_ast (mkast false true (Some name) (items_stmts l))).
Print Assumptions C16_lines_codec.

(** The only non-trivial leaf: a label.  What [make_dot_string_constant] writes ([escape_dot]
    between double quotes) is read back by the quoted-string rule of DOT, whatever follows, as the
    text with its backslashes doubled, which the label renderer shows as the text itself. *)
Theorem C16_label_codec :
  forall s rest,
    DotRead.read_quoted (append dq (append (escape_dot s) (append dq rest))) = Some (double_bs s, rest)
    /\ DotRead.render_label (double_bs s) = s.
Proof. exact label_codec. Qed.
Check C16_label_codec :
  forall s rest,
    DotRead.read_quoted (append dq (append (escape_dot s) (append dq rest))) = Some (double_bs s, rest)
    /\ DotRead.render_label (double_bs s) = s.
Print Assumptions C16_label_codec.

(** ** The --regex file *)

(** The code as it is now, on an arena as Rust builds them -- [rx_total_b]: children have smaller
    indices, every leaf's position holds an input of its kind, every within-word input names a regex
    of the pool, roots exist, within-word regexes contain no within-word node; [rx_wf_b]: every
    position has its leaf reachable from the root through Cat/Or nodes; both checked on every run on
    Rust's REGEX stage: [Regex::to_dot] returns a text (no panic, the fuel suffices), the text is
    valid DOT, and every position of the regex and of every within-word regex it uses labels a node
    (the latter inside [cluster_R]).  No exception. *)
Theorem C16_regex_dot :
  forall pool r, rx_total_b pool r = true -> rx_wf_b pool r = true ->
    exists text g, Dot.of_regex pool r = Ok text /\ DotRead.read text = Some g
                   /\ regex_ok g (spec_pool pool) (spec_items r).
Proof. exact regex_dot_current_total. Qed.
Check C16_regex_dot :
  forall pool r, rx_total_b pool r = true -> rx_wf_b pool r = true ->
    exists text g, Dot.of_regex pool r = Ok text /\ DotRead.read text = Some g
                   /\ regex_ok g (spec_pool pool) (spec_items r).
Print Assumptions C16_regex_dot.

(** The same stated over the types of the regex package ([Model/Regex.v]: the model of
    [Regex::from_expr] and its intern pool), through the forgetful view [Model/DotOfRegex.v]. *)
Theorem C16_regex_dot_model :
  forall (P : Regex.pool) (R : Regex.regex),
    rx_total_b (DotOfRegex.conv_pool P) (DotOfRegex.conv_regex R) = true ->
    rx_wf_b (DotOfRegex.conv_pool P) (DotOfRegex.conv_regex R) = true ->
    exists text g, DotOfRegex.regex_to_dot P R = Ok text /\ DotRead.read text = Some g
                   /\ regex_ok g (spec_pool (DotOfRegex.conv_pool P)) (spec_items (DotOfRegex.conv_regex R)).
Proof. intros P R. exact (regex_dot_current_total _ _). Qed.
Check C16_regex_dot_model :
  forall (P : Regex.pool) (R : Regex.regex),
    rx_total_b (DotOfRegex.conv_pool P) (DotOfRegex.conv_regex R) = true ->
    rx_wf_b (DotOfRegex.conv_pool P) (DotOfRegex.conv_regex R) = true ->
    exists text g, DotOfRegex.regex_to_dot P R = Ok text /\ DotRead.read text = Some g
                   /\ regex_ok g (spec_pool (DotOfRegex.conv_pool P)) (spec_items (DotOfRegex.conv_regex R)).
Print Assumptions C16_regex_dot_model.

(** The code before commit 0e66d33, when no literal, description or nonterminal name contains a
    double quote or a backslash. *)
Theorem C16_regex_dot_old :
  forall pool r, rx_total_b pool r = true -> rx_wf_b pool r = true -> known_rx_all pool r = false ->
    exists text g, Dot.of_regex_with old pool r = Ok text /\ DotRead.read text = Some g
                   /\ regex_ok g (spec_pool pool) (spec_items r).
Proof. exact regex_dot_old_total. Qed.
Check C16_regex_dot_old :
  forall pool r, rx_total_b pool r = true -> rx_wf_b pool r = true -> known_rx_all pool r = false ->
    exists text g, Dot.of_regex_with old pool r = Ok text /\ DotRead.read text = Some g
                   /\ regex_ok g (spec_pool pool) (spec_items r).
Print Assumptions C16_regex_dot_old.

(** Whatever the arena, whenever the patched printer returns, the text is valid DOT (coverage is only
    needed for "every item appears"). *)
Theorem C16_regex_dot_valid :
  forall pool r text, pool_flat pool -> Dot.of_regex_with patched pool r = Ok text ->
    exists g, DotRead.read text = Some g
              /\ (rx_cover r -> (forall rid sr, assocN rid pool = Some sr -> rx_cover sr) ->
                  regex_ok g (spec_pool pool) (spec_items r)).
Proof. exact regex_dot_patched. Qed.
Check C16_regex_dot_valid :
  forall pool r text, pool_flat pool -> Dot.of_regex_with patched pool r = Ok text ->
    exists g, DotRead.read text = Some g
              /\ (rx_cover r -> (forall rid sr, assocN rid pool = Some sr -> rx_cover sr) ->
                  regex_ok g (spec_pool pool) (spec_items r)).
Print Assumptions C16_regex_dot_valid.

(** ** The classes are inhabited: the code before commit 0e66d33 is refuted on each of its three,
    the current code on the latent one. *)

(** a description containing a double quote: the --dfa file is not DOT at all *)
Definition w_quote : cdfa :=
  mkcdfa (mkdfa 0 [(0, [(0, 1)])] [1] [ILit "a" (Some (append "d" (append dq "q"))) 0]) [].

Definition C16_refuted_quotes_dfa_statement : Prop :=
  wf_cdfa w_quote = true /\ known_labels w_quote = true
  /\ (exists text, Dot.of_dfa_with old 0 w_quote = Ok text /\ DotRead.read text = None)
  /\ (exists text g, Dot.of_dfa 0 w_quote = Ok text /\ DotRead.read text = Some g
                     /\ gdiff_ok (compare (view g) (graph_of_dfa 0 w_quote)) = true).
Example C16_refuted_quotes_dfa : C16_refuted_quotes_dfa_statement.
Proof.
  unfold C16_refuted_quotes_dfa_statement.
  split; [vm_compute; reflexivity|]. split; [vm_compute; reflexivity|]. split.
  - eexists. split; [vm_compute; reflexivity|vm_compute; reflexivity].
  - eexists. eexists. split; [vm_compute; reflexivity|]. split; [vm_compute; reflexivity|vm_compute; reflexivity].
Qed.
Check C16_refuted_quotes_dfa : C16_refuted_quotes_dfa_statement.
Print Assumptions C16_refuted_quotes_dfa.

(** a literal made of x, backslash, n: the file reads, but the label shows a line break *)
Definition w_backslash : cdfa :=
  mkcdfa (mkdfa 0 [(0, [(0, 1)])] [1] [ILit (append "x" (append bs "n")) None 0]) [].

Definition C16_refuted_backslash_dfa_statement : Prop :=
  wf_cdfa w_backslash = true /\ known_labels w_backslash = true
  /\ exists text g, Dot.of_dfa_with old 0 w_backslash = Ok text /\ DotRead.read text = Some g
                    /\ gdiff_ok (compare (view g) (graph_of_dfa 0 w_backslash)) = false.
Example C16_refuted_backslash_dfa : C16_refuted_backslash_dfa_statement.
Proof.
  unfold C16_refuted_backslash_dfa_statement.
  split; [vm_compute; reflexivity|]. split; [vm_compute; reflexivity|].
  eexists. eexists. split; [vm_compute; reflexivity|]. split; [vm_compute; reflexivity|vm_compute; reflexivity].
Qed.
Check C16_refuted_backslash_dfa : C16_refuted_backslash_dfa_statement.
Print Assumptions C16_refuted_backslash_dfa.

(** numbering base 1 and a within-word automaton ([cmd --o=(x|y);] for fish/zsh): the dashed edge
    out of the cluster starts at the wrong node *)
Definition w_sub : cdfa :=
  mkcdfa (mkdfa 0 [(0, [(0, 1)])] [1] [ISub 0 0])
         [mkdfa 0 [(0, [(0, 1)]); (1, [(1, 2); (2, 2)])] [2] [ILit "--o=" None 0; ILit "x" None 0; ILit "y" None 0]].

Definition C16_refuted_subword_base_statement : Prop :=
  wf_cdfa w_sub = true /\ known_subacc 1 w_sub = true /\ known_C16_old 0 w_sub = false
  /\ (exists text g, Dot.of_dfa_with old 1 w_sub = Ok text /\ DotRead.read text = Some g
                     /\ gdiff_ok (compare (view g) (graph_of_dfa 1 w_sub)) = false)
  /\ (exists text g, Dot.of_dfa 1 w_sub = Ok text /\ DotRead.read text = Some g
                     /\ gdiff_ok (compare (view g) (graph_of_dfa 1 w_sub)) = true).
Example C16_refuted_subword_base : C16_refuted_subword_base_statement.
Proof.
  unfold C16_refuted_subword_base_statement.
  split; [vm_compute; reflexivity|]. split; [vm_compute; reflexivity|]. split; [vm_compute; reflexivity|]. split.
  - eexists. eexists. split; [vm_compute; reflexivity|]. split; [vm_compute; reflexivity|vm_compute; reflexivity].
  - eexists. eexists. split; [vm_compute; reflexivity|]. split; [vm_compute; reflexivity|vm_compute; reflexivity].
Qed.
Check C16_refuted_subword_base : C16_refuted_subword_base_statement.
Print Assumptions C16_refuted_subword_base.

(** an automaton without state 0 (not produced by [minimize], whose renumbering makes the start
    state 0): a node [_0] that is no state appears *)
Definition w_phantom : cdfa := mkcdfa (mkdfa 1 [(1, [(0, 2)])] [2] [ILit "a" None 0]) [].

Definition C16_refuted_phantom_node_statement : Prop :=
  wf_cdfa w_phantom = true /\ known_phantom w_phantom = true
  /\ exists text g, Dot.of_dfa 0 w_phantom = Ok text /\ DotRead.read text = Some g
                    /\ df_nodes_extra (compare (view g) (graph_of_dfa 0 w_phantom))
                       = [("_0", Some "circle", Some "0")].
Example C16_refuted_phantom_node : C16_refuted_phantom_node_statement.
Proof.
  unfold C16_refuted_phantom_node_statement.
  split; [vm_compute; reflexivity|]. split; [vm_compute; reflexivity|].
  eexists. eexists. split; [vm_compute; reflexivity|]. split; [vm_compute; reflexivity|vm_compute; reflexivity].
Qed.
Check C16_refuted_phantom_node : C16_refuted_phantom_node_statement.
Print Assumptions C16_refuted_phantom_node.

(** a literal containing a double quote: the --regex file is not DOT at all; patched, it is,
    and the literal labels a node *)
Definition w_rx : regex :=
  mkregex 2 [RLit (append "a" (append dq "b")) None] [RTerm 0; REnd 1; RCat [0; 1]].

Definition C16_refuted_quotes_regex_statement : Prop :=
  known_rx [] w_rx = true
  /\ (exists text, Dot.of_regex_with old [] w_rx = Ok text /\ DotRead.read text = None)
  /\ (exists text g, Dot.of_regex [] w_rx = Ok text /\ DotRead.read text = Some g
                     /\ regex_missing g [] [XLit (append "a" (append dq "b")) None] = []).
Example C16_refuted_quotes_regex : C16_refuted_quotes_regex_statement.
Proof.
  unfold C16_refuted_quotes_regex_statement.
  split; [vm_compute; reflexivity|]. split.
  - eexists. split; [vm_compute; reflexivity|vm_compute; reflexivity].
  - eexists. eexists. split; [vm_compute; reflexivity|]. split; [vm_compute; reflexivity|vm_compute; reflexivity].
Qed.
Check C16_refuted_quotes_regex : C16_refuted_quotes_regex_statement.
Print Assumptions C16_refuted_quotes_regex.

(** ** Non-vacuity: an automaton with a within-word automaton, a command, a description and a
    nonterminal, outside the known classes for bash/pwsh (base 0), and what is read back *)
Definition ex_c : cdfa :=
  mkcdfa (mkdfa 0 [(0, [(0, 1); (1, 2); (3, 1)]); (1, [(4, 1)]); (2, [(2, 1)])] [1]
                [ILit "a" (Some "some description") 0; ISub 0 0; IStar; ICmd "echo {x}" 0; ILit "b" None 1])
         [mkdfa 0 [(0, [(0, 1)]); (1, [(1, 2); (2, 2)])] [2] [ILit "--o=" None 0; ILit "x" None 0; ILit "y" None 0]].

Example ex_C16_inhabited :
  wf_cdfa ex_c = true /\ starts_at_zero ex_c = true
  /\ exists text g, Dot.of_dfa 0 ex_c = Ok text /\ DotRead.read text = Some g
                    /\ List.length (g_nodes g) = 6%nat /\ List.length (g_edges g) = 9%nat
                    /\ List.length (g_subs g) = 1%nat
                    /\ gdiff_ok (compare (view g) (graph_of_dfa 0 ex_c)) = true.
Proof.
  split; [vm_compute; reflexivity|]. split; [vm_compute; reflexivity|].
  eexists. eexists. split; [vm_compute; reflexivity|]. split; [vm_compute; reflexivity|].
  repeat (split; [vm_compute; reflexivity|]). vm_compute; reflexivity.
Qed.
Print Assumptions ex_C16_inhabited.

(** a regex with a within-word regex, a repetition (Star shares its child), a command and a
    description: well formed, outside the class, the old printer returns, all five labels found *)
Definition ex_pool : rpool :=
  [(0, mkregex 6 [RLit "--o=" None; RLit "x" None; RLit "y" None]
               [RTerm 0; RTerm 1; RTerm 2; ROr [1; 2]; RCat [0; 3]; REnd 3; RCat [4; 5]])].
Definition ex_r : regex :=
  mkregex 9 [RLit "a" (Some "some description"); RSub 0; RNonterm "F"; RCmd "echo {x}"]
          [RTerm 0; RSubword 1; RNt 2; RCat [1; 2]; RCommand 3; ROr [0; 3; 4]; RStar 5; RCat [5; 6]; REnd 4; RCat [7; 8]].

Example ex_C16_regex_inhabited :
  rx_total_b ex_pool ex_r = true /\ rx_wf_b ex_pool ex_r = true
  /\ exists text g, Dot.of_regex ex_pool ex_r = Ok text /\ DotRead.read text = Some g
                    /\ List.length (g_nodes g) = 17%nat /\ List.length (g_subs g) = 1%nat
                    /\ regex_missing g (spec_pool ex_pool) (spec_items ex_r) = [].
Proof.
  split; [vm_compute; reflexivity|]. split; [vm_compute; reflexivity|].
  eexists. eexists. split; [vm_compute; reflexivity|]. split; [vm_compute; reflexivity|].
  repeat (split; [vm_compute; reflexivity|]). vm_compute; reflexivity.
Qed.
Print Assumptions ex_C16_regex_inhabited.
