(** C04 -- every emitted script embeds exactly the compiled automaton.
    Statements only; proofs live in Proofs/TablesSound.v (tables) and Proofs/BashCodec.v (script).

    Vocabulary: [trans_on d s x t] = the automaton [d] has a transition from state [s] to [t] on
    input [x] (Dfa.step); [lit_at ord start l text descr] = position [l - start] of the literal
    order [ord] holds (text, descr), i.e. literal id [l] (ids start at the shell's array base);
    [tbl_has m s k t] = the match table [m] maps (state [s], key [k]) to [t]; [mem3 L k s id] = the
    completion table [L] lists [id] for fallback level [k] and state [s].  The literal order is
    a parameter (ties of an unstable sort, DESIGN 4.3): every theorem holds for every duplicate-free
    order, and [C04_valid_order_covers] says a valid order numbers every literal of the automaton. *)
From CG Require Import Base.Prelude Model.Ast Model.Dfa Model.Tpl Model.Quote Model.Tables Model.EmitBash
     Spec.ShellDQ Spec.ScriptRead Proofs.TablesSound Proofs.BashCodec.
From CGgen Require Import TplBash.
Open Scope N_scope.
Open Scope list_scope.

(** the literal list: ids are consecutive from the array base; each id carries its text and its description *)
Theorem C04_literal_list :
  forall (d : dfa) (cmds : list string) (start : N) (nc ncp ns : bool) (ord : list (string * string)) (t : tables),
    get_lookup_tables d cmds start nc ncp ns ord = Ok t ->
    forall (l : N) (text ds : string), In (l, text, ds) (t_literals t) <-> lit_at ord start l text ds.
Proof. exact literals_exact. Qed.
Check C04_literal_list :
  forall (d : dfa) (cmds : list string) (start : N) (nc ncp ns : bool) (ord : list (string * string)) (t : tables),
    get_lookup_tables d cmds start nc ncp ns ord = Ok t ->
    forall (l : N) (text ds : string), In (l, text, ds) (t_literals t) <-> lit_at ord start l text ds.
Print Assumptions C04_literal_list.

(** every literal input gets an id *)
Theorem C04_valid_order_covers :
  forall (d : dfa) (ord : list (string * string)) (start i : N) (text : string) (dso : option string) (lvl : N),
    valid_literal_order d ord = true -> nthN (d_inputs d) i = Some (ILit text dso lvl) ->
    exists l : N, lit_at ord start l text (unwrap_descr dso).
Proof. exact valid_order_covers. Qed.
Check C04_valid_order_covers :
  forall (d : dfa) (ord : list (string * string)) (start i : N) (text : string) (dso : option string) (lvl : N),
    valid_literal_order d ord = true -> nthN (d_inputs d) i = Some (ILit text dso lvl) ->
    exists l : N, lit_at ord start l text (unwrap_descr dso).
Print Assumptions C04_valid_order_covers.

(** next state for (state, literal): every table entry is a transition of the automaton on that literal *)
Theorem C04_match_literal_sound :
  forall (d : dfa) (cmds : list string) (start : N) (nc ncp ns : bool) (ord : list (string * string)) (t : tables),
    dfa_wf d ->
    NoDup ord -> get_lookup_tables d cmds start nc ncp ns ord = Ok t ->
    forall s l to : N, tbl_has (t_mlit t) s l to ->
    exists (text : string) (dso : option string) (lvl : N),
      trans_on d s (ILit text dso lvl) to /\ lit_at ord start l text (unwrap_descr dso).
Proof. exact mlit_sound. Qed.
Check C04_match_literal_sound :
  forall (d : dfa) (cmds : list string) (start : N) (nc ncp ns : bool) (ord : list (string * string)) (t : tables),
    dfa_wf d ->
    NoDup ord -> get_lookup_tables d cmds start nc ncp ns ord = Ok t ->
    forall s l to : N, tbl_has (t_mlit t) s l to ->
    exists (text : string) (dso : option string) (lvl : N),
      trans_on d s (ILit text dso lvl) to /\ lit_at ord start l text (unwrap_descr dso).
Print Assumptions C04_match_literal_sound.

(** ... and every literal transition is in the table, provided no two transitions from that state carry the same literal id (see C04_refuted_same_text_two_levels) *)
Theorem C04_match_literal_complete :
  forall (d : dfa) (cmds : list string) (start : N) (nc ncp ns : bool) (ord : list (string * string)) (t : tables),
    dfa_wf d ->
    NoDup ord -> get_lookup_tables d cmds start nc ncp ns ord = Ok t ->
    forall (s : N) (text : string) (dso : option string) (lvl to l : N),
    trans_on d s (ILit text dso lvl) to -> lit_at ord start l text (unwrap_descr dso) ->
    keys_unique d (lit_sel (all_literals ord start)) s -> tbl_has (t_mlit t) s l to.
Proof. exact mlit_complete. Qed.
Check C04_match_literal_complete :
  forall (d : dfa) (cmds : list string) (start : N) (nc ncp ns : bool) (ord : list (string * string)) (t : tables),
    dfa_wf d ->
    NoDup ord -> get_lookup_tables d cmds start nc ncp ns ord = Ok t ->
    forall (s : N) (text : string) (dso : option string) (lvl to l : N),
    trans_on d s (ILit text dso lvl) to -> lit_at ord start l text (unwrap_descr dso) ->
    keys_unique d (lit_sel (all_literals ord start)) s -> tbl_has (t_mlit t) s l to.
Print Assumptions C04_match_literal_complete.

(** next state for (state, command) *)
Theorem C04_match_command_sound :
  forall (d : dfa) (cmds : list string) (start : N) (nc ncp ns : bool) (ord : list (string * string)) (t : tables),
    dfa_wf d ->
    get_lookup_tables d cmds start nc ncp ns ord = Ok t ->
    forall (m : list (N * list (N * N))) (s c to : N), t_mcmd t = Some m -> tbl_has m s c to ->
    exists (cmd : string) (lvl : N), trans_on d s (ICmd cmd lvl) to /\ index_of cmd cmds = Some c.
Proof. exact mcmd_sound. Qed.
Check C04_match_command_sound :
  forall (d : dfa) (cmds : list string) (start : N) (nc ncp ns : bool) (ord : list (string * string)) (t : tables),
    dfa_wf d ->
    get_lookup_tables d cmds start nc ncp ns ord = Ok t ->
    forall (m : list (N * list (N * N))) (s c to : N), t_mcmd t = Some m -> tbl_has m s c to ->
    exists (cmd : string) (lvl : N), trans_on d s (ICmd cmd lvl) to /\ index_of cmd cmds = Some c.
Print Assumptions C04_match_command_sound.

Theorem C04_match_command_complete :
  forall (d : dfa) (cmds : list string) (start : N) (nc ncp ns : bool) (ord : list (string * string)) (t : tables),
    dfa_wf d ->
    get_lookup_tables d cmds start nc ncp ns ord = Ok t ->
    forall (m : list (N * list (N * N))) (s : N) (cmd : string) (lvl to c : N),
    t_mcmd t = Some m -> trans_on d s (ICmd cmd lvl) to -> index_of cmd cmds = Some c ->
    keys_unique d (cmd_sel cmds) s -> tbl_has m s c to.
Proof. exact mcmd_complete. Qed.
Check C04_match_command_complete :
  forall (d : dfa) (cmds : list string) (start : N) (nc ncp ns : bool) (ord : list (string * string)) (t : tables),
    dfa_wf d ->
    get_lookup_tables d cmds start nc ncp ns ord = Ok t ->
    forall (m : list (N * list (N * N))) (s : N) (cmd : string) (lvl to c : N),
    t_mcmd t = Some m -> trans_on d s (ICmd cmd lvl) to -> index_of cmd cmds = Some c ->
    keys_unique d (cmd_sel cmds) s -> tbl_has m s c to.
Print Assumptions C04_match_command_complete.

(** zsh: next state for (state, compadd command) *)
Theorem C04_match_compadd_sound :
  forall (d : dfa) (cmds : list string) (start : N) (nc ncp ns : bool) (ord : list (string * string)) (t : tables),
    dfa_wf d ->
    get_lookup_tables d cmds start nc ncp ns ord = Ok t ->
    forall (m : list (N * list (N * N))) (s c to : N), t_mcompadd t = Some m -> tbl_has m s c to ->
    exists (cmd : string) (lvl : N), trans_on d s (ICompadd cmd lvl) to /\ index_of cmd cmds = Some c.
Proof. exact mcompadd_sound. Qed.
Check C04_match_compadd_sound :
  forall (d : dfa) (cmds : list string) (start : N) (nc ncp ns : bool) (ord : list (string * string)) (t : tables),
    dfa_wf d ->
    get_lookup_tables d cmds start nc ncp ns ord = Ok t ->
    forall (m : list (N * list (N * N))) (s c to : N), t_mcompadd t = Some m -> tbl_has m s c to ->
    exists (cmd : string) (lvl : N), trans_on d s (ICompadd cmd lvl) to /\ index_of cmd cmds = Some c.
Print Assumptions C04_match_compadd_sound.

Theorem C04_match_compadd_complete :
  forall (d : dfa) (cmds : list string) (start : N) (nc ncp ns : bool) (ord : list (string * string)) (t : tables),
    dfa_wf d ->
    get_lookup_tables d cmds start nc ncp ns ord = Ok t ->
    forall (m : list (N * list (N * N))) (s : N) (cmd : string) (lvl to c : N),
    t_mcompadd t = Some m -> trans_on d s (ICompadd cmd lvl) to -> index_of cmd cmds = Some c ->
    keys_unique d (compadd_sel cmds) s -> tbl_has m s c to.
Proof. exact mcompadd_complete. Qed.
Check C04_match_compadd_complete :
  forall (d : dfa) (cmds : list string) (start : N) (nc ncp ns : bool) (ord : list (string * string)) (t : tables),
    dfa_wf d ->
    get_lookup_tables d cmds start nc ncp ns ord = Ok t ->
    forall (m : list (N * list (N * N))) (s : N) (cmd : string) (lvl to c : N),
    t_mcompadd t = Some m -> trans_on d s (ICompadd cmd lvl) to -> index_of cmd cmds = Some c ->
    keys_unique d (compadd_sel cmds) s -> tbl_has m s c to.
Print Assumptions C04_match_compadd_complete.

(** next state for (state, any word): exactly the star transitions (a swapped from/to would falsify this) *)
Theorem C04_match_star_exact :
  forall (d : dfa) (cmds : list string) (start : N) (nc ncp ns : bool) (ord : list (string * string)) (t : tables),
    dfa_wf d ->
    get_lookup_tables d cmds start nc ncp ns ord = Ok t ->
    forall (l : list (N * N)) (s to : N), t_mstar t = Some l -> In (s, to) l <-> trans_on d s IStar to.
Proof. exact mstar_exact. Qed.
Check C04_match_star_exact :
  forall (d : dfa) (cmds : list string) (start : N) (nc ncp ns : bool) (ord : list (string * string)) (t : tables),
    dfa_wf d ->
    get_lookup_tables d cmds start nc ncp ns ord = Ok t ->
    forall (l : list (N * N)) (s to : N), t_mstar t = Some l -> In (s, to) l <-> trans_on d s IStar to.
Print Assumptions C04_match_star_exact.

(** candidates per (fallback level, state): exactly the literal inputs of that level leaving that state *)
Theorem C04_completion_literal_exact :
  forall (d : dfa) (cmds : list string) (start : N) (nc ncp ns : bool) (ord : list (string * string)) (t : tables),
    dfa_wf d ->
    NoDup ord -> get_lookup_tables d cmds start nc ncp ns ord = Ok t ->
    forall k s l : N, mem3 (t_clit t) k s l <->
    (exists (text : string) (dso : option string) (to : N),
       trans_on d s (ILit text dso k) to /\ lit_at ord start l text (unwrap_descr dso)).
Proof. exact clit_exact. Qed.
Check C04_completion_literal_exact :
  forall (d : dfa) (cmds : list string) (start : N) (nc ncp ns : bool) (ord : list (string * string)) (t : tables),
    dfa_wf d ->
    NoDup ord -> get_lookup_tables d cmds start nc ncp ns ord = Ok t ->
    forall k s l : N, mem3 (t_clit t) k s l <->
    (exists (text : string) (dso : option string) (to : N),
       trans_on d s (ILit text dso k) to /\ lit_at ord start l text (unwrap_descr dso)).
Print Assumptions C04_completion_literal_exact.

(** one candidate table per level 0..max *)
Theorem C04_completion_levels :
  forall (d : dfa) (cmds : list string) (start : N) (nc ncp ns : bool) (ord : list (string * string)) (t : tables),
    get_lookup_tables d cmds start nc ncp ns ord = Ok t ->
    List.length (t_clit t) = (N.to_nat (t_maxlevel t) + 1)%nat.
Proof. exact clit_levels. Qed.
Check C04_completion_levels :
  forall (d : dfa) (cmds : list string) (start : N) (nc ncp ns : bool) (ord : list (string * string)) (t : tables),
    get_lookup_tables d cmds start nc ncp ns ord = Ok t ->
    List.length (t_clit t) = (N.to_nat (t_maxlevel t) + 1)%nat.
Print Assumptions C04_completion_levels.

Theorem C04_completion_command_exact :
  forall (d : dfa) (cmds : list string) (start : N) (nc ncp ns : bool) (ord : list (string * string)) (t : tables),
    dfa_wf d ->
    get_lookup_tables d cmds start nc ncp ns ord = Ok t ->
    forall (m : list (list (N * list N))) (k s c : N), t_ccmd t = Some m ->
    mem3 m k s c <-> (exists (cmd : string) (to : N), trans_on d s (ICmd cmd k) to /\ index_of cmd cmds = Some c).
Proof. exact ccmd_exact. Qed.
Check C04_completion_command_exact :
  forall (d : dfa) (cmds : list string) (start : N) (nc ncp ns : bool) (ord : list (string * string)) (t : tables),
    dfa_wf d ->
    get_lookup_tables d cmds start nc ncp ns ord = Ok t ->
    forall (m : list (list (N * list N))) (k s c : N), t_ccmd t = Some m ->
    mem3 m k s c <-> (exists (cmd : string) (to : N), trans_on d s (ICmd cmd k) to /\ index_of cmd cmds = Some c).
Print Assumptions C04_completion_command_exact.

Theorem C04_completion_compadd_exact :
  forall (d : dfa) (cmds : list string) (start : N) (nc ncp ns : bool) (ord : list (string * string)) (t : tables),
    dfa_wf d ->
    get_lookup_tables d cmds start nc ncp ns ord = Ok t ->
    forall (m : list (list (N * list N))) (k s c : N), t_ccompadd t = Some m ->
    mem3 m k s c <-> (exists (cmd : string) (to : N), trans_on d s (ICompadd cmd k) to /\ index_of cmd cmds = Some c).
Proof. exact ccompadd_exact. Qed.
Check C04_completion_compadd_exact :
  forall (d : dfa) (cmds : list string) (start : N) (nc ncp ns : bool) (ord : list (string * string)) (t : tables),
    dfa_wf d ->
    get_lookup_tables d cmds start nc ncp ns ord = Ok t ->
    forall (m : list (list (N * list N))) (k s c : N), t_ccompadd t = Some m ->
    mem3 m k s c <-> (exists (cmd : string) (to : N), trans_on d s (ICompadd cmd k) to /\ index_of cmd cmds = Some c).
Print Assumptions C04_completion_compadd_exact.

(** next state for (state, within-word automaton) *)
Theorem C04_match_subword_exact :
  forall (sh : shell) (c : cdfa) (om : list (string * string)) (os : list (N * list (string * string))) (nd : needs) (a : alltables),
    dfa_wf (c_main c) -> all_tables sh c om os = Ok (nd, a) ->
    forall s pi to : N,
    (exists row : list (N * N), In (s, row) (a_subtrans a) /\ In (pi, to) row)
    <-> (exists lvl : N, trans_on (c_main c) s (ISub pi lvl) to).
Proof. exact subtrans_exact. Qed.
Check C04_match_subword_exact :
  forall (sh : shell) (c : cdfa) (om : list (string * string)) (os : list (N * list (string * string))) (nd : needs) (a : alltables),
    dfa_wf (c_main c) -> all_tables sh c om os = Ok (nd, a) ->
    forall s pi to : N,
    (exists row : list (N * N), In (s, row) (a_subtrans a) /\ In (pi, to) row)
    <-> (exists lvl : N, trans_on (c_main c) s (ISub pi lvl) to).
Print Assumptions C04_match_subword_exact.

Theorem C04_completion_subword_exact :
  forall (sh : shell) (c : cdfa) (om : list (string * string)) (os : list (N * list (string * string))) (nd : needs) (a : alltables),
    dfa_wf (c_main c) -> all_tables sh c om os = Ok (nd, a) ->
    forall k s id : N, mem3 (a_csub a) k s id <->
    (exists (rt : list (N * inp * N)) (pi to : N),
       rtrans (c_main c) = Ok rt /\ trans_on (c_main c) s (ISub pi k) to
       /\ assocN pi (get_subwords rt (array_start sh)) = Some id).
Proof. exact csub_exact. Qed.
Check C04_completion_subword_exact :
  forall (sh : shell) (c : cdfa) (om : list (string * string)) (os : list (N * list (string * string))) (nd : needs) (a : alltables),
    dfa_wf (c_main c) -> all_tables sh c om os = Ok (nd, a) ->
    forall k s id : N, mem3 (a_csub a) k s id <->
    (exists (rt : list (N * inp * N)) (pi to : N),
       rtrans (c_main c) = Ok rt /\ trans_on (c_main c) s (ISub pi k) to
       /\ assocN pi (get_subwords rt (array_start sh)) = Some id).
Print Assumptions C04_completion_subword_exact.

(** one table set per within-word automaton met on a transition, computed from that very automaton (the theorems above then apply to it) *)
Theorem C04_subword_tables_exact :
  forall (sh : shell) (c : cdfa) (om : list (string * string)) (os : list (N * list (string * string))) (nd : needs) (a : alltables),
    all_tables sh c om os = Ok (nd, a) ->
    forall (pi id : N) (t : tables), In (pi, id, t) (a_subwords a) <->
    (exists (rt : list (N * inp * N)) (sd : dfa),
       rtrans (c_main c) = Ok rt /\ In (pi, id) (get_subwords rt (array_start sh)) /\ nthN (c_subs c) pi = Some sd
       /\ get_lookup_tables sd (a_commands a) (array_start sh) (n_sub_cmd nd) (compadd_switch sh (n_sub_compadd nd))
            (n_sub_star nd) (match assocN pi os with Some o => o | None => [] end) = Ok t).
Proof. exact subwords_exact. Qed.
Check C04_subword_tables_exact :
  forall (sh : shell) (c : cdfa) (om : list (string * string)) (os : list (N * list (string * string))) (nd : needs) (a : alltables),
    all_tables sh c om os = Ok (nd, a) ->
    forall (pi id : N) (t : tables), In (pi, id, t) (a_subwords a) <->
    (exists (rt : list (N * inp * N)) (sd : dfa),
       rtrans (c_main c) = Ok rt /\ In (pi, id) (get_subwords rt (array_start sh)) /\ nthN (c_subs c) pi = Some sd
       /\ get_lookup_tables sd (a_commands a) (array_start sh) (n_sub_cmd nd) (compadd_switch sh (n_sub_compadd nd))
            (n_sub_star nd) (match assocN pi os with Some o => o | None => [] end) = Ok t).
Print Assumptions C04_subword_tables_exact.

(** bash (df274e8): the accepting states embedded for a within-word automaton are those of that automaton *)
Theorem C04_subword_accepting_exact :
  forall (sh : shell) (c : cdfa) (om : list (string * string)) (os : list (N * list (string * string))) (nd : needs) (a : alltables),
    all_tables sh c om os = Ok (nd, a) ->
    forall (id : N) (accs : list N), In (id, accs) (a_subaccepting a) <->
    (exists (rt : list (N * inp * N)) (pi : N) (sd : dfa),
       rtrans (c_main c) = Ok rt /\ In (pi, id) (get_subwords rt (array_start sh)) /\ nthN (c_subs c) pi = Some sd
       /\ accs = map (fun s => s + array_start sh) (d_accepting sd)).
Proof. exact subaccepting_exact. Qed.
Check C04_subword_accepting_exact :
  forall (sh : shell) (c : cdfa) (om : list (string * string)) (os : list (N * list (string * string))) (nd : needs) (a : alltables),
    all_tables sh c om os = Ok (nd, a) ->
    forall (id : N) (accs : list N), In (id, accs) (a_subaccepting a) <->
    (exists (rt : list (N * inp * N)) (pi : N) (sd : dfa),
       rtrans (c_main c) = Ok rt /\ In (pi, id) (get_subwords rt (array_start sh)) /\ nthN (c_subs c) pi = Some sd
       /\ accs = map (fun s => s + array_start sh) (d_accepting sd)).
Print Assumptions C04_subword_accepting_exact.

(** script ids of within-word automata: consecutive from the array base, one per automaton *)
Theorem C04_subword_ids :
  forall (rt : list (N * inp * N)) (first : N),
    map snd (get_subwords rt first) = map (fun k : nat => first + N.of_nat k) (seq 0 (List.length (get_subwords rt first)))
    /\ NoDup (map fst (get_subwords rt first)).
Proof. exact get_subwords_ids. Qed.
Check C04_subword_ids :
  forall (rt : list (N * inp * N)) (first : N),
    map snd (get_subwords rt first) = map (fun k : nat => first + N.of_nat k) (seq 0 (List.length (get_subwords rt first)))
    /\ NoDup (map fst (get_subwords rt first)).
Print Assumptions C04_subword_ids.

(** two within-word automata sharing one table set have identical tables, literal texts excepted *)
Theorem C04_shape_sharing_sound :
  forall a b : tables, isomorphic_to a b = true ->
    t_mlit a = t_mlit b /\ t_mcmd a = t_mcmd b /\ t_mcompadd a = t_mcompadd b /\ t_mstar a = t_mstar b
    /\ t_maxlevel a = t_maxlevel b /\ t_clit a = t_clit b /\ t_ccmd a = t_ccmd b /\ t_ccompadd a = t_ccompadd b.
Proof. exact isomorphic_sound. Qed.
Check C04_shape_sharing_sound :
  forall a b : tables, isomorphic_to a b = true ->
    t_mlit a = t_mlit b /\ t_mcmd a = t_mcmd b /\ t_mcompadd a = t_mcompadd b /\ t_mstar a = t_mstar b
    /\ t_maxlevel a = t_maxlevel b /\ t_clit a = t_clit b /\ t_ccmd a = t_ccmd b /\ t_ccompadd a = t_ccompadd b.
Print Assumptions C04_shape_sharing_sound.

(** all four shells: the shared table set IS the member's own (only the literal list is per word) *)
Theorem C04_shape_sharing_exact :
  forall a b : tables, isomorphic_to a b = true ->
    b = mktables (t_literals b) (t_mlit a) (t_mcmd a) (t_mcompadd a) (t_mstar a) (t_maxlevel a) (t_clit a) (t_ccmd a) (t_ccompadd a).
Proof. exact isomorphic_sound_full. Qed.
Check C04_shape_sharing_exact :
  forall a b : tables, isomorphic_to a b = true ->
    b = mktables (t_literals b) (t_mlit a) (t_mcmd a) (t_mcompadd a) (t_mstar a) (t_maxlevel a) (t_clit a) (t_ccmd a) (t_ccompadd a).
Print Assumptions C04_shape_sharing_exact.

(** Regression (formerly C04_refuted_zsh_compadd_levels, fixed by 5c017d7): for
    cmd --p1=(<ZA> || <ZB>) | --p2=(<ZB> || <ZA>); with <ZA@zsh>, <ZB@zsh> the two within-word automata
    differ only in the fallback level of the two compadd commands; they are no longer isomorphic, so
    they no longer share one table set. *)
Definition zc_sub (pre a b : string) : dfa :=
  mkdfa 0 [(0, [(0, 1)]); (1, [(1, 2); (2, 2)])] [2] [ILit pre None 0; ICompadd a 0; ICompadd b 1].
Definition zc_cdfa : cdfa :=
  mkcdfa (mkdfa 0 [(0, [(0, 1); (1, 1)])] [1] [ISub 0 0; ISub 1 0])
         [zc_sub "--p1=" "_za" "_zb"; zc_sub "--p2=" "_zb" "_za"].
Example ex_C04_zsh_compadd_levels_not_shared :
  match all_tables Zsh zc_cdfa [] [(0, [("--p1=", "")]); (1, [("--p2=", "")])] with
  | Ok (_, a) =>
      match a_subwords a with
      | [(0, 1, t1); (1, 2, t2)] =>
          isomorphic_to t1 t2 = false
          /\ t_ccompadd t1 = Some [[(1, [0])]; [(1, [1])]]
          /\ t_ccompadd t2 = Some [[(1, [1])]; [(1, [0])]]
      | _ => False
      end
  | _ => False
  end.
Proof. vm_compute. repeat split. Qed.
Print Assumptions ex_C04_zsh_compadd_levels_not_shared.

(** KNOWN FINDING (all shells; the mechanism behind C09's "same text under two fallback levels"):
    literal ids are keyed by (text, description), not by level, so for cmd (a x || a y); the two
    transitions from state 0 on [a] (level 0 -> state 1, level 1 -> state 2) collide in the match
    table: only (0, a) -> 2 is embedded. *)
Definition tl_dfa : dfa :=
  mkdfa 0 [(0, [(0, 1); (2, 2)]); (1, [(1, 3)]); (2, [(3, 3)])] [3]
        [ILit "a" None 0; ILit "x" None 0; ILit "a" None 1; ILit "y" None 1].
Theorem C04_refuted_same_text_two_levels :
  exists t,
    valid_literal_order tl_dfa [("y", ""); ("x", ""); ("a", "")] = true
    /\ get_lookup_tables tl_dfa [] 0 false false false [("y", ""); ("x", ""); ("a", "")] = Ok t
    /\ trans_on tl_dfa 0 (ILit "a" None 0) 1
    /\ t_mlit t = [(0, [(2, 2)]); (1, [(1, 3)]); (2, [(0, 3)])].
Proof. vm_compute. eexists. repeat split. exists 0. split; reflexivity. Qed.
Check C04_refuted_same_text_two_levels :
  exists t,
    valid_literal_order tl_dfa [("y", ""); ("x", ""); ("a", "")] = true
    /\ get_lookup_tables tl_dfa [] 0 false false false [("y", ""); ("x", ""); ("a", "")] = Ok t
    /\ trans_on tl_dfa 0 (ILit "a" None 0) 1
    /\ t_mlit t = [(0, [(2, 2)]); (1, [(1, 3)]); (2, [(0, 3)])].
Print Assumptions C04_refuted_same_text_two_levels.

(** bash, codec round trip of the table section every function of the script carries (literal list, match
    tables, completion tables), printed from the templates regenerated from bash.rs: the specification-side
    reader gives back exactly the statements [table_stmts t] -- literal texts, every row, every level, the
    star pairs, max_fallback_level -- and resumes right after the section, for ALL literal texts (C07). *)
Theorem C04_embed_bash_tables :
  forall (t : tables) (cmd : string) (k : nat) (rest : string),
    scan (List.length (table_stmts t) + k) Bash cmd
         (append (write_literals t) (append (write_match_transitions t) (append (write_completion_tables t) rest)))
    = table_stmts t ++ scan k Bash cmd rest.
Proof. exact bash_tables_roundtrip. Qed.
Check C04_embed_bash_tables :
  forall (t : tables) (cmd : string) (k : nat) (rest : string),
    scan (List.length (table_stmts t) + k) Bash cmd
         (append (write_literals t) (append (write_match_transitions t) (append (write_completion_tables t) rest)))
    = table_stmts t ++ scan k Bash cmd rest.
Print Assumptions C04_embed_bash_tables.

(** the same for the within-word transition rows of the completion function *)
Theorem C04_embed_bash_subword_rows :
  forall (m : list (N * list (N * N))) (cmd : string) (k : nat) (rest : string),
    scan (List.length m + k) Bash cmd
         (append (sconcat (map (fun row => fmtln write_completion_script_5
                                  [("state", sN (fst row)); ("state_transitions", join " " (map kv (snd row)))]) m)) rest)
    = row_stmts "subword_transitions" m ++ scan k Bash cmd rest.
Proof. exact bash_subword_rows_roundtrip. Qed.
Check C04_embed_bash_subword_rows :
  forall (m : list (N * list (N * N))) (cmd : string) (k : nat) (rest : string),
    scan (List.length m + k) Bash cmd
         (append (sconcat (map (fun row => fmtln write_completion_script_5
                                  [("state", sN (fst row)); ("state_transitions", join " " (map kv (snd row)))]) m)) rest)
    = row_stmts "subword_transitions" m ++ scan k Bash cmd rest.
Print Assumptions C04_embed_bash_subword_rows.

(** and for its within-word candidate tables *)
Theorem C04_embed_bash_subword_levels :
  forall (levels : list (list (N * list N))) (cmd : string) (k : nat) (rest : string),
    scan (List.length levels + k) Bash cmd
         (append (write_levels write_completion_script_11 write_completion_script_12 levels) rest)
    = level_stmts "subword_transitions_level_" levels ++ scan k Bash cmd rest.
Proof. exact bash_subword_levels_roundtrip. Qed.
Check C04_embed_bash_subword_levels :
  forall (levels : list (list (N * list N))) (cmd : string) (k : nat) (rest : string),
    scan (List.length levels + k) Bash cmd
         (append (write_levels write_completion_script_11 write_completion_script_12 levels) rest)
    = level_stmts "subword_transitions_level_" levels ++ scan k Bash cmd rest.
Print Assumptions C04_embed_bash_subword_levels.

(** The whole-script statement (reader applied to [EmitBash.script ...] = the data of [all_tables ...],
    including function headers, command bodies, wrappers, start state and registration) is NOT proved; it
    would be:
      Definition C04_embed_bash_statement : Prop :=
        forall command sig c om os groups s valid,
          script_of_dfa command sig c om os groups = Ok (s, valid) -> valid = true ->
          decode (read_stmts Bash s) = Some (embedded data of all_tables Bash c om os).
    What is proved is the round trip of every table section and table statement (above); the rest of
    the script (fixed skeleton + headers) is covered on every run by the byte-for-byte tie of
    [EmitBash.script] against Rust's script and by the direct judgement of the extracted reader on
    Rust's script. *)

(** Non-vacuity: the tables of a small automaton with a within-word automaton, a command and two
    fallback levels are computed ([all_tables] = Ok), the automaton is well-formed, the literal
    order valid and duplicate-free, and the printed table section is read back. *)
Definition ex_sub : dfa :=
  mkdfa 0 [(0, [(0, 1)]); (1, [(1, 2); (2, 2)])] [2] [ILit "--k=" None 0; ILit "x" (Some "dx") 0; ILit "y" None 1].
Definition ex_cdfa : cdfa :=
  mkcdfa (mkdfa 0 [(0, [(0, 1); (1, 1); (2, 2)]); (2, [(3, 1)])] [1]
                [ILit "a$" (Some "d") 0; ISub 0 0; ICmd "echo c" 1; IStar]) [ex_sub].
Definition ex_om : list (string * string) := [("a$", "d")].
Definition ex_os : list (N * list (string * string)) := [(0, [("--k=", ""); ("y", ""); ("x", "dx")])].
Example ex_C04_inhabited :
  match all_tables Bash ex_cdfa ex_om ex_os with
  | Ok (nd, a) =>
      valid_orders ex_cdfa ex_om ex_os = true
      /\ t_mlit (a_main a) = [(0, [(0, 1)])]
      /\ t_mcmd (a_main a) = Some [(0, [(0, 2)])]
      /\ t_mstar (a_main a) = Some [(2, 1)]
      /\ a_subtrans a = [(0, [(0, 1)])]
      /\ read_stmts Bash "cmd" (append (write_literals (a_main a)) (append (write_match_transitions (a_main a))
                                                                 (write_completion_tables (a_main a))))
         = table_stmts (a_main a)
  | _ => False
  end.
Proof. vm_compute. repeat split. Qed.
Print Assumptions ex_C04_inhabited.
