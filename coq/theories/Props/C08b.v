(** C08 end to end -- grammar mistakes are rejected with the right diagnostic, from the SOURCE TEXT.
    Statements only; proofs in Proofs/PipelineMistakes.v (on top of Props/C08.v, the parser round trip
    Props/C05.v, the span-blindness of the pipeline Props/C14b.v and its totality Props/C06b.v).

    For every printable grammar [g] ([wf g], the domain of the parser's round trip) and EVERY layout
    [l] of its text: when a mistake class of Spec/Mistakes.v is present in [g] (and the classes the
    checker decides earlier are absent), [Driver.compile] -- parser, checker, regex, automata --
    rejects [text g l] with the error of the matching kind.

    Lifted here: all the classes check.rs decides -- no call variant, varying command names, `/`
    in the name, duplicate plain definition, unknown shell / non-command / duplicate definition
    for a shell, cyclic definitions (both directions), space-separated literals inside a word --
    and, since the repair of finding N2, the class regex.rs decides: "placeholder inside a word
    that something can follow" ([placeholder_not_last] <=> [DRegex UnboundedMatchable], both
    directions, [C08b_placeholder]).
    NOT lifted, and why:
    - "the same literal with two different descriptions" ([DAmb ConflictingDescriptions]): there is
      no predicate on the grammar for it in Spec/Mistakes.v; what is proved is on the automaton
      ([C08_ambiguity_accepts/rejects/decides] in Props/C08.v);
    - the converse "a grammar free of all classes compiles" is proved up to that class and the
      known converse finding N1 (juxtaposed literals `foo(bar)` rejected as SubwordSpaces):
      [C08b_clean_compiles]; the full statement is kept as [C08b_clean_compiles_statement]. *)
From CG Require Import Base.Prelude Model.Ast Model.Lexer Model.Parser Model.Check Model.Regex.
From CG Require Import Model.Dfa Model.Ambiguity Model.Driver Spec.Printer Spec.Choice Spec.Mistakes.
From CG Require Import Proofs.CheckMistakes Proofs.CheckFront Proofs.CheckCycleSpec Proofs.CheckSpacesSpec.
From CG Require Import Proofs.PipelineLayout Proofs.PipelineTotal Proofs.PipelineMistakes.
From CG Require Proofs.PipelinePlaceholder Proofs.AmbLang.
From CGgen Require Import Consts.

(** the bridge: the text of a printable grammar goes through the pipeline like the grammar itself,
    up to spans *)
Theorem C08b_text_bridge :
  forall pick fuel builtins g l sh,
    wf g ->
    layout_rel (compile pick fuel builtins (text g l) sh) (after_parse pick fuel builtins g sh).
Proof. exact text_bridge. Qed.
Check C08b_text_bridge :
  forall pick fuel builtins g l sh,
    wf g ->
    layout_rel (compile pick fuel builtins (text g l) sh) (after_parse pick fuel builtins g sh).
Print Assumptions C08b_text_bridge.

Theorem C08b_no_call_variant :
  forall pick fuel builtins g l sh,
    wf g -> no_call_variant g = true ->
    compile pick fuel builtins (text g l) sh = Err (DCheck MissingCallVariants).
Proof.
  intros pick fuel builtins g l sh W H.
  destruct (checker_error_lifts pick fuel builtins _ g l sh blind_missing W) as [e [He ->]]; [|exact He].
  eexists. split; [apply no_call_variant_rejected; exact H|reflexivity].
Qed.
Check C08b_no_call_variant :
  forall pick fuel builtins g l sh,
    wf g -> no_call_variant g = true ->
    compile pick fuel builtins (text g l) sh = Err (DCheck MissingCallVariants).
Print Assumptions C08b_no_call_variant.

Theorem C08b_varying_names :
  forall pick fuel builtins g l sh,
    wf g -> varying_names g = true ->
    exists spans, compile pick fuel builtins (text g l) sh = Err (DCheck (VaryingCommandNames spans)).
Proof.
  intros pick fuel builtins g l sh W H.
  destruct (checker_error_lifts pick fuel builtins _ g l sh blind_varying W) as [e [He [spans ->]]]; [|eauto].
  destruct (varying_names_rejected builtins g sh H) as [spans Hs]. eauto.
Qed.
Check C08b_varying_names :
  forall pick fuel builtins g l sh,
    wf g -> varying_names g = true ->
    exists spans, compile pick fuel builtins (text g l) sh = Err (DCheck (VaryingCommandNames spans)).
Print Assumptions C08b_varying_names.

Theorem C08b_slash_in_name :
  forall pick fuel builtins g l sh,
    wf g -> varying_names g = false -> slash_in_name g = true ->
    exists sp, compile pick fuel builtins (text g l) sh = Err (DCheck (InvalidCommandName sp)).
Proof.
  intros pick fuel builtins g l sh W Hv H.
  destruct (checker_error_lifts pick fuel builtins _ g l sh blind_invalid W) as [e [He [sp ->]]]; [|eauto].
  destruct (slash_in_name_rejected builtins g sh Hv H) as [sp Hs]. eauto.
Qed.
Check C08b_slash_in_name :
  forall pick fuel builtins g l sh,
    wf g -> varying_names g = false -> slash_in_name g = true ->
    exists sp, compile pick fuel builtins (text g l) sh = Err (DCheck (InvalidCommandName sp)).
Print Assumptions C08b_slash_in_name.

Theorem C08b_duplicate_plain :
  forall pick fuel builtins g l sh,
    wf g -> no_call_variant g = false -> varying_names g = false -> slash_in_name g = false ->
    duplicate_plain g = true ->
    exists a b, compile pick fuel builtins (text g l) sh = Err (DCheck (DuplicateNonterminalDefinition a b)).
Proof.
  intros pick fuel builtins g l sh W Hn Hv Hs H.
  destruct (checker_error_lifts pick fuel builtins _ g l sh blind_duplicate W) as [e [He [a [b ->]]]]; [|eauto].
  destruct (duplicate_plain_rejected builtins g sh Hn Hv Hs H) as [a [b Hd]]. eauto.
Qed.
Check C08b_duplicate_plain :
  forall pick fuel builtins g l sh,
    wf g -> no_call_variant g = false -> varying_names g = false -> slash_in_name g = false ->
    duplicate_plain g = true ->
    exists a b, compile pick fuel builtins (text g l) sh = Err (DCheck (DuplicateNonterminalDefinition a b)).
Print Assumptions C08b_duplicate_plain.

Theorem C08b_specialization_errors :
  forall pick fuel builtins g l sh,
    wf g -> no_call_variant g = false -> varying_names g = false -> slash_in_name g = false ->
    duplicate_plain g = false ->
    unknown_shell g || non_command_for_shell g || duplicate_for_shell g sh = true ->
    exists e, compile pick fuel builtins (text g l) sh = Err (DCheck e) /\
              match e with
              | UnknownShell _ => unknown_shell g = true
              | NonCommandSpecialization _ => non_command_for_shell g = true
              | DuplicateNonterminalDefinition _ _ => duplicate_for_shell g sh = true
              | _ => False
              end.
Proof.
  intros pick fuel builtins g l sh W Hn Hv Hs Hd H.
  apply (checker_error_lifts pick fuel builtins _ g l sh (blind_spec_errors _ _ _) W).
  apply specialization_errors; assumption.
Qed.
Check C08b_specialization_errors :
  forall pick fuel builtins g l sh,
    wf g -> no_call_variant g = false -> varying_names g = false -> slash_in_name g = false ->
    duplicate_plain g = false ->
    unknown_shell g || non_command_for_shell g || duplicate_for_shell g sh = true ->
    exists e, compile pick fuel builtins (text g l) sh = Err (DCheck e) /\
              match e with
              | UnknownShell _ => unknown_shell g = true
              | NonCommandSpecialization _ => non_command_for_shell g = true
              | DuplicateNonterminalDefinition _ _ => duplicate_for_shell g sh = true
              | _ => False
              end.
Print Assumptions C08b_specialization_errors.

Theorem C08b_cycle :
  forall pick fuel builtins g l sh,
    wf g -> no_call_variant g = false -> varying_names g = false -> slash_in_name g = false ->
    duplicate_plain g = false ->
    unknown_shell g = false -> non_command_for_shell g = false -> duplicate_for_shell g sh = false ->
    specs_have_command_plain g = true ->
    (cyclic g sh = true <->
     exists spans, compile pick fuel builtins (text g l) sh = Err (DCheck (NonterminalDefinitionsCycle spans))).
Proof.
  intros pick fuel builtins g l sh W Hn Hv Hs Hd H1 H2 H3 Hsp. split.
  - intro Hc.
    destruct (checker_error_lifts pick fuel builtins _ g l sh blind_cycle W) as [e [He [spans ->]]]; [|eauto].
    apply (cycle_rejected builtins g sh Hn Hv Hs Hd H1 H2 H3 Hsp) in Hc. destruct Hc as [spans Hc]. eauto.
  - intros [spans Hc]. apply (cycle_rejected builtins g sh Hn Hv Hs Hd H1 H2 H3 Hsp).
    eapply lifted_cycle_converse; eauto.
Qed.
Check C08b_cycle :
  forall pick fuel builtins g l sh,
    wf g -> no_call_variant g = false -> varying_names g = false -> slash_in_name g = false ->
    duplicate_plain g = false ->
    unknown_shell g = false -> non_command_for_shell g = false -> duplicate_for_shell g sh = false ->
    specs_have_command_plain g = true ->
    (cyclic g sh = true <->
     exists spans, compile pick fuel builtins (text g l) sh = Err (DCheck (NonterminalDefinitionsCycle spans))).
Print Assumptions C08b_cycle.

(** printable grammars only have words that are juxtapositions, so the side condition of
    [C08_subword_spaces] disappears *)
Theorem C08b_subword_spaces :
  forall pick fuel builtins g l sh,
    wf g -> no_call_variant g = false -> varying_names g = false -> slash_in_name g = false ->
    duplicate_plain g = false ->
    unknown_shell g = false -> non_command_for_shell g = false -> duplicate_for_shell g sh = false ->
    specs_have_command_plain g = true -> cyclic g sh = false ->
    subword_spaces g sh = true ->
    exists a b t, compile pick fuel builtins (text g l) sh = Err (DCheck (SubwordSpaces a b t)).
Proof.
  intros pick fuel builtins g l sh W Hn Hv Hs Hd H1 H2 H3 Hsp Hc H.
  destruct (checker_error_lifts pick fuel builtins _ g l sh blind_spaces W) as [e [He (a & b & t & ->)]]; [|eauto].
  destruct (subword_spaces_rejected builtins g sh Hn Hv Hs Hd H1 H2 H3 Hsp Hc (wf_word_roots g W) H)
    as (a & b & t & Hr). eauto 6.
Qed.
Check C08b_subword_spaces :
  forall pick fuel builtins g l sh,
    wf g -> no_call_variant g = false -> varying_names g = false -> slash_in_name g = false ->
    duplicate_plain g = false ->
    unknown_shell g = false -> non_command_for_shell g = false -> duplicate_for_shell g sh = false ->
    specs_have_command_plain g = true -> cyclic g sh = false ->
    subword_spaces g sh = true ->
    exists a b t, compile pick fuel builtins (text g l) sh = Err (DCheck (SubwordSpaces a b t)).
Print Assumptions C08b_subword_spaces.

(** Conversely: a printable grammar free of all the classes above compiles, or is rejected for one
    of the three reasons that are not lifted (N1 included in the first). *)
Theorem C08b_clean_verdict :
  forall pick fuel builtins g l sh,
    wf g -> fuel_covers fuel builtins (text g l) sh ->
    no_call_variant g = false -> varying_names g = false -> slash_in_name g = false ->
    duplicate_plain g = false ->
    unknown_shell g = false -> non_command_for_shell g = false -> duplicate_for_shell g sh = false ->
    specs_have_command_plain g = true -> cyclic g sh = false ->
    (exists vc, compile pick fuel builtins (text g l) sh = Ok vc) \/
    (exists a b t, compile pick fuel builtins (text g l) sh = Err (DCheck (SubwordSpaces a b t))) \/
    (exists a b, compile pick fuel builtins (text g l) sh = Err (DRegex (UnboundedMatchable a b))) \/
    (exists ae, compile pick fuel builtins (text g l) sh = Err (DAmb ae)).
Proof. exact lifted_clean_verdict. Qed.
Check C08b_clean_verdict :
  forall pick fuel builtins g l sh,
    wf g -> fuel_covers fuel builtins (text g l) sh ->
    no_call_variant g = false -> varying_names g = false -> slash_in_name g = false ->
    duplicate_plain g = false ->
    unknown_shell g = false -> non_command_for_shell g = false -> duplicate_for_shell g sh = false ->
    specs_have_command_plain g = true -> cyclic g sh = false ->
    (exists vc, compile pick fuel builtins (text g l) sh = Ok vc) \/
    (exists a b t, compile pick fuel builtins (text g l) sh = Err (DCheck (SubwordSpaces a b t))) \/
    (exists a b, compile pick fuel builtins (text g l) sh = Err (DRegex (UnboundedMatchable a b))) \/
    (exists ae, compile pick fuel builtins (text g l) sh = Err (DAmb ae)).
Print Assumptions C08b_clean_verdict.

(** The class the regex stage decides: a placeholder inside a word that something can follow.
    Unless the checker rejects the text for space-separated literals first (which includes the
    juxtaposed literals of finding N1), the text ends in [DRegex UnboundedMatchable] exactly when
    the class is present. *)
Theorem C08b_placeholder :
  forall pick fuel builtins g l sh,
    wf g ->
    no_call_variant g = false -> varying_names g = false -> slash_in_name g = false ->
    duplicate_plain g = false ->
    unknown_shell g = false -> non_command_for_shell g = false -> duplicate_for_shell g sh = false ->
    specs_have_command_plain g = true -> cyclic g sh = false ->
    (exists a b t, compile pick fuel builtins (text g l) sh = Err (DCheck (SubwordSpaces a b t))) \/
    (placeholder_not_last builtins g sh = true <->
     exists a b, compile pick fuel builtins (text g l) sh = Err (DRegex (UnboundedMatchable a b))).
Proof. exact PipelinePlaceholder.lifted_placeholder. Qed.
Check C08b_placeholder :
  forall pick fuel builtins g l sh,
    wf g ->
    no_call_variant g = false -> varying_names g = false -> slash_in_name g = false ->
    duplicate_plain g = false ->
    unknown_shell g = false -> non_command_for_shell g = false -> duplicate_for_shell g sh = false ->
    specs_have_command_plain g = true -> cyclic g sh = false ->
    (exists a b t, compile pick fuel builtins (text g l) sh = Err (DCheck (SubwordSpaces a b t))) \/
    (placeholder_not_last builtins g sh = true <->
     exists a b, compile pick fuel builtins (text g l) sh = Err (DRegex (UnboundedMatchable a b))).
Print Assumptions C08b_placeholder.

(** A printable grammar with NO class of Spec/Mistakes.v compiles, or is rejected for one of the two
    reasons that remain: juxtaposed literals (N1) or a description conflict. *)
Theorem C08b_clean_compiles :
  forall pick fuel builtins g l sh,
    wf g -> fuel_covers fuel builtins (text g l) sh ->
    present builtins g sh = [] -> specs_have_command_plain g = true ->
    (exists vc, compile pick fuel builtins (text g l) sh = Ok vc) \/
    (exists a b t, compile pick fuel builtins (text g l) sh = Err (DCheck (SubwordSpaces a b t))) \/
    (exists ae, compile pick fuel builtins (text g l) sh = Err (DAmb ae)).
Proof. exact PipelinePlaceholder.lifted_clean_compiles. Qed.
Check C08b_clean_compiles :
  forall pick fuel builtins g l sh,
    wf g -> fuel_covers fuel builtins (text g l) sh ->
    present builtins g sh = [] -> specs_have_command_plain g = true ->
    (exists vc, compile pick fuel builtins (text g l) sh = Ok vc) \/
    (exists a b t, compile pick fuel builtins (text g l) sh = Err (DCheck (SubwordSpaces a b t))) \/
    (exists ae, compile pick fuel builtins (text g l) sh = Err (DAmb ae)).
Print Assumptions C08b_clean_compiles.

(** The full converse of the property (not proved: N1 and the description-conflict class stand in the way). *)
Definition C08b_clean_compiles_statement : Prop :=
  forall pick fuel builtins g l sh,
    wf g -> fuel_covers fuel builtins (text g l) sh ->
    present builtins g sh = [] -> specs_have_command_plain g = true ->
    exists vc, compile pick fuel builtins (text g l) sh = Ok vc.

(** What stands between [C08b_clean_compiles] and the full converse, stated:
    - finding N1 as a predicate on the grammar: some word is a juxtaposition with two neighbours
      that end / start with a literal AS WRITTEN (references are not followed at the root of a
      word): `foo(bar)`; check_subword_spaces rejects it although nothing is space-separated;
    - the description-conflict class at the level of the language ([AmbLang.lang_conflict], what
      the ambiguity check decides: [C08_description_conflict]) for the main regex and the regexes
      of the words; a predicate on the source grammar for it is still missing. *)
Definition juxtaposed_literals_in (e : expr) : bool :=
  existsb (fun w => match w with Sequence cs _ => adjacent_literals cs | _ => false end) (words_of e).
Definition juxtaposed_literals (g : grammar) : bool :=
  existsb (fun st => match st with
                     | CallVariant _ _ e => juxtaposed_literals_in e
                     | NontermDef _ _ _ rhs => juxtaposed_literals_in rhs
                     end) g.
Definition no_description_conflict (pick : nat -> list (list N) -> nat) (fuel : nat)
           (builtins : shell -> list (string * string)) (g : grammar) (sh : shell) : Prop :=
  forall v r pl x submap d states,
    from_grammar builtins g sh = Ok v -> from_expr (v_expr v) [] = Ok (r, pl) ->
    x = r \/ In x pl ->
    Subset.dfa_from_regex pick fuel submap x = Ok (d, states) -> ~ AmbLang.lang_conflict d.

(** The converse with the two gaps as explicit hypotheses (NOT proved: it needs the converse of
    [C08_subword_spaces] -- the walk of check_subword_spaces errs only on [subword_spaces] or
    [juxtaposed_literals] -- and [C08_description_conflict] for the automata of the words). *)
Definition C08b_clean_compiles_modulo_gaps_statement : Prop :=
  forall pick fuel builtins g l sh,
    wf g -> fuel_covers fuel builtins (text g l) sh ->
    present builtins g sh = [] -> specs_have_command_plain g = true ->
    juxtaposed_literals g = false -> no_description_conflict pick fuel builtins g sh ->
    exists vc, compile pick fuel builtins (text g l) sh = Ok vc.

(** Non-vacuity: a printable grammar with a cycle hidden behind a description, printed with two
    different layouts, is rejected with the cycle error; a printable clean one compiles. *)
Definition ex_sp := mkspan 0 0 0.
Definition ex_cyc : grammar :=
  [ CallVariant "cmd" ex_sp (Terminal "a" None 0 ex_sp);
    NontermDef "A" ex_sp None (Optional (NontermRef "B" 0 ex_sp) ex_sp);
    NontermDef "B" ex_sp None (DistDescr (NontermRef "A" 0 ex_sp) "d" ex_sp) ].
Definition ex_clean : grammar :=
  [ CallVariant "cmd" ex_sp (Sequence [NontermRef "A" 0 ex_sp;
       Subword (Sequence [Terminal "--o=" None 0 ex_sp; NontermRef "U" 0 ex_sp] ex_sp) 0 ex_sp] ex_sp);
    NontermDef "A" ex_sp None (Alternative [Terminal "x" None 0 ex_sp; Terminal "y" (Some "d") 0 ex_sp] ex_sp) ].
Definition lay0 : layout :=
  fun _ => mknl (fun _ => [BWs WSp]) (fun _ => ([BWs WSp], [BWs WSp])) (fun _ => ([], [])) 0
                (fun _ => false) (fun _ => [TSp]) true.
Definition lay1 : layout :=
  fun path => mknl (fun k => match k with 1%nat => [BCom " note"; BWs WLf] | _ => [BWs WTab] end)
                   (fun k => ([BWs WLf], [BWs WSp])) (fun _ => ([BWs WSp], [])) 
                   (match path with [0%nat; 0%nat] => 1%nat | _ => 0%nat end)
                   (fun _ => false) (fun _ => [TSp; TLf]) false.
Example ex_C08b_inhabited :
  forallb wf_stmt ex_cyc = true /\ cyclic ex_cyc Bash = true
  /\ forallb wf_stmt ex_clean = true /\ present builtins ex_clean Bash = []
  /\ text ex_cyc lay0 <> text ex_cyc lay1
  /\ (exists spans, compile Subset.pick_first 4096 builtins (text ex_cyc lay0) Bash
                    = Err (DCheck (NonterminalDefinitionsCycle spans)))
  /\ (exists spans, compile Subset.pick_first 4096 builtins (text ex_cyc lay1) Bash
                    = Err (DCheck (NonterminalDefinitionsCycle spans)))
  /\ is_ok (compile Subset.pick_first 4096 builtins (text ex_clean lay1) Bash) = true.
Proof.
  vm_compute. repeat split; try reflexivity; try (eexists; reflexivity). intro H. discriminate H.
Qed.
Print Assumptions ex_C08b_inhabited.

(** Non-vacuity of the placeholder class: the text of `cmd x<U>y;` is rejected by the regex stage;
    the text of `cmd x(<U>|a(b|c));` (the shape of finding N2) has no class and compiles. *)
Definition ex_ph_word (cs : list expr) : grammar :=
  [ CallVariant "cmd" ex_sp (Subword (Sequence cs ex_sp) 0 ex_sp) ].
Definition ex_ph_bad : grammar :=
  ex_ph_word [Terminal "x" None 0 ex_sp; NontermRef "U" 0 ex_sp; Terminal "y" None 0 ex_sp].
Definition ex_ph_n2 : grammar :=
  ex_ph_word [Terminal "x" None 0 ex_sp;
              Alternative [NontermRef "U" 0 ex_sp;
                           Sequence [Terminal "a" None 0 ex_sp;
                                     Alternative [Terminal "b" None 0 ex_sp; Terminal "c" None 0 ex_sp] ex_sp] ex_sp]
                          ex_sp].
Example ex_C08b_placeholder_inhabited :
  forallb wf_stmt ex_ph_bad = true /\ present builtins ex_ph_bad Bash = [MPlaceholderNotLast]
  /\ (exists a b, compile Subset.pick_first 4096 builtins (text ex_ph_bad lay1) Bash
                  = Err (DRegex (UnboundedMatchable a b)))
  /\ forallb wf_stmt ex_ph_n2 = true /\ present builtins ex_ph_n2 Bash = []
  /\ is_ok (compile Subset.pick_first 4096 builtins (text ex_ph_n2 lay1) Bash) = true.
Proof.
  vm_compute. repeat split; try reflexivity; try (do 2 eexists; reflexivity).
Qed.
Print Assumptions ex_C08b_placeholder_inhabited.

(** Non-vacuity of the N1 predicate: `cmd foo(bar);` has no class of Spec/Mistakes.v, has the N1
    shape and is rejected with SubwordSpaces; `cmd --opt=<X>; <X> ::= foo;` has not and is accepted. *)
Definition ex_n1 : grammar :=
  [ CallVariant "cmd" ex_sp (Subword (Sequence [Terminal "foo" None 0 ex_sp; Terminal "bar" None 0 ex_sp] ex_sp) 0 ex_sp) ].
Definition ex_not_n1 : grammar :=
  [ CallVariant "cmd" ex_sp (Subword (Sequence [Terminal "--opt=" None 0 ex_sp; NontermRef "X" 0 ex_sp] ex_sp) 0 ex_sp);
    NontermDef "X" ex_sp None (Terminal "foo" None 0 ex_sp) ].
Example ex_C08b_n1_inhabited :
  present builtins ex_n1 Bash = [] /\ juxtaposed_literals ex_n1 = true
  /\ (exists a b t, from_grammar builtins ex_n1 Bash = Err (SubwordSpaces a b t))
  /\ present builtins ex_not_n1 Bash = [] /\ juxtaposed_literals ex_not_n1 = false
  /\ is_ok (from_grammar builtins ex_not_n1 Bash) = true.
Proof. vm_compute. repeat split; try reflexivity. do 3 eexists. reflexivity. Qed.
Print Assumptions ex_C08b_n1_inhabited.
